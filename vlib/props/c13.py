"""C13 — string builtins (lib/fnc.c, lib/mod-str.c, lib/misc-imp.h, lib/utl-str.c): proofs on HawkModel.StrFn +
correspondence of the model with the real interpreter + gawk/mawk as a second opinion on the specification.

Correspondence protocol (same op lines for both sides):
  op tok*            tok = N | I:<int> | F:<mant>/<exp10> | S:<hex..> | B:<hex..> | C:<hex> | K:<hex> | R:<hex..> | -
The C side is harness/strfn_h.c = the real interpreter + observation builtins; the ops are rendered into a hawk
program (literal arguments of every value type, each builtin and its str:: twin), run in chunks; every call prints its
result, the by-reference target T, the by-reference collection A, RSTART, RLENGTH, NF, $0, a sentinel variable and a
signature of all other built-in globals, all read from the internal value representation.  Regex-driven calls also
print the raw matcher table (what the real engine answers at every start offset of that subject) which is appended to the op
line for the Lean driver: the regex engine is data here, not part of the model (that is property C06).
"""
import os, re, time, itertools, subprocess, concurrent.futures
from .. import common as C
from .. import ctie

ALPHA = [0x61, 0x62, 0xE9]
HARNESS = os.path.join(C.VERIF, "harness", "strfn_h.c")


# ----------------------------------------------------------------------------------------------
# value tokens
# ----------------------------------------------------------------------------------------------
def hx(l):
    return ".".join("%x" % c for c in l)


def S(cs): return "S:" + hx(cs)
def B(bs): return "B:" + hx(bs)
def Ch(c): return "C:%x" % c
def K(b): return "K:%x" % b
def I(i): return "I:%d" % i
def R(cs): return "R:" + hx(cs)
def Ss(text): return S([ord(c) for c in text])
def Rs(text): return R([ord(c) for c in text])


def F(text):
    """decimal literal like '1.5' / '-2.7' -> F:mant/exp"""
    neg = text.startswith("-")
    t = text.lstrip("-")
    ip, fp = t.split(".")
    return "F:%s%d/%d" % ("-" if neg else "", int(ip + fp), len(fp))


def utf8(cs):
    return list("".join(chr(c) for c in cs).encode("utf-8"))


def unhx(body):
    return [int(x, 16) for x in body.split(".")] if body else []


def lit(tok):
    """hawk source literal of a value token"""
    k, body = tok[0], tok[2:]
    if tok == "N":
        return "NILV"
    if k == "I":
        return "(%s)" % body
    if k == "F":
        m, e = body.split("/")
        m = int(m); e = int(e)
        s = "%0*d" % (e + 1, abs(m))
        s = s[:-e] + "." + s[-e:] if e else s
        return "(%s%s)" % ("-" if m < 0 else "", s)
    if k == "S":
        return '"' + "".join("\\u%04x" % c for c in unhx(body)) + '"'
    if k == "B":
        return '@b"' + "".join("\\x%02x" % c for c in unhx(body)) + '"'
    if k == "C":
        return "'\\u%04x'" % int(body, 16)
    if k == "K":
        return "@b'\\x%02x'" % int(body, 16)
    if k == "R":
        return "/" + "".join(chr(c) for c in unhx(body)) + "/"
    raise ValueError(tok)


def patstr(tok):
    """the pattern as the string the builtin compiles: regex literal -> its source as a string literal"""
    if tok[0] == "R":
        return '"' + "".join("\\u%04x" % c for c in unhx(tok[2:])) + '"'
    return lit(tok)


# ----------------------------------------------------------------------------------------------
# ops -> hawk statements
# ----------------------------------------------------------------------------------------------
PRELUDE = 'function D(i, r) { out("#" i " " tv(r) " T=" tv(T) " C=" tv(A) " RS=" tv(RSTART) " RL=" tv(RLENGTH) ' \
          '" NF=" tv(NF) " R0=" tv($0) " X=" tv(X) " G=" gsig()); }\n'


CLASSES = ["alnum", "alpha", "blank", "cntrl", "digit", "graph", "lower", "print", "punct", "space", "upper", "xdigit"]


def parts(i, op):
    """op = (name, toks, twin) -> (statements to run first, the call expression); an 'i:' prefix on the name = the call
    runs with IGNORECASE = 1"""
    name, t, twin = op
    if name.startswith("i:"):
        name = name[2:]
    ns = "str::" if twin else ""
    opt = lambda tok: "" if tok == "-" else ", " + lit(tok)
    if name == "length":
        return "", "%slength(%s)" % (ns, lit(t[0]))
    if name == "substr":
        return "", "%ssubstr(%s, %s%s)" % (ns, lit(t[0]), lit(t[1]), opt(t[2]))
    if name == "index":
        return "", "%sindex(%s, %s%s)" % (ns, lit(t[0]), lit(t[1]), opt(t[2]))
    if name == "rindex":
        return "", "str::rindex(%s, %s%s)" % (lit(t[0]), lit(t[1]), opt(t[2]))
    if name in ("tolower", "toupper"):
        return "", "%s%s(%s)" % (ns, name, lit(t[0]))
    if name in ("split", "splita"):
        fn = "str::splita" if name == "splita" else ns + "split"
        m = ""
        if t[1] != "-" and t[1] != "N":
            m = 'out("M%d " rawtable(%s, %s, 0)); ' % (i, patstr(t[1]), lit(t[0]))
        return m, "%s(%s, A%s)" % (fn, lit(t[0]), opt(t[1]))
    if name in ("sub", "gsub"):
        tl = "@nil" if t[2] == "N" else lit(t[2])
        return 'T = %s; ' % tl, 'MT(%d, rawtable(%s, T, 0)) %s%s(%s, %s, T)' % (i, patstr(t[0]), ns, name, lit(t[0]), lit(t[1]))
    if name in ("match", "matcha"):
        return 'out("M%d " rawtable(%s, %s, 1)); ' % (i, patstr(t[1]), lit(t[0])), "match(%s, %s%s)" % (
            lit(t[0]), lit(t[1]), ", A" if name == "matcha" else "")
    if name == "smatch":
        return 'out("M%d " rawtable(%s, %s, 1)); ' % (i, patstr(t[1]), lit(t[0])), "str::match(%s, %s%s)" % (lit(t[0]), lit(t[1]), opt(t[2]))
    if name == "smatcha":
        st = "(1)" if t[2] == "-" else lit(t[2])
        return 'out("M%d " rawtable(%s, %s, 1)); ' % (i, patstr(t[1]), lit(t[0])), "str::match(%s, %s, %s, A)" % (lit(t[0]), lit(t[1]), st)
    # ---- functions implemented in mod-str.c itself (str:: only)
    if name in ("trim", "ltrim", "rtrim", "normspace"):
        return "", "str::%s(%s)" % (name, lit(t[0]))
    if name == "trimf":
        return "", "str::trim(%s%s)" % (lit(t[0]), opt(t[1]))
    if name == "subchar":
        return "", "str::subchar(%s, %s)" % (lit(t[0]), lit(t[1]))
    if name == "tocharcode":
        return "", "str::tocharcode(%s%s)" % (lit(t[0]), opt(t[1]))
    if name in ("fromcharcode", "frombcharcode"):
        return "", "str::%s(%s)" % (name, ", ".join(lit(x) for x in t))
    if name.startswith("is:"):
        return "", "str::is%s(%s)" % (name[3:], lit(t[0]))
    if name in ("tombs", "frommbs"):
        return "", "str::%s(%s%s)" % (name, lit(t[0]), opt(t[1]))
    if name == "tonum":
        return "", "str::tonum(%s%s)" % (lit(t[0]), opt(t[1]))
    raise ValueError(name)


def stmt(i, op):
    """hawk statements printing '#i ...' (and 'Mi ...' for regex-driven calls)"""
    if op[0] in ("sub0", "gsub0"):       # two-argument form: the record is the target; it is reset after the dump
        t = op[1]
        return '$0 = %s; out("M%d " rawtable(%s, $0, 0)); D(%d, %s%s(%s, %s)); $0 = "";' % (
            lit(t[2]), i, patstr(t[0]), i, "str::" if op[2] else "", op[0][:-1], lit(t[0]), lit(t[1]))
    pre, expr = parts(i, op)
    if expr.startswith("MT("):        # sub/gsub: the table must be taken after T is set and under the same IGNORECASE
        k = expr.index(") ") + 1
        k = expr.index("))") + 2
        tbl, expr = expr[:k], expr[k + 1:]
        tbl = 'out("M%s " %s); ' % (tbl[3:tbl.index(",")], tbl[tbl.index(",") + 2:-1])
    else:
        tbl = ""
    if op[0].startswith("i:"):
        pre1, pre2 = (pre, "") if not pre.startswith("out(") else ("", pre)      # table statements run under IGNORECASE too
        return "%sIGNORECASE = 1; %s%sRV = %s; IGNORECASE = @nil; D(%d, RV);" % (pre1, pre2, tbl, expr, i)
    return "%s%sD(%d, %s);" % (pre, tbl, i, expr)


def program(ops, base):
    body = [PRELUDE, 'BEGIN {', 'X = "s"; $0 = ""; gsig();']
    for j, op in enumerate(ops):
        body.append(stmt(base + j, op))
    body.append('}')
    return "\n".join(body) + "\n"


def opline(op, table=None):
    name, t, twin = op
    s = name + " " + " ".join(t)
    if table:
        s += " | " + table
    return s


# ----------------------------------------------------------------------------------------------
# running the C side
# ----------------------------------------------------------------------------------------------
def run_chunk(exe, scratch, ops, base, tag):
    """returns (results{i: text}, tables{i: text}, rc, stderr)"""
    path = os.path.join(scratch, "c13_%s_%d.hawk" % (tag, base))
    with open(path, "w") as f:
        f.write(program(ops, base))
    rc, out, err = C.sh([exe, path], timeout=10 + len(ops) // 60, env=C.ASAN_ENV)
    res, tbl = {}, {}
    for line in out.decode(errors="replace").split("\n"):
        if line.startswith("#"):
            k, _, rest = line[1:].partition(" ")
            if k.isdigit():
                res[int(k)] = rest
        elif line.startswith("M"):
            k, _, rest = line[1:].partition(" ")
            if k.isdigit():
                tbl[int(k)] = rest
    return res, tbl, rc, err.decode(errors="replace")


def run_impl(ctx, exe, ops, chunk=1500, max_crashes=40):
    """run all ops through the harness in parallel chunks; a chunk that dies is resumed after the op that killed it.
    returns (results[i] | None, tables[i] | None, starts (indices where a fresh process = reset began), crashes[(i, status, err)])"""
    n = len(ops)
    results = [None] * n
    tables = [None] * n
    starts = set()
    crashes = []
    work = [(b, min(n, b + chunk)) for b in range(0, n, chunk)]
    with concurrent.futures.ThreadPoolExecutor(max_workers=14) as ex:
        while work:
            futs = {ex.submit(run_chunk, exe, ctx.scratch, ops[b:e], b, "r"): (b, e) for b, e in work}
            work = []
            for fu in concurrent.futures.as_completed(futs):
                b, e = futs[fu]
                res, tbl, rc, err = fu.result()
                starts.add(b)
                for i in range(b, e):
                    if i in res:
                        results[i] = res[i]
                    if i in tbl:
                        tables[i] = tbl[i]
                missing = [i for i in range(b, e) if i not in res]
                if missing:
                    j = missing[0]
                    st = C.classify_rc(rc, err)
                    if st == "ok":
                        st = "EXIT%d" % rc
                    crashes.append((j, st, err[-1800:]))
                    for i in range(j, e):
                        results[i] = None
                    hangs = len([c for c in crashes if c[1].startswith("TIMEOUT")])
                    # a call that does not return costs a full time budget: resume after at most three of them
                    if len(crashes) < max_crashes and hangs <= 3 and j + 1 < e:
                        work.append((j + 1, e))
    return results, tables, starts, crashes


def run_model(ctx, ops, tables, starts):
    lines = []
    idx = []
    for i, op in enumerate(ops):
        if i in starts:
            lines.append("reset"); idx.append(None)
        t = tables[i]
        if t is not None and (t == "E" or "=E" in t):
            t = None
        lines.append(opline(op, t)); idx.append(i)
    out = C.run_driver(ctx, "strfn", lines, timeout=300 + len(lines) // 50)
    res = [None] * len(ops)
    for k, i in enumerate(idx):
        if i is not None and k < len(out):
            res[i] = out[k]
    return res


# ----------------------------------------------------------------------------------------------
# property oracle: the defining equations evaluated in python on the implementation's own outputs,
# independently of the Lean model (the regex engine again enters only through the raw matcher table)
# ----------------------------------------------------------------------------------------------
from fractions import Fraction


def dec_utf8(bs):
    out = []
    i = 0
    while i < len(bs):
        b = bs[i]
        if b < 0x80:
            out.append(b); i += 1
        elif 0xC2 <= b < 0xE0 and i + 1 < len(bs) and bs[i + 1] >> 6 == 2:
            out.append(((b & 31) << 6) | (bs[i + 1] & 63)); i += 2
        elif 0xE0 <= b < 0xF0 and i + 2 < len(bs) and bs[i + 1] >> 6 == 2 and bs[i + 2] >> 6 == 2:
            out.append(((b & 15) << 12) | ((bs[i + 1] & 63) << 6) | (bs[i + 2] & 63)); i += 3
        else:
            out.append(0x3F); i += 1
    return out


def tok_frac(tok):
    m, e = tok[2:].split("/")
    return Fraction(int(m), 10 ** int(e))


def conv_str(tok):
    k = tok[0]
    if tok == "N":
        return []
    if k == "I":
        return [ord(c) for c in tok[2:]]
    if k == "F":
        return [ord(c) for c in "%.6g" % float(tok_frac(tok))]
    if k == "S":
        return unhx(tok[2:])
    if k == "B":
        return dec_utf8(unhx(tok[2:]))
    if k == "C":
        return [int(tok[2:], 16)]
    if k == "K":
        return dec_utf8([int(tok[2:], 16)])
    raise ValueError(tok)


def conv_bcs(tok):
    k = tok[0]
    if k == "B":
        return unhx(tok[2:])
    if k == "K":
        return [int(tok[2:], 16)]
    return utf8(conv_str(tok))


def is_bytes(tok):
    return tok[0] in "BK"


def to_int(tok):
    if tok == "N":
        return 0
    if tok[0] == "I":
        return int(tok[2:])
    if tok[0] == "F":
        f = tok_frac(tok)
        return int(f)          # truncation toward zero, like (hawk_int_t)r
    return None


def tvp(v):
    k, x = v
    if k == "nil":
        return "nil"
    if k == "int":
        return "int:%d" % x
    if k in ("str", "mbs"):
        return k + ":" + hx(x)
    return "%s:%x" % (k, x)


def tv_tok(tok):
    k = tok[0]
    if tok == "N":
        return "nil"
    if k == "I":
        return "int:" + tok[2:]
    if k == "F":
        return "flt:%.6g" % float(tok_frac(tok))
    return {"S": "str:", "B": "mbs:", "C": "char:", "K": "bchar:"}[k] + tok[2:]


def parse_table(t):
    d = {}
    if not t or t == "E":
        return d
    for ent in t.split(" "):
        key, _, val = ent.partition("=")
        kind, pat, subj, k = key.split(":")
        d[(kind, tuple(unhx(pat)), tuple(unhx(subj)), int(k))] = None if val in ("-", "E") else tuple(int(x) for x in val.split(","))
    return d


class NoEntry(Exception):
    pass


def lookup(tbl, kind, pat, s, k):
    key = (kind, tuple(pat), tuple(s), k)
    if key not in tbl:
        raise NoEntry(str(key))
    r = tbl[key]
    if r is not None and not (k <= r[0] and r[0] + r[1] <= len(s)):
        raise NoEntry("matcher answer outside the subject: %s -> %s" % (key, r))
    return r


SPACE = {9, 10, 11, 12, 13, 32}


def spec_substr(s, start, ln):
    lo = max(start, 1)                      # positions are 1-based; a start before the string is the string's start
    if ln is None:
        return s[lo - 1:]
    return s[lo - 1:lo - 1 + max(ln, 0)]


def spec_boundary(rindex, n, start):
    if start is None:
        return n if rindex else 1
    if start == 0:
        return 1
    return n + start + 1 if start < 0 else start


def spec_index(s, p, start):
    b = spec_boundary(False, len(s), start)
    if not (1 <= b <= len(s) + 1):          # a search may start right behind the last character (empty suffix)
        return 0
    for i in range(b - 1, len(s) - len(p) + 1):
        if s[i:i + len(p)] == p:
            return i + 1
    return 0


def spec_rindex(s, p, start):
    b = spec_boundary(True, len(s), start)
    if not (1 <= b <= len(s)):
        return 0
    for i in range(b - len(p), -1, -1):        # the occurrence must end at or before position b
        if s[i:i + len(p)] == p:
            return i + 1
    return 0


def low(c, wide):
    if 0x41 <= c <= 0x5A:
        return c + 32
    if wide and 0xC0 <= c <= 0xDE and c != 0xD7:
        return c + 32
    return c


def up(c, wide):
    if 0x61 <= c <= 0x7A:
        return c - 32
    if wide and 0xE0 <= c <= 0xFE and c != 0xF7:
        return c - 32
    return c


def spec_expand(t, mat, bs=0x5C, amp=0x26):
    out = []
    i = 0
    while i < len(t):
        if t[i:i + 4] == [bs, bs, bs, amp]:
            out += [bs, amp]; i += 4
        elif t[i:i + 3] == [bs, bs, amp]:
            out += [bs] + mat; i += 3
        elif t[i:i + 2] == [bs, amp]:
            out.append(amp); i += 2
        elif t[i] == amp:
            out += mat; i += 1
        else:
            out.append(t[i]); i += 1
    return out


def spec_subst(find, s, repl, limit):
    """leftmost non-overlapping matches; an empty match directly after the previous match is not a match;
    text between matches is copied verbatim"""
    out = []
    last = 0
    cur = 0
    prev_end = None
    cnt = 0
    while cur <= len(s) and (limit is None or cnt < limit):
        m = find(cur)
        if m is None:
            break
        p, l = m
        if l == 0 and prev_end == p:
            cur += 1
            continue
        out += s[last:p] + spec_expand(repl, s[p:p + l])
        last = prev_end = p + l
        cnt += 1
        cur = p + l if l > 0 else p + 1
    return out + s[last:], cnt


def spec_split_set(s, delims):
    if not s:
        return []
    pieces, cur = [], []
    for c in s:
        if c in delims:
            pieces.append(cur); cur = []
        else:
            cur.append(c)
    return pieces + [cur]


def spec_split_blank(s):
    pieces, cur = [], []
    for c in s:
        if c in SPACE:
            if cur:
                pieces.append(cur); cur = []
        else:
            cur.append(c)
    return pieces + ([cur] if cur else [])


def spec_split_rex(find, s):
    if not s:
        return []
    pieces = []
    pos = 0
    while True:
        cur, m = pos, None
        while cur < len(s):
            r = find(cur)
            if r is None:
                break
            if r[1] == 0:
                cur += 1
                continue
            m = r
            break
        if m is None:
            return pieces + [s[pos:]]
        pieces.append(s[pos:m[0]])
        pos = m[0] + m[1]


def spec_split_pred(s, is_delim):
    if not s:
        return []
    pieces, cur = [], []
    for c in s:
        if is_delim(c):
            pieces.append(cur); cur = []
        else:
            cur.append(c)
    return pieces + [cur]


def cls(name, c, wide):
    """character classes of the generated alphabet: ASCII as in the C locale, Latin-1 letters for wide characters"""
    upper = 65 <= c <= 90 or (wide and 0xC0 <= c <= 0xDE and c != 0xD7)
    lower = 97 <= c <= 122 or (wide and 0xDF <= c <= 0xFF and c != 0xF7)
    digit = 48 <= c <= 57
    alpha = upper or lower
    if name == "alnum": return alpha or digit
    if name == "alpha": return alpha
    if name == "blank": return c in (32, 9)
    if name == "cntrl": return c < 32 or c == 127
    if name == "digit": return digit
    if name == "graph": return 33 <= c <= 126 or (wide and alpha and c >= 128)
    if name == "lower": return lower
    if name == "print": return 32 <= c <= 126 or (wide and alpha and c >= 128)
    if name == "punct": return 33 <= c <= 126 and not (alpha or digit)
    if name == "space": return c in SPACE
    if name == "upper": return upper
    if name == "xdigit": return digit or 65 <= c <= 70 or 97 <= c <= 102
    raise ValueError(name)


def spec_normspace(s):
    """words separated by the first space character of the run that followed them; nothing before the first or
    after the last word"""
    out, pending = [], None
    for c in s:
        if c in SPACE:
            if out and pending is None:
                pending = c
        else:
            if pending is not None:
                out.append(pending); pending = None
            out.append(c)
    return out


def spec_strip(s, left, right):
    a, b = 0, len(s)
    while left and a < b and s[a] in SPACE:
        a += 1
    while right and b > a and s[b - 1] in SPACE:
        b -= 1
    return s[a:b]


def spec_simple_num(base, txt):
    """sign + digits valid in the base; None = not in the domain this property speaks about"""
    neg = False
    if txt[:1] in ([45], [43]):
        neg = txt[0] == 45; txt = txt[1:]
    if not txt or (base == 0 and txt[0] == 48 and len(txt) > 1) or base not in (0, 2, 8, 10, 16):
        return None
    try:
        st = "".join(chr(c) for c in txt)
        if not all(ch in "0123456789abcdefABCDEF" for ch in st):
            return None
        v = int(st, base or 10)
    except ValueError:
        return None
    return -v if neg else v


def oracle_modstr(name, t, sh):
    """the functions implemented in mod-str.c itself; NotImplemented = not one of them"""
    v = t[0] if t else None
    byt = v is not None and is_bytes(v)
    text = (lambda: conv_bcs(v) if byt else conv_str(v))
    ty = "mbs" if byt else "str"
    if name in ("trim", "ltrim", "rtrim"):
        return sh.line(tvp((ty, spec_strip(text(), name != "rtrim", name != "ltrim"))))
    if name == "normspace":
        return sh.line(tvp((ty, spec_normspace(text()))))
    if name == "trimf":
        if t[1] == "-":
            return sh.line(tvp((ty, spec_strip(text(), True, True))))
        f = to_int(t[1])
        if f is None:
            return None
        return sh.line(tvp((ty, spec_normspace(text()) if f & 1 else spec_strip(text(), True, True))))
    if name in ("subchar", "tocharcode"):
        pos = 1 if (name == "tocharcode" and t[1] == "-") else to_int(t[1])
        if pos is None:
            return None
        s = text()
        if not (1 <= pos <= len(s)):
            return sh.line("nil")
        if name == "tocharcode":
            return sh.line("int:%d" % s[pos - 1])
        return sh.line(("bchar:%x" if byt else "char:%x") % s[pos - 1])
    if name in ("fromcharcode", "frombcharcode"):
        codes = [to_int(x) for x in t]
        wide = name == "fromcharcode"
        if any(c is None for c in codes):
            return None
        if wide and not all(0 <= c < 0xD800 or 0xE000 <= c < 0x10000 for c in codes):
            return None
        if not wide and not all(0 <= c < 256 for c in codes):
            return None
        if len(codes) == 1:
            return sh.line(("char:%x" if wide else "bchar:%x") % codes[0])
        return sh.line(tvp(("str" if wide else "mbs", codes)))
    if name.startswith("is:"):
        s = text()
        return sh.line("int:%d" % (1 if s and all(cls(name[3:], c, not byt) for c in s) else 0))
    if name in ("tombs", "frommbs"):
        enc = t[1]
        unknown = enc != "-" and conv_str(enc) != [ord(c) for c in "utf8"]
        if name == "tombs":
            return sh.line(tvp(("mbs", [] if unknown else conv_bcs(v))))
        return sh.line(tvp(("str", [] if unknown else conv_str(v))))
    if name == "tonum":
        if v == "N":
            return sh.line("int:0")
        if v[0] in "IF":
            return sh.line(tv_tok(v))
        base = 0 if t[1] == "-" else to_int(t[1])
        if base is None or base < 0:
            return None
        n = spec_simple_num(base, text())
        return None if n is None else sh.line("int:%d" % n)
    return NotImplemented


def oracle_sig(op, exp, got):
    """classes of equation breaks that are recorded findings (KNOWN_FINDINGS.txt) while their repair is pending"""
    name, t, twin = op
    e, g = exp.split(" ")[0], got.split(" ")[0]
    same_rest = exp.split(" ")[1:] == got.split(" ")[1:]
    if not same_rest and not name.startswith("i:split"):
        return None
    if name in ("index", "i:index") and g == "int:0" and e != "int:0":
        byt = is_bytes(t[0])
        n = len(conv_bcs(t[0]) if byt else conv_str(t[0]))
        pl = len(conv_bcs(t[1]) if byt else conv_str(t[1]))
        if pl == 0 and e == "int:%d" % (n + 1):
            return "index-empty-in-empty"
    if name in ("i:split", "i:splita") and is_bytes(t[0]) and t[1] not in ("-", "N") and t[1][0] != "R":
        d = conv_bcs(t[1])
        if len(conv_str(t[1])) <= 1 and any(c >= 0x80 for c in d):
            return "split-ignorecase-high-byte-delimiter"
    if name == "frombcharcode" and len(t) == 1 and e.startswith("bchar:") and g == "char:" + e[6:]:
        return "frombcharcode-single-char-kind"
    return None


class Shadow:
    def __init__(self):
        self.T = "nil"; self.C = "nil"; self.RS = "nil"; self.RL = "nil"

    def line(self, r, nf=0, rec0=()):
        return "%s T=%s C=%s RS=%s RL=%s NF=int:%d R0=str:%s X=str:73 G==" % (r, self.T, self.C, self.RS, self.RL, nf, hx(rec0))


def pat_string(tok):
    return unhx(tok[2:]) if tok[0] == "R" else conv_str(tok)


def oracle_expected(op, table, sh):
    """what the defining equations say hawk must print for this call (None: outside the specified domain)"""
    name, t, twin = op
    ic = name.startswith("i:")
    if ic:
        name = name[2:]
    tbl = parse_table(table)
    r = oracle_modstr(name, t, sh)
    if r is not NotImplemented:
        return r
    if name == "length":
        v = t[0]
        n = len(conv_bcs(v)) if v[0] in "BK" else len(conv_str(v))
        return sh.line("int:%d" % n)
    if name == "substr":
        st, ln = to_int(t[1]), (None if t[2] == "-" else to_int(t[2]))
        if st is None or (t[2] != "-" and ln is None):
            return None
        if is_bytes(t[0]):
            return sh.line(tvp(("mbs", spec_substr(conv_bcs(t[0]), st, ln))))
        return sh.line(tvp(("str", spec_substr(conv_str(t[0]), st, ln))))
    if name in ("index", "rindex"):
        st = None if t[2] == "-" else to_int(t[2])
        if t[2] != "-" and st is None:
            return None
        f = spec_rindex if name == "rindex" else spec_index
        byt = is_bytes(t[0])
        a, b = (conv_bcs(t[0]), conv_bcs(t[1])) if byt else (conv_str(t[0]), conv_str(t[1]))
        if ic:                                  # IGNORECASE: occurrences are compared up to case
            a, b = [low(c, not byt) for c in a], [low(c, not byt) for c in b]
        return sh.line("int:%d" % f(a, b, st))
    if name in ("tolower", "toupper"):
        f = up if name == "toupper" else low
        v = t[0]
        if v[0] == "K":
            return sh.line("bchar:%x" % f(int(v[2:], 16), False))
        if v[0] == "B":
            return sh.line(tvp(("mbs", [f(c, False) for c in unhx(v[2:])])))
        if v[0] == "C":
            return sh.line("char:%x" % f(int(v[2:], 16), True))
        return sh.line(tvp(("str", [f(c, True) for c in conv_str(v)])))
    if name in ("split", "splita"):
        v, sp = t
        byt = is_bytes(v)
        s = conv_bcs(v) if byt else conv_str(v)
        kind = "b" if byt else "c"
        if sp[0] == "R":
            fs = unhx(sp[2:]); rex = True
        else:
            fs = [32] if sp in ("-", "N") else conv_str(sp)
            rex = len(fs) > 1
            if len(fs) == 5 and fs[0] == 0x3F:
                return None
        if rex:
            pieces = spec_split_rex(lambda k: lookup(tbl, kind, fs, s, k), s)
        else:
            d = fs
            if byt and sp not in ("-", "N"):
                d = conv_bcs(sp)
            if d == [32]:
                pieces = spec_split_blank(s)
            elif not d:
                pieces = [[c] for c in s]
            elif ic:
                dd = {up(c, not byt) for c in d}
                pieces = spec_split_pred(s, lambda c: up(c, not byt) in dd)
            else:
                pieces = spec_split_set(s, set(d))
        ty = "mbs" if byt else "str"
        if name == "splita":
            sh.C = "array{" + ",".join("%d=%s" % (k + 1, tvp((ty, x))) for k, x in enumerate(pieces)) + "}"
        else:
            sh.C = "map{" + ",".join("%s=%s" % (hx([ord(c) for c in str(k + 1)]), tvp((ty, x))) for k, x in enumerate(pieces)) + "}"
        return sh.line("int:%d" % len(pieces))
    if name in ("sub0", "gsub0"):
        pt, rp, rc = t
        pat = pat_string(pt)
        s = conv_str(rc)
        out, cnt = spec_subst(lambda k: lookup(tbl, "c", pat, s, k), s, conv_str(rp), 1 if name == "sub0" else None)
        new = out if cnt else s
        return sh.line("int:%d" % cnt, len(spec_split_blank(new)), new)       # NF = blank-separated fields of the new record
    if name in ("sub", "gsub"):
        pt, rp, tg = t
        pat = pat_string(pt)
        byt = is_bytes(tg)
        s = conv_bcs(tg) if byt else conv_str(tg)
        repl = conv_bcs(rp) if byt else conv_str(rp)
        out, cnt = spec_subst(lambda k: lookup(tbl, "b" if byt else "c", pat, s, k), s, repl, 1 if name == "sub" else None)
        sh.T = tv_tok(tg) if cnt == 0 else tvp(("mbs" if byt else "str", out))
        return sh.line("int:%d" % cnt)
    if name in ("match", "matcha", "smatch", "smatcha"):
        v, pt = t[0], t[1]
        pat = pat_string(pt)
        st = 1
        if name in ("smatch", "smatcha") and t[2] != "-":
            st = to_int(t[2])
            if st is None:
                return None
        byt = v[0] == "B"
        s = conv_bcs(v) if byt else conv_str(v)
        n = len(s)
        if st == 0:
            st = 1
        elif st < 0:
            st = n + st + 1
        rs, rl, txt = 0, -1, None
        if 1 <= st <= n + 1:
            sfx = s[st - 1:]
            r = lookup(tbl, "b" if byt else "c", pat, sfx, 0)
            if r is not None:
                rs, rl = st + r[0], r[1]
                txt = sfx[r[0]:r[0] + r[1]]
        sh.RS, sh.RL = "int:%d" % rs, "int:%d" % rl
        if name in ("matcha", "smatcha"):
            if rs == 0:
                sh.C = "map{}"
            else:
                sh.C = "map{30=%s,30.1c.73.74.61.72.74=int:%d,30.1c.6c.65.6e.67.74.68=int:%d}" % (tvp(("mbs" if byt else "str", txt)), rs, rl)
        return sh.line("int:%d" % rs)
    return None


def run_oracle(ops, results, tables, starts):
    """returns list of (i, expected, got) where the implementation's output breaks the equations, and the count checked"""
    hits = []
    checked = 0
    sh = Shadow()
    for i, op in enumerate(ops):
        if i in starts:
            sh = Shadow()
        if results[i] is None:
            sh = Shadow()          # the process died here; the next op starts a fresh one
            continue
        try:
            exp = oracle_expected(op, tables[i], sh)
        except NoEntry as e:
            hits.append((i, "matcher table incomplete: %s" % e, results[i]))
            exp = None
        if exp is None:
            # outside the specified domain: adopt the implementation's state
            f = dict(x.split("=", 1) for x in results[i].split(" ")[1:] if "=" in x)
            sh.T, sh.C, sh.RS, sh.RL = f.get("T", sh.T), f.get("C", sh.C), f.get("RS", sh.RS), f.get("RL", sh.RL)
            continue
        checked += 1
        if exp != results[i]:
            hits.append((i, exp, results[i]))
            f = dict(x.split("=", 1) for x in results[i].split(" ")[1:] if "=" in x)
            sh.T, sh.C, sh.RS, sh.RL = f.get("T", sh.T), f.get("C", sh.C), f.get("RS", sh.RS), f.get("RL", sh.RL)
    return hits, checked


# ----------------------------------------------------------------------------------------------
# generators
# ----------------------------------------------------------------------------------------------
def strings_upto(n, alpha=ALPHA):
    for k in range(n + 1):
        for t in itertools.product(alpha, repeat=k):
            yield list(t)


NUMS = [I(k) for k in range(-3, 9)] + [F("1.5"), F("2.7")]
PATTERNS = ["a", "b*", "^", "$", "a|ab", "", "ab", ".", "b", "a*", "é", "^a", "b$", "ab*", "a|b*"]
TEMPL_ALPHA = [0x78, 0x26, 0x5C]


def subj_variants(cs, rng=None):
    """the same text as each value type that can carry it"""
    out = [S(cs), B(utf8(cs))]
    if len(cs) == 1:
        out.append(Ch(cs[0]))
        if cs[0] < 0x80:
            out.append(K(cs[0]))
    return out


SPECIAL_SUBJ = ["N", I(0), I(12), I(-121), I(1221), F("1.5"), F("-12.25"), K(0xE9), K(0xFF), B([0xFF, 0x61]), B([0x61, 0xFF, 0x62]),
                Ss("a b"), Ss(" a  b "), Ss("A bÉ"), Ss("aXbXc"), Ss("X"), Ss("aa"), Ss(",a,,b,"), Ss("a\tb\nc"), Ss("\t"), Ss("a,b c;d")]


def rand_subject(rng, maxlen=12):
    n = rng.randrange(0, maxlen + 1)
    if rng.random() < 0.25:          # repetitive text over two or three letters: overlapping partial matches
        small = rng.choice([[0x61, 0x62], [0x61, 0x62, 0xE9], [0x61, 0x41, 0x62], [0x78, 0x20]])
        return [rng.choice(small) for _ in range(n)]
    pool = [0x61, 0x62, 0xE9, 0x61, 0x62, 0x20, 0x2C, 0x41, 0xC9, 0x5D0, 0x4E2D, 0x58, 0x09]
    return [rng.choice(pool) for _ in range(n)]


def rand_num(rng, n):
    r = rng.random()
    if r < 0.6:
        return I(rng.randrange(-n - 3, n + 4))
    if r < 0.8:
        return F("%d.%d" % (rng.randrange(0, n + 3), rng.randrange(1, 10)))
    if r < 0.9:
        return F("-%d.%d" % (rng.randrange(0, n + 3), rng.randrange(1, 10)))
    return rng.choice(["N", I(0), I(1), I(n), I(n + 1), I(-n), I(-n - 1), I(100), I(-100)])


def typed(rng, cs):
    """a random value type carrying text cs"""
    v = subj_variants(cs)
    return rng.choice(v)


def gen_exhaustive(tier):
    ops = []
    small = list(strings_upto(3))
    upto5 = list(strings_upto(5))
    # length / case on every subject up to 5 in every carrying type + specials
    for cs in upto5:
        for v in subj_variants(cs):
            ops.append(("length", [v], len(cs) % 2 == 1))
    for cs in list(strings_upto(3, [0x61, 0x42, 0xE9, 0xC9])):
        for v in subj_variants(cs):
            ops.append(("tolower", [v], False)); ops.append(("toupper", [v], len(cs) % 2 == 0))
    for v in SPECIAL_SUBJ:
        ops += [("length", [v], True), ("tolower", [v], True), ("toupper", [v], False)]
    # substr: subjects up to 3 x start x len (all), subjects of 4..5: the diagonal
    for cs in small:
        for st in NUMS:
            for ln in ["-"] + NUMS:
                ops.append(("substr", [S(cs), st, ln], False))
        for st in NUMS[::2]:
            for ln in ["-"] + NUMS[1::3]:
                ops.append(("substr", [B(utf8(cs)), st, ln], True))
    for v in SPECIAL_SUBJ + [Ch(0x61), Ch(0xE9), K(0x61)]:
        for st in [I(-1), I(0), I(1), I(2), I(3), F("1.5"), "N"]:
            for ln in ["-", I(-1), I(0), I(1), I(2), I(9), F("2.7"), "N"]:
                ops.append(("substr", [v, st, ln], True))
    # index / rindex: subject up to 4 x pattern up to 2 (+ start for the short ones)
    pats = list(strings_upto(2))
    for cs in strings_upto(4):
        for p in pats:
            ops.append(("index", [S(cs), S(p), "-"], False))
            ops.append(("rindex", [S(cs), S(p), "-"], True))
    for cs in small:
        for p in pats:
            for st in NUMS:
                ops.append(("index", [S(cs), S(p), st], True))
                ops.append(("rindex", [S(cs), S(p), st], True))
            for st in ["-", I(-2), I(0), I(2), I(4)]:
                ops.append(("index", [B(utf8(cs)), B(utf8(p)), st], False))
                ops.append(("rindex", [B(utf8(cs)), S(p), st], True))
    # self-overlapping needles in repetitive subjects (a search that resumes anywhere but one character further on
    # loses occurrences only there): subjects up to 6 over {a,b} x needles of length 2..3
    ab = [0x61, 0x62]
    for cs in strings_upto(6, ab):
        if len(cs) < 3:
            continue
        for p in strings_upto(3, ab):
            if len(p) < 2:
                continue
            ops.append(("index", [S(cs), S(p), "-"], len(cs) % 2 == 0))
            ops.append(("index", [B(cs), B(p), "-"], True))
            ops.append(("rindex", [S(cs), S(p), "-"], True))
            if len(cs) <= 5:
                ops.append(("rindex", [B(cs), B(p), "-"], True))
                ops.append(("i:index", [S([c - 32 if k % 2 else c for k, c in enumerate(cs)]), S(p), "-"], True))
                ops.append(("i:index", [B(cs), B([c - 32 for c in p]), "-"], False))
                ops.append(("i:rindex", [S(cs), S([c - 32 for c in p]), "-"], True))
    for v in SPECIAL_SUBJ + [Ch(0x61), Ch(0xE9), K(0x61)]:
        for p in [Ss("a"), Ss(""), Ch(0x61), K(0x61), B([0xC3, 0xA9]), I(1), I(2), "N", Ss("é"), F("1.5")]:
            for st in ["-", I(2), I(-1)]:
                ops.append(("index", [v, p, st], st != "-"))
                ops.append(("rindex", [v, p, st], True))
    # split: single-character separators, blank mode, empty separator, regex separators
    seps = ["-", Ss(" "), Ss(","), Ss("a"), Ss("é"), Ss(""), Ch(0x61), K(0x61), Ch(0x2C), B([0x2C]), Ss("\t"), "N", I(1),
            Rs("a"), Rs("b*"), Rs("a|ab"), Rs("ab"), Rs("."), Rs(" "), Rs(" +"), Ss("ab"), Ss("b*"), Ss(", "), Rs("^"), Rs("$"), Rs(""),
            Rs("é"), B([0xC3, 0xA9])]
    for cs in strings_upto(4):
        for sp in seps:
            if sp == B([0xC3, 0xA9]) and len(cs) > 3:
                continue
            ops.append(("split", [S(cs), sp], len(cs) % 2 == 1))
    for cs in small:
        for sp in seps:
            ops.append(("splita", [B(utf8(cs)), sp], True))
    for v in SPECIAL_SUBJ + [Ch(0x61), K(0x61), Ch(0x20)]:
        for sp in seps:
            ops.append(("split", [v, sp], False))
            ops.append(("splita", [v, sp], True))
    for cs in strings_upto(5, [0x61, 0x20, 0x2C]):
        for sp in ["-", Ss(","), Ss(" "), Rs(" "), Rs(",+"), Rs("[ ,]"), Ss("a")]:
            ops.append(("split", [S(cs), sp], False))
    # sub / gsub: pattern set x subject up to 4 x a few templates; templates up to 4 x few subjects
    templs = list(strings_upto(4, TEMPL_ALPHA))
    for cs in strings_upto(4 if tier == "quick" else 5):
        for p in PATTERNS:
            for tp in [Ss("x"), Ss("[&]"), Ss("")]:
                ops.append(("gsub", [Rs(p), tp, S(cs)], False))
            ops.append(("sub", [Rs(p), Ss("<&>"), S(cs)], True))
            ops.append(("gsub", [Ss(p), Ss("-"), B(utf8(cs))], True))
    for tp in templs:
        for cs, p in [([0x61, 0x62, 0x61], "b"), ([0x61, 0x62], "b*"), ([0x61], "")]:
            ops.append(("gsub", [Rs(p), S(tp), S(cs)], False))
            ops.append(("sub", [Ss(p), B(tp), B(utf8(cs))], True))
    for v in SPECIAL_SUBJ + [Ch(0x61), K(0x61), Ch(0xE9)]:
        for p in [Rs("a"), Rs("1"), Rs("2*"), Rs(""), Rs("$"), Ss("."), Ch(0x61), K(0x61), I(2), "N", Rs("X"), Rs(" +")]:
            for tp in [Ss("<&>"), Ch(0x26), K(0x26), I(7), "N", B([0x5C, 0x5C, 0x26]), F("1.5")]:
                ops.append(("gsub", [p, tp, v], len(tp) % 2 == 0))
                ops.append(("sub", [p, tp, v], False))
    # match: global (no start), str::match with start, array forms
    for cs in strings_upto(4):
        for p in PATTERNS:
            ops.append(("match", [S(cs), Rs(p)], False))
    for cs in small:
        for p in PATTERNS:
            ops.append(("match", [B(utf8(cs)), Ss(p)], False))
            ops.append(("matcha", [S(cs), Rs(p)], False))
            for st in ["-"] + NUMS:
                ops.append(("smatch", [S(cs), Rs(p), st], True))
            for st in ["-", I(-1), I(2), I(5)]:
                ops.append(("smatcha", [S(cs), Ss(p), st], True))
                ops.append(("smatch", [B(utf8(cs)), Rs(p), st], True))
    for v in SPECIAL_SUBJ + [Ch(0x61), K(0x61)]:
        for p in [Rs("a"), Rs("2"), Rs(""), Rs("$"), Ss("."), Ch(0x61), K(0x61), I(2), "N", Rs("X")]:
            ops.append(("match", [v, p], False))
            ops.append(("matcha", [v, p], False))
            for st in ["-", I(2), I(-1), I(9), I(-9), F("1.5"), "N"]:
                ops.append(("smatch", [v, p, st], True))
            ops.append(("smatcha", [v, p, I(1)], True))
    # two-argument sub/gsub: the record $0 is the target and NF follows
    for cs in strings_upto(4, [0x61, 0x62, 0x20]):
        for pp in ["a", "b*", " ", " +", "", "$", "^", "a|ab", "."]:
            ops.append(("gsub0", [Rs(pp), Ss("x"), S(cs)], len(cs) % 2 == 1))
            ops.append(("sub0", [Rs(pp), Ss(" & "), S(cs)], False))
            ops.append(("gsub0", [Ss(pp), Ss(" "), S(cs)], False))
            ops.append(("gsub0", [Rs(pp), Ss(""), S(cs)], True))
    for rp in [Ch(0x20), K(0x2D), I(7), "N", B([0x5C, 0x26]), Ss("a b")]:
        for cs in [[0x61, 0x20, 0x62], [0x20, 0x61], [0x61]]:
            ops.append(("gsub0", [Rs("a"), rp, S(cs)], False)); ops.append(("sub0", [Ch(0x61), rp, S(cs)], True))
    ops += gen_modstr_exhaustive()
    ops += gen_ignorecase_exhaustive()
    return ops


MIXED = [0x61, 0x41, 0xE9, 0xC9, 0x62]           # a A é É b
WS = [0x61, 0x20, 0x09]                          # a, blank, tab
CLASS_CHARS = [0x61, 0x5A, 0x35, 0x20, 0x09, 0x0A, 0x21, 0x5F, 0x7E, 0x01, 0x7F, 0xE9, 0xC9, 0x66, 0x47, 0x2D]
ENCS = ["-", Ss("utf8"), Ss("nosuch"), Ss("")]


def gen_modstr_exhaustive():
    """the str:: functions implemented in mod-str.c itself"""
    ops = []
    for cs in strings_upto(5, WS):
        for v in subj_variants(cs):
            for fn in ("trim", "ltrim", "rtrim", "normspace"):
                ops.append((fn, [v], True))
        ops.append(("trimf", [S(cs), I(1)], True)); ops.append(("trimf", [B(cs), I(0)], True))
    for cs in strings_upto(4, [0x62, 0x20, 0x0A]):
        ops.append(("normspace", [S(cs)], True)); ops.append(("trim", [B(cs)], True))
    for v in SPECIAL_SUBJ + [Ch(0x20), K(0x20), Ch(0x61), K(0x09)]:
        for fn in ("trim", "ltrim", "rtrim", "normspace"):
            ops.append((fn, [v], True))
        for f in ["-", I(0), I(1), I(2), I(3), I(-1), F("1.5"), "N"]:
            ops.append(("trimf", [v, f], True))
    # subchar / tocharcode: every position around the value
    for cs in strings_upto(3):
        for v in subj_variants(cs):
            for pos in NUMS + ["N"]:
                ops.append(("subchar", [v, pos], True))
                ops.append(("tocharcode", [v, pos], True))
            ops.append(("tocharcode", [v, "-"], True))
    for v in SPECIAL_SUBJ:
        for pos in ["-", I(0), I(1), I(2), I(-1), I(9), F("2.7")]:
            ops.append(("tocharcode", [v, pos], True))
            if pos != "-":
                ops.append(("subchar", [v, pos], True))
    # fromcharcode / frombcharcode: 0..3 codes
    codes = [I(0x41), I(0xE9), I(0x4E2D), I(0), I(0x7F), I(0xFF), F("65.9"), "N", I(0x100), I(0xD7FF), I(0xFFFF)]
    bcodes = [I(0x41), I(0xE9), I(0), I(0xFF), I(0x80), F("65.9"), "N"]
    ops.append(("fromcharcode", [], True)); ops.append(("frombcharcode", [], True))
    for n in (1, 2, 3):
        for tup in itertools.product(codes if n < 3 else codes[:5], repeat=n):
            ops.append(("fromcharcode", list(tup), True))
        for tup in itertools.product(bcodes if n < 3 else bcodes[:5], repeat=n):
            ops.append(("frombcharcode", list(tup), True))
    # class tests: every class x strings up to 2 over characters of every class, in every carrying type
    for name in CLASSES:
        for cs in strings_upto(2, CLASS_CHARS):
            ops.append(("is:" + name, [S(cs)], True))
            if all(c < 0x80 for c in cs):
                ops.append(("is:" + name, [B(cs)], True))
            if len(cs) == 1:
                ops.append(("is:" + name, [Ch(cs[0])], True)); ops.append(("is:" + name, [K(cs[0])], True))
        for v in ["N", I(12), I(-1), F("1.5"), B([0xC3, 0xA9]), K(0xE9), Ss("abcXYZ"), Ss("09afAF"), Ss(" \t "), B([0x61, 0xFF])]:
            ops.append(("is:" + name, [v], True))
    # tombs / frommbs
    for cs in strings_upto(3):
        for v in subj_variants(cs):
            for e in ENCS:
                ops.append(("tombs", [v, e], True)); ops.append(("frommbs", [v, e], True))
    for v in SPECIAL_SUBJ + [Ch(0x4E2D), Ss("a\u4e2d".encode().decode("unicode_escape"))]:
        for e in ENCS[:3]:
            ops.append(("tombs", [v, e], True)); ops.append(("frommbs", [v, e], True))
    # tonum: numbers as they are; digit strings in each base and carrying type
    digs = ["0", "1", "7", "10", "101", "12", "77", "9", "ff", "1F", "-12", "+5", "-ff", "z", "", "1.5", "010", "0x1f", " 12", "12 "]
    for d in digs:
        for base in ["-", I(2), I(8), I(10), I(16), "N", I(0), I(3), I(-1), F("10.5")]:
            for v in subj_variants([ord(c) for c in d]):
                ops.append(("tonum", [v, base], True))
    for v in ["N", I(0), I(12), I(-121), F("1.5"), F("-12.25")]:
        for base in ["-", I(2), I(16), "N"]:
            ops.append(("tonum", [v, base], True))
    return ops


def gen_ignorecase_exhaustive():
    """IGNORECASE = 1: index/rindex and the character tokeniser fold case themselves; the regex-driven calls use the
    case-insensitive compilation (table taken under the same setting)"""
    ops = []
    pats = list(strings_upto(2, [0x61, 0x41, 0xC9]))
    for cs in strings_upto(3, MIXED[:4]):
        for p in pats:
            ops.append(("i:index", [S(cs), S(p), "-"], len(cs) % 2 == 0))
            ops.append(("i:rindex", [S(cs), S(p), "-"], True))
            ops.append(("i:index", [B(utf8(cs)), B(utf8(p)), "-"], False))
            ops.append(("i:rindex", [B(utf8(cs)), S(p), "-"], True))
            for st in [I(-2), I(2)]:
                ops.append(("i:index", [S(cs), S(p), st], True))
                ops.append(("i:rindex", [S(cs), S(p), st], True))
    for cs in strings_upto(3, MIXED):
        for sp in [Ss("a"), Ss("A"), Ss("é"), Ss("É"), Ch(0x42), K(0x41), Ss(" "), "-", Ss(""), Rs("a"), Rs("B+"), Ss("aB"), Rs("é")]:
            ops.append(("i:split", [S(cs), sp], len(cs) % 2 == 1))
            if len(cs) <= 3:
                ops.append(("i:splita", [B(utf8(cs)), sp], True))
        for p in ["a", "B*", "é", "^A", "b$", "a|Ab"]:
            ops.append(("i:gsub", [Rs(p), Ss("[&]"), S(cs)], False))
            ops.append(("i:sub", [Ss(p), Ss("-"), B(utf8(cs))], True))
            ops.append(("i:match", [S(cs), Rs(p)], False))
            ops.append(("i:smatch", [S(cs), Rs(p), I(2)], True))
    return ops


def rand_modstr(rng, cs, v):
    k = rng.random()
    if k < 0.3:
        ws = [rng.choice([0x20, 0x20, 0x09, 0x0A, 0x61, 0x62, 0xE9, 0x2C]) for _ in range(rng.randrange(0, 12))]
        w = typed(rng, ws)
        fn = rng.choice(["trim", "ltrim", "rtrim", "normspace", "trimf"])
        return (fn, [w, rng.choice(["-", I(0), I(1), I(3)])], True) if fn == "trimf" else (fn, [w], True)
    if k < 0.5:
        fn = rng.choice(["subchar", "tocharcode"])
        pos = rand_num(rng, len(cs))
        return (fn, [v, pos], True)
    if k < 0.62:
        wide = rng.random() < 0.5
        n = rng.randrange(0, 6)
        pool = [0x41, 0x61, 0xE9, 0x4E2D, 0x20, 0x7A, 0xFFFD, 0x100] if wide else [0x41, 0x61, 0xE9, 0xFF, 0x00, 0x80, 0x20]
        return ("fromcharcode" if wide else "frombcharcode", [I(rng.choice(pool)) for _ in range(n)], True)
    if k < 0.8:
        w = [rng.choice(CLASS_CHARS) for _ in range(rng.randrange(0, 5))]
        return ("is:" + rng.choice(CLASSES), [typed(rng, w) if all(c < 0x80 for c in w) or rng.random() < 0.5 else S(w)], True)
    if k < 0.9:
        return (rng.choice(["tombs", "frommbs"]), [v, rng.choice(ENCS)], True)
    d = rng.choice(["", "-"]) + "".join(rng.choice("0123456789abcdefF") for _ in range(rng.randrange(1, 6)))
    return ("tonum", [typed(rng, [ord(c) for c in d]), rng.choice(["-", I(2), I(8), I(10), I(16), I(16)])], True)


def rand_ignorecase(rng, seps, pats):
    cs = [rng.choice(MIXED + [0x20, 0x2C, 0x58, 0x78]) for _ in range(rng.randrange(0, 10))]
    v = typed(rng, cs)
    k = rng.random()
    if k < 0.4:
        if cs and rng.random() < 0.7:
            a = rng.randrange(0, len(cs)); b = rng.randrange(a, min(len(cs), a + 3) + 1)
            p = [{0x61: 0x41, 0x41: 0x61, 0xE9: 0xC9, 0xC9: 0xE9, 0x62: 0x42, 0x58: 0x78, 0x78: 0x58}.get(c, c) if rng.random() < 0.5 else c for c in cs[a:b]]
        else:
            p = [rng.choice(MIXED) for _ in range(rng.randrange(0, 3))]
        return (rng.choice(["i:index", "i:rindex"]), [v, typed(rng, p), rng.choice(["-", "-", rand_num(rng, len(cs))])], True)
    if k < 0.65:
        return (rng.choice(["i:split", "i:splita"]), [v, rng.choice([Ss("x"), Ss("X"), Ss("É"), Ch(0x61), K(0x58), Ss(","), Rs("x+"), Rs("[xa]"), "-"])], True)
    p = Rs(rng.choice(["a", "B*", "é", "x", "A|b", "^a", "X$", "[a-b]"]))
    if k < 0.85:
        return (rng.choice(["i:sub", "i:gsub"]), [p, Ss(rng.choice(["-", "<&>", ""])), v], rng.random() < 0.5)
    return ("i:smatch", [v, p, rng.choice(["-", rand_num(rng, len(cs))])], True)


def gen_random(rng, n):
    ops = []
    seps = [Ss(","), Ss(" "), Ss(";"), Ss("X"), Ch(0x2C), K(0x2C), Rs(",+"), Rs(" *, *"), Rs("[ ,;]"), Rs("X|,"), Ss(""), "-", Rs("é"), Ss("é"), Rs("a*")]
    pats = PATTERNS + [",", " +", "[ab]", "a+", "X*", "(ab)*", ".$", "^.", "é*", "[^a]", "a|", "é|X"]
    for _ in range(n):
        cs = rand_subject(rng)
        v = typed(rng, cs) if rng.random() < 0.9 else rng.choice(SPECIAL_SUBJ)
        twin = rng.random() < 0.5
        q = rng.random()
        if q < 0.16:
            ops.append(rand_modstr(rng, cs, v)); continue
        if q < 0.24:
            ops.append(rand_ignorecase(rng, seps, pats)); continue
        if q < 0.28:
            rc = [rng.choice([0x61, 0x62, 0x20, 0x20, 0x09, 0x2C, 0xE9]) for _ in range(rng.randrange(0, 12))]
            tp = [rng.choice([0x78, 0x26, 0x5C, 0x20, 0x20]) for _ in range(rng.randrange(0, 5))]
            ops.append((rng.choice(["sub0", "gsub0", "gsub0"]), [Rs(rng.choice(["a", "b*", " +", " ", ",", "^", "$", "é", "[ab]", ""])), S(tp), S(rc)], rng.random() < 0.5)); continue
        k = rng.random()
        if k < 0.06:
            ops.append(("length", [v], twin))
        elif k < 0.14:
            ops.append((rng.choice(["tolower", "toupper"]), [v], twin))
        elif k < 0.30:
            ops.append(("substr", [v, rand_num(rng, len(cs)), rng.choice(["-", rand_num(rng, len(cs)), rand_num(rng, len(cs))])], twin))
        elif k < 0.46:
            if cs and rng.random() < 0.7:
                a = rng.randrange(0, len(cs)); b = rng.randrange(a, min(len(cs), a + 3) + 1)
                p = cs[a:b]
            else:
                p = rand_subject(rng, 2)
            ops.append((rng.choice(["index", "rindex"]), [v, typed(rng, p), rng.choice(["-", "-", rand_num(rng, len(cs))])], twin))
        elif k < 0.62:
            ops.append((rng.choice(["split", "split", "splita"]), [v, rng.choice(seps)], twin))
        elif k < 0.84:
            tp = [rng.choice([0x78, 0x26, 0x5C, 0x5C, 0x26, 0x79, 0xE9]) for _ in range(rng.randrange(0, 7))]
            ops.append((rng.choice(["sub", "gsub", "gsub"]), [Rs(rng.choice(pats)) if rng.random() < 0.7 else Ss(rng.choice(pats)), typed(rng, tp), v], twin))
        else:
            p = Rs(rng.choice(pats)) if rng.random() < 0.7 else Ss(rng.choice(pats))
            r = rng.random()
            if "(" in "".join(chr(c) for c in unhx(p[2:])) and 0.25 <= r < 0.4 or "(" in "".join(chr(c) for c in unhx(p[2:])) and r >= 0.85:
                r = 0.5          # sub-match groups are not modelled in the array forms
            if r < 0.25:
                ops.append(("match", [v, p], False))
            elif r < 0.4:
                ops.append(("matcha", [v, p], False))
            elif r < 0.85:
                ops.append(("smatch", [v, p, rng.choice(["-", rand_num(rng, len(cs))])], True))
            else:
                ops.append(("smatcha", [v, p, rand_num(rng, len(cs))], True))
    return ops


# ----------------------------------------------------------------------------------------------
# coverage classification
# ----------------------------------------------------------------------------------------------
def branch_tags(op, table, result):
    name, t, twin = op
    tags = set()
    if name.startswith("i:"):
        tags.add("ignorecase"); name = name[2:]
    if name.startswith("is:") or name in ("trim", "ltrim", "rtrim", "normspace", "trimf", "subchar", "tocharcode", "fromcharcode",
                                          "frombcharcode", "tombs", "frommbs", "tonum"):
        tags.add("mod-str")
        if result and result.startswith(("nil", "int:0")):
            tags.add("mod-str-negative")
        return tags
    kinds = "".join(x[0] for x in t)
    if name in ("sub0", "gsub0"):
        tags.add("record-target")
    if any(k in kinds for k in "BK"):
        tags.add("bytes")
    if any(k in kinds for k in "CK"):
        tags.add("charval")
    if any(k in kinds for k in "IFN"):
        tags.add("num-or-nil-arg")
    if "F" in kinds:
        tags.add("fractional")
    if name in ("substr", "index", "rindex", "smatch", "smatcha") and t[2] != "-":
        tags.add("start-arg")
        if t[2].startswith("I:") and int(t[2][2:]) <= 0:
            tags.add("start<=0")
    if table and re.search(r"=\d+,0", table):
        tags.add("empty-match")
    if name in ("split", "splita"):
        sp = t[1]
        rexmode = sp[0] == "R" or (sp not in ("-", "N") and len(conv_str(sp)) > 1)
        tags.add("split-rex" if rexmode else ("split-blank" if sp in ("-", "N", "S:20") else "split-chars"))
    if name in ("sub", "gsub") and result and not result.startswith("int:0"):
        tags.add("replaced")
        if "26" in t[1]:
            tags.add("ampersand")
        if "5c" in t[1]:
            tags.add("backslash")
    if result:
        m = re.match(r"int:(\d+)", result)
        if m and int(m.group(1)) >= 2 and name in ("gsub", "split", "splita"):
            tags.add("multi")
    return tags


NONTRIVIAL = {"ignorecase", "mod-str", "record-target", "bytes", "charval", "num-or-nil-arg", "fractional", "start<=0", "empty-match", "split-rex", "ampersand", "backslash", "multi"}


# ----------------------------------------------------------------------------------------------
# second opinion: gawk and mawk on the POSIX subset
# ----------------------------------------------------------------------------------------------
def awk_lit(cs):
    out = []
    for c in cs:
        ch = chr(c)
        if ch in '"\\':
            out.append("\\" + ch)
        elif ch == "\t":
            out.append("\\t")
        elif ch == "\n":
            out.append("\\n")
        else:
            out.append(ch)
    return '"' + "".join(out) + '"'


def awk_re(cs):
    return "/" + "".join(chr(c) for c in cs).replace("/", "\\/") + "/"


def posix_stmt(i, op):
    """awk statement for the POSIX-compatible subset (string subjects, integer numbers, global names); None otherwise"""
    name, t, twin = op
    if any(x[0] in "BCKFN" for x in t if x != "-") and name != "substr":
        return None
    if any(x[0] in "BCKN" for x in t if x != "-"):
        return None

    def tx(tok):
        if tok[0] == "S":
            return awk_lit(unhx(tok[2:]))
        if tok[0] == "I":
            return "(%s)" % tok[2:]
        if tok[0] == "F":
            return lit(tok)
        if tok[0] == "R":
            return awk_re(unhx(tok[2:]))
        return None
    pr = lambda e: 'printf "#%d %%s\\n", %s;' % (i, e)
    if name == "length" and t[0][0] == "S":
        return pr("length(%s)" % tx(t[0]))
    if name == "substr" and t[0][0] == "S":
        return pr('"[" substr(%s, %s%s) "]"' % (tx(t[0]), tx(t[1]), "" if t[2] == "-" else ", " + tx(t[2])))
    if name == "index" and t[2] == "-" and t[0][0] == "S" and t[1][0] == "S":
        return pr("index(%s, %s)" % (tx(t[0]), tx(t[1])))
    if name in ("tolower", "toupper") and t[0][0] == "S":
        return pr('"[" %s(%s) "]"' % (name, tx(t[0])))
    if name == "split" and t[0][0] == "S" and t[1][0] in "-SR":
        if t[1][0] == "S" and len(unhx(t[1][2:])) != 1:
            return None          # "" and multi-char string separators: not POSIX-defined / regex
        if t[1][0] == "R":
            return None
        sep = "" if t[1] == "-" else ", " + tx(t[1])
        return 'n = split(%s, A%s); s = n ""; for (k = 1; k <= n; k++) s = s "|" A[k]; printf "#%d %%s\\n", s;' % (tx(t[0]), sep, i)
    if name in ("sub", "gsub") and t[2][0] == "S" and t[1][0] == "S" and t[0][0] == "R":
        return 'T = %s; n = %s(%s, %s, T); printf "#%d %%s [%%s]\\n", n, T;' % (tx(t[2]), name, tx(t[0]), tx(t[1]), i)
    if name == "match" and t[0][0] == "S" and t[1][0] == "R":
        return 'n = match(%s, %s); printf "#%d %%s %%s %%s\\n", n, RSTART, RLENGTH;' % (tx(t[0]), tx(t[1]), i)
    return None


def hawk_text(op, res):
    """hawk's observed result rendered the way posix_stmt prints it (from the '#' line of the harness)"""
    name, t, twin = op
    f = dict(x.split("=", 1) for x in res.split(" ")[1:] if "=" in x)
    r = res.split(" ")[0]

    def txt(v):
        k, _, body = v.partition(":")
        if k == "nil":
            return ""
        if k == "int":
            return body
        if k in ("str", "char"):
            return "".join(chr(c) for c in unhx(body))
        return None
    if name in ("length", "index"):
        return txt(r)
    if name in ("substr", "tolower", "toupper"):
        return "[" + txt(r) + "]"
    if name == "split":
        m = re.match(r"map\{(.*)\}$", f["C"])
        items = [x.split("=")[1] for x in m.group(1).split(",")] if m and m.group(1) else []
        return "|".join([txt(r)] + [txt(x) for x in items])
    if name in ("sub", "gsub"):
        return "%s [%s]" % (txt(r), txt(f["T"]))
    if name == "match":
        return "%s %s %s" % (txt(r), txt(f["RS"]), txt(f["RL"]))
    return None


def run_awk(ctx, awk, stmts):
    path = os.path.join(ctx.scratch, "c13_%s.awk" % awk)
    stmts = list(stmts)
    for attempt in range(30):
        with open(path, "w") as f:
            f.write("BEGIN {\n" + "\n".join(stmts) + "\n}\n")
        rc, out, err = C.sh([awk, "-f", path], timeout=120, env=dict(os.environ, LC_ALL="C.UTF-8"))
        bad = sorted({int(x) for x in re.findall(r"line (\d+): regular expression compile failed", err.decode(errors="replace"))}, reverse=True)
        if rc == 0 or not bad:
            break
        for ln in bad:          # statement k is on line k + 2; this awk cannot compile that pattern: drop the call
            if 2 <= ln < len(stmts) + 2:
                del stmts[ln - 2]
    res = {}
    # results may contain newlines: a record runs to the next line starting with '#<digits> '
    cur = None
    for line in out.decode(errors="replace").split("\n"):
        m = re.match(r"#(\d+) (.*)$", line)
        if m:
            cur = int(m.group(1)); res[cur] = m.group(2)
        elif cur is not None:
            res[cur] += "\n" + line
    for k in res:
        res[k] = res[k].rstrip("\n")
    return res, rc, err.decode(errors="replace")


_ACCEPTS = {}


def awk_accepts(awk, pat_tok):
    """does this awk compile the regex literal? (mawk rejects e.g. /a|/)"""
    key = (awk, pat_tok)
    if key not in _ACCEPTS:
        rc, out, err = C.sh([awk, 'BEGIN { x = "a"; sub(%s, "", x) }' % awk_re(unhx(pat_tok[2:]))], timeout=20,
                            env=dict(os.environ, LC_ALL="C.UTF-8"))
        _ACCEPTS[key] = (rc == 0)
    return _ACCEPTS[key]


def second_opinion(ctx, ops, results):
    """a call where gawk and mawk agree with each other but not with hawk contradicts the specification both implement"""
    stmts, idx = [], []
    for i, op in enumerate(ops):
        if results[i] is None:
            continue
        s = posix_stmt(i, op)
        if s and all(awk_accepts("gawk", x) and awk_accepts("mawk", x) for x in op[1] if x[0] == "R"):
            stmts.append(s); idx.append(i)
    if not stmts:
        return 0, 0, []
    g, grc, gerr = run_awk(ctx, "gawk", stmts)
    ascii_only = lambda op: all(all(c < 0x80 for c in unhx(x[2:])) for x in op[1] if x[0] in "SR")
    mst = [s for s, i in zip(stmts, idx) if ascii_only(ops[i])]
    m, mrc, merr = run_awk(ctx, "mawk", mst)
    compared = 0
    agree3 = 0
    dis = []
    for i in idx:
        h = hawk_text(ops[i], results[i])
        if h is None or i not in g or i not in m:
            continue
        compared += 1
        if g[i] == m[i]:
            if h == g[i]:
                agree3 += 1
            else:
                dis.append((i, h, g[i]))
    return compared, agree3, dis


# sub-classes of specification disagreements that are recorded findings (KNOWN_FINDINGS.txt) rather than new violations
def spec_sig(op, h, g, table):
    name, t, twin = op
    if name == "index" and t[1] == "S:" and t[0] == "S:" and h == "0" and g == "1":
        return "index-empty-in-empty"
    if name in ("sub", "gsub") and "5c.5c.5c.5c" in t[1]:
        # is the difference exactly gawk's extra rule "four backslashes give two"?  recompute with that rule
        def expand_gawk(tp, mat, bs=0x5C, amp=0x26):
            out, i = [], 0
            while i < len(tp):
                if tp[i:i + 4] == [bs, bs, bs, amp]:
                    out += [bs, amp]; i += 4
                elif tp[i:i + 4] == [bs, bs, bs, bs]:
                    out += [bs, bs]; i += 4
                elif tp[i:i + 3] == [bs, bs, amp]:
                    out += [bs] + mat; i += 3
                elif tp[i:i + 2] == [bs, amp]:
                    out.append(amp); i += 2
                elif tp[i] == amp:
                    out += mat; i += 1
                else:
                    out.append(tp[i]); i += 1
            return out
        global spec_expand
        keep = spec_expand
        try:
            spec_expand = expand_gawk
            tbl = parse_table(table)
            sj = conv_str(t[2])
            out, cnt = spec_subst(lambda k: lookup(tbl, "c", pat_string(t[0]), sj, k), sj, conv_str(t[1]), 1 if name == "sub" else None)
        except NoEntry:
            return None
        finally:
            spec_expand = keep
        if "%d [%s]" % (cnt, "".join(chr(c) for c in out)) == g:
            return "template-four-backslashes"
    return None


# ----------------------------------------------------------------------------------------------
def describe(op):
    return stmt(0, op).replace("D(0, RV)", "print RV").replace("D(0, ", "print (")


INIT_FIELDS = dict(T="nil", C="nil", RS="nil", RL="nil")


def fields(line):
    w = line.split(" ")
    return w[0], dict(x.split("=", 1) for x in w[1:] if "=" in x)


def model_mismatches(ops, results, model, starts):
    """ops on which the Lean model and the implementation BEHAVE differently: different result, or a state field that
    differs now and was not simply carried along unchanged by both sides (after one genuine difference the two states
    differ in that field until it is written again; that must not count again on every later call)"""
    out = []
    pi = pm = None
    for i in range(len(ops)):
        if i in starts or results[i] is None or model[i] is None:
            pi, pm = dict(INIT_FIELDS), dict(INIT_FIELDS)
        if results[i] is None or model[i] is None:
            continue
        if str(model[i]).startswith("unmodelled") or str(model[i]).startswith("NOENTRY unmodelled"):
            r, fi = fields(results[i])
            pi = fi
            continue
        ri, fi = fields(results[i])
        rm, fm = fields(model[i])
        bad = ri != rm
        for k in fi:
            if fi.get(k) != fm.get(k) and not (pi is not None and fi.get(k) == pi.get(k) and fm.get(k) == pm.get(k)):
                bad = True
        if bad:
            out.append(i)
        pi, pm = fi, fm
    return out


def build(ctx):
    libdir = C.build_libhawk(ctx)
    exe = C.cc_harness(ctx, HARNESS, link_lib=libdir)
    return libdir, exe


def check_ops(ctx, exe, ops):
    """returns (results, tables, model, crashes, mismatches[i])"""
    results, tables, starts, crashes = run_impl(ctx, exe, ops)
    model = run_model(ctx, ops, tables, starts)
    mism = model_mismatches(ops, results, model, starts)
    return results, tables, model, crashes, mism


def standalone(ctx, exe, op):
    """re-run one op alone from a fresh state: implementation, Lean model, python equations"""
    results, tables, starts, crashes = run_impl(ctx, exe, [op])
    model = run_model(ctx, [op], tables, starts)
    exp = None
    if results[0] is not None:
        try:
            exp = oracle_expected(op, tables[0], Shadow())
        except NoEntry as e:
            exp = "matcher table incomplete: %s" % e
    return results[0], model[0], crashes, tables[0], exp


def corpus_ops():
    ops = []
    cdir = os.path.join(C.VERIF, "corpus", "C13")
    if os.path.isdir(cdir):
        for f in sorted(os.listdir(cdir)):
            for l in open(os.path.join(cdir, f)):
                l = l.strip()
                if l and not l.startswith("#"):
                    w = l.split()
                    twin = w[0].endswith("+")
                    ops.append((w[0].rstrip("+"), w[1:], twin))
    return ops


THEOREMS_ABOUT = {
    "substr": "substr_spec, substr_get", "index": "index_first_occurrence_or_zero, index_empty_pattern", "rindex": "rindex_last_occurrence_or_zero",
    "split": "split_join, split_pieces_free, splitPieces dispatch", "splita": "split_join", "sub": "sub_first_match, gsub_leftmost_nonoverlapping, expand_*",
    "gsub": "gsub_leftmost_nonoverlapping, matchSeq_*, expand_*", "sub0": "subst0_spec, sub_first_match", "gsub0": "subst0_spec, gsub_leftmost_nonoverlapping", "match": "match_sets_rstart_rlength", "matcha": "match_sets_rstart_rlength",
    "smatch": "match_sets_rstart_rlength, matchCore_spec", "smatcha": "match_sets_rstart_rlength", "length": "length_spec",
    "tolower": "tolower_idempotent, case_length", "toupper": "case_length",
    "trim": "trim_spec, trim_kind", "ltrim": "trim_spec", "rtrim": "trim_spec", "trimf": "trim_kind", "normspace": "compact_keeps_nonspace",
    "subchar": "subchar_spec, charAt_spec", "tocharcode": "charAt_spec, tocharcode_fromcharcode", "fromcharcode": "tocharcode_fromcharcode",
    "frombcharcode": "frombcharcode_spec", "tombs": "tombs_frommbs", "frommbs": "tombs_frommbs", "tonum": "tonum_spec",
    "i:index": "index_ignorecase", "i:rindex": "index_ignorecase", "i:split": "split_ignorecase_id", "i:splita": "split_ignorecase_id"}


def run(ctx):
    proof = C.prove(ctx, "HawkModel.Props.C13", leanchecker=(ctx.tier == "thorough"))
    tie = ctie.tie(ctx, "C13", leanchecker=(ctx.tier == "thorough"))   # substr index/length clamps of fnc.c: translated C = model
    libdir, exe = build(ctx)
    rng = ctx.rng
    ops = corpus_ops()
    ncorpus = len(ops)
    ops += gen_exhaustive(ctx.tier)
    nexh = len(ops) - ncorpus
    ops += gen_random(rng, 40000 if ctx.tier == "quick" else 600000)
    ctx.log("ops: corpus %d, exhaustive %d, random %d" % (ncorpus, nexh, len(ops) - ncorpus - nexh))
    t = time.time()
    results, tables, starts, crashes = run_impl(ctx, exe, ops)
    ctx.log("implementation run: %.1fs, %d calls died" % (time.time() - t, len(crashes)))

    # ---- (1) the property evaluated on the implementation's own output -------------------------------------
    # (1a) sanitizer report / signal / runtime error on a generated call
    impl_found = 0
    seen = set()
    for j, st, err in sorted(crashes):
        op = ops[j]
        key = (op[0].replace("rindex", "index").rstrip("a"), st)      # one report per builtin and kind of death
        if key in seen or len(seen) >= 6:
            continue
        seen.add(key)
        r1, tb1, st1, cr1 = run_impl(ctx, exe, [op])          # confirm from a fresh state
        alone = bool(cr1)
        m = re.search(r"(ERROR: AddressSanitizer: [^\n]*|runtime error: [^\n]*|ERROR\(run\): [^\n]*)", err)
        where = re.search(r"#\d+ 0x[0-9a-f]+ in (\w+) [^\n]*fnc\.c:(\d+)", err)
        impl_found += 1
        ctx.problem("impl", "hawk dies (%s) on: %s -- %s %s" % (st, describe(op), m.group(1)[:160] if m else "", "in %s fnc.c:%s" % where.groups() if where else ""),
                    "# run with the sanitized hawk CLI:  hawk 'BEGIN { %s }'\n# op line (corpus format): %s%s %s\n# %s\n%s\n" % (
                        describe(op), op[0], "+" if op[2] else "", " ".join(op[1]),
                        "reproduces from a fresh state" if alone else "died only after the preceding calls of its chunk", err[-1500:]), found_input=True)
    # (1b) the defining equations (python) on every printed result
    t = time.time()
    hits, checked = run_oracle(ops, results, tables, starts)
    ctx.log("property oracle: %d calls checked, %d break the equations (%.1fs)" % (checked, len(hits), time.time() - t))
    hit_idx = {i for i, _, _ in hits}
    seen = set()
    for i, exp, got in hits:
        op = ops[i]
        sig = oracle_sig(op, exp, got) if not exp.startswith("matcher table") else None
        if sig:
            if sig not in seen:
                seen.add(sig)
                ctx.problem("impl", "%s: hawk gives [%s] but the defining equations give [%s]" % (describe(op), got.split(" ")[0], exp.split(" ")[0]),
                            "# hawk 'BEGIN { %s }'\n# op line (corpus format): %s%s %s\n" % (describe(op), op[0], "+" if op[2] else "", " ".join(op[1])),
                            found_input=True, sig=sig)
            continue
        key = (op[0], "".join(x[0] for x in op[1][:1]))       # one report per builtin and kind of first argument
        if key in seen or len(seen) >= 8:
            continue
        seen.add(key)
        # shrink = the single call from a fresh state; confirm it still fails, else report it in its context
        r1, tb1, st1, cr1 = run_impl(ctx, exe, [op])
        h1, _ = run_oracle([op], r1, tb1, st1) if r1[0] is not None else ([], 0)
        if h1:
            exp, got, ctxnote = h1[0][1], h1[0][2], "reproduces from a fresh state"
        else:
            ctxnote = "shows only after the preceding calls of its chunk (state in T/A/RSTART/RLENGTH)"
        impl_found += 1
        ctx.problem("impl", "%s: hawk gives [%s] but the defining equations give [%s]" % (describe(op), got, exp),
                    "# hawk program (harness/strfn_h.c builtins out/tv/rawtable): BEGIN { %s }\n# op line (corpus format): %s%s %s\n# impl    : %s\n# expected: %s\n# matcher table: %s\n# %s\n" % (
                        describe(op), op[0], "+" if op[2] else "", " ".join(op[1]), got, exp, tables[i], ctxnote), found_input=True)
    # (1c) reference implementations: gawk and mawk agreeing with each other but not with hawk
    t = time.time()
    compared, agree3, dis = second_opinion(ctx, ops, results)
    ctx.log("gawk/mawk second opinion: %d calls compared, %d three-way agreements, %d where gawk=mawk!=hawk (%.1fs)" % (compared, agree3, len(dis), time.time() - t))
    seen = set()
    for i, h, g in dis:
        op = ops[i]
        sig = spec_sig(op, h, g, tables[i])
        key = sig or (op[0], "".join(x[0] for x in op[1]))
        if key in seen:
            continue
        seen.add(key)
        if not sig:
            impl_found += 1
        ctx.problem("impl", "gawk and mawk agree on [%s] but hawk gives [%s] for: %s" % (g, h, describe(op)),
                    "# hawk 'BEGIN { %s }'   versus the same call in gawk and mawk\n# op line (corpus format): %s%s %s\n" % (
                        describe(op), op[0], "+" if op[2] else "", " ".join(op[1])), found_input=True, sig=sig)

    # ---- (2) correspondence with the Lean model ---------------------------------------------------------------
    t = time.time()
    model = run_model(ctx, ops, tables, starts)
    mism = model_mismatches(ops, results, model, starts)
    ctx.log("correspondence with the Lean model: %.1fs, %d differing lines" % (time.time() - t, len(mism)))
    only_model = [i for i in mism if i not in hit_idx]
    if only_model and not impl_found:
        i = only_model[0]
        op = ops[i]
        ctx.problem("corr", "model and implementation differ although the property oracle is clean on all %d calls: first at %s: impl [%s] model [%s] (theorems about this model function: %s)" % (
            checked, describe(op), results[i], model[i], THEOREMS_ABOUT.get(op[0], THEOREMS_ABOUT.get(op[0][2:], "isClass_spec, isclass_kind" if op[0].startswith("is:") else "?"))),
            "# correspondence HawkModel.StrFn <-> lib/fnc.c no longer holds (%d differing lines); first:\n# op line (corpus format): %s%s %s\n# impl : %s\n# model: %s\n# matcher table: %s\n" % (
                len(only_model), op[0], "+" if op[2] else "", " ".join(op[1]), results[i], model[i], tables[i]), found_input=False)
    # ---- coverage
    dist, tagd = {}, {}
    nontriv = set()
    for i, op in enumerate(ops):
        dist[op[0] + ("+" if op[2] else "")] = dist.get(op[0] + ("+" if op[2] else ""), 0) + 1
        tg = branch_tags(op, tables[i], results[i])
        for x in tg:
            tagd[x] = tagd.get(x, 0) + 1
        if tg & NONTRIVIAL and results[i] is not None:
            nontriv.add(opline(op))
    samples = [describe(ops[k]) + "  =>  " + str(results[k]) for k in (ncorpus + 7, ncorpus + nexh // 2, len(ops) - 3, len(ops) - 2) if k < len(ops)]
    return C.finish(ctx, [proof] + tie, len([r for r in results if r is not None]) + compared, len(nontriv),
                    "calls = corpus + exhaustive small scope (subjects over {a,b,é} up to length 3..5 in every carrying value type x start/len in [-3,8]+{1.5,2.7} x "
                    "pattern set x templates over {x,&,\\} up to length 4 x separators) + seeded random longer subjects with multibyte characters; each call's result, "
                    "by-reference target, collection, RSTART/RLENGTH, NF, $0, sentinel and global signature checked (1) against the defining equations evaluated in python on hawk's own output, "
                    "(2) against gawk and mawk on the POSIX subset, (3) line by line against the Lean model (regex engine given as data); "
                    "distinct_nontrivial = distinct calls with a byte/char/numeric/nil argument, a start<=0 or fractional number, "
                    "an empty regex match in their table, a regex separator, &/\\ in the template or >=2 pieces/replacements, any call under IGNORECASE=1 and any call of a function implemented in mod-str.c itself",
                    samples, extra_cov=dict(op_distribution=dist, branch_tags=tagd, second_opinion=dict(compared=compared, agree=agree3, disagree=len(dis)),
                                            oracle_checked=checked, oracle_hits=len(hits), crashes=len(crashes), model_mismatches=len(mism)),
                    trusted=["string builtins modelled by hand in HawkModel/StrFn.lean; UTF-8 codec, CONVFMT number formatting, character classes/case tables and the regex engine are parameters of the model (Env), instantiated in the driver by small re-implementations / by the real engine's answers as data",
                             "harness/strfn_h.c observation builtins (tv, rawtable, gsig) read internal value representations correctly"],
                    assumptions=["IGNORECASE 0 and 1, STRIPRECSPC off, default FS/SUBSEP/CONVFMT; no '?'-quoted field mode; numeric arguments are int/float/nil values (not numeric strings)",
                                 "str::tonum on strings: sign + digits valid in base 2/8/10/16 or automatic (the number parser proper is C11's); character classes and case maps over ASCII + Latin-1 letters",
                                 "hawk_int_t arithmetic does not overflow (|start|,|len| < 2^62)", "patterns compile; sub-match groups of match(s,r,arr) not modelled",
                                 "two-argument sub/gsub (target $0) and length() without argument are left to C03 (record handling)"])


def replay(ctx, path):
    libdir, exe = build(ctx)
    ops = []
    for l in open(path):
        m = re.match(r"# op line(?: \(corpus format\))?: (.*)$", l.strip())
        if m:
            w = m.group(1).split(" | ")[0].split()
            ops.append((w[0].rstrip("+"), w[1:], w[0].endswith("+")))
    bad = 0
    for op in ops:
        r, m, cr, tb, exp = standalone(ctx, exe, op)
        print("call     :", describe(op))
        print("impl     :", r if r is not None else "<died: %s>" % (cr[0][1] if cr else "?"))
        print("equations:", exp)
        print("model    :", m)
        if r is None or (exp is not None and r != exp) or r != m:
            bad = 1
    comp, ag, dis = second_opinion(ctx, ops, [standalone(ctx, exe, op)[0] for op in ops])
    for i, h, g in dis:
        print("gawk=mawk:", repr(g), "hawk:", repr(h)); bad = 1
    return bad
