"""C07 — values live exactly as long as they are reachable (lib/val.c refcounts + generational cycle
collector, run.c fini_rtx, mod-hawk.c hawk::gc*/gcrefs): proof on HawkModel.Gc + correspondence with
the real code at two levels:
  * API level: harness/gc_h.c drives the real makemapval/setmapvalfld/refdownval/hawk_rtx_gc/... with a
    counting host allocator and dumps v_refs, gc_refs, generation membership and container elements
    of every chained container after every operation; compared line by line with `hawkdrv gc`.
  * language level: generated hawk programs run by the sanitized CLI with LeakSanitizer ON; after every
    statement the program prints hawk::gcrefs() of every variable and the gc pressure counters;
    compared with the model's prediction; programs end normally, by `exit`, or by a runtime error.
Independently of the model the property is evaluated directly on the real outputs (reference-count
ledger, nothing reachable missing, nothing unreachable left after a full collection, zero host
blocks left after hawk_rtx_close, no LeakSanitizer/ASan report)."""
import os, itertools, re, shutil, time
from .. import common as C

AREA = "gc"
import threading
_DRV_LOCK = threading.Lock()


def model_exe(ctx):
    """the compiled Lean driver, built once per check run and copied to the scratch directory (C.run_driver runs
    `lake build` on every call: far too slow for the shrinker, which runs the model hundreds of times)"""
    with _DRV_LOCK:
        exe = getattr(ctx, "_c07_drv", None)
        if exe is None:
            exe = os.path.join(ctx.scratch, "hawkdrv-c07")
            shutil.copy(C.driver_exe(ctx), exe)
            ctx._c07_drv = exe
        return exe


def run_model(ctx, lines, timeout=600):
    exe = model_exe(ctx)
    rc, out, err = C.sh([exe, AREA], input_=("\n".join(lines) + "\n").encode(), timeout=timeout)
    if rc != 0:
        raise RuntimeError("lean driver %s rc=%s: %s" % (AREA, rc, err.decode(errors="replace")[-2000:]))
    return out.decode(errors="replace").split("\n")[:-1]


PREALLOC_CLI = 2   # hawk_rtx_openstd creates the ARGV and ENVIRON maps before the program starts


# ----------------------------------------------------------------------------------------------
# specification-level tracker (who holds what; which container has which container elements)
# used by the generators to emit mostly-valid operations and by the direct property evaluation
# ----------------------------------------------------------------------------------------------
class Ideal:
    def __init__(self):
        self.n = 0
        self.holders = {}
        self.kids = {}

    def alloc(self):
        i = self.n
        self.n += 1
        self.holders[i] = 1
        self.kids[i] = []
        return i

    def reachable(self):
        seen = set()
        st = [i for i, h in self.holders.items() if h > 0]
        while st:
            x = st.pop()
            if x in seen:
                continue
            seen.add(x)
            st.extend(self.kids.get(x, []))
        return seen

    def prune(self):
        """forget objects that are no longer reachable (they are garbage; a correct runtime may free them)"""
        r = self.reachable()
        for i in list(self.kids):
            if i not in r:
                del self.kids[i]
                self.holders.pop(i, None)


CALL_FNS = ["keep", "drop2", "dropr", "store", "wrap", "cyc", "fail", "quit"]


def call_effect(T, fn, a, b):
    """what a call of harness/gc_h.c's function `fn` with the containers a, b does to the specification-level tracker
    (-> id of the container the body allocated, or None)"""
    if fn == "keep":
        T.holders[a] = T.holders.get(a, 0) + 1
    elif fn == "store":
        T.kids[a].append(b)
    elif fn == "wrap":
        n = T.alloc()
        T.kids[n] = [a, b]
        return n
    elif fn in ("cyc", "fail", "quit"):
        n = T.alloc()
        T.holders[n] = 0
        T.kids[n] = [a, n]
        return n
    return None


def in_contract(h):
    """a client may only name containers it can reach from a reference it holds (or ids that were never allocated:
    rejected on both sides).  Naming garbage is outside the API contract: e.g. deleting an element of a container
    that only refers to itself frees the container inside the running hawk_map_delete.  Used to filter the
    exhaustive set and the candidates of the shrinker."""
    T = Ideal()
    quit_seen = False
    for op in h:
        w = op.split()
        k = w[0]
        if k in ("new", "close", "gc", "thr") or k[0] == "v":
            if k == "new":
                T = Ideal()
                quit_seen = False
            continue
        if k == "alloc":
            T.alloc()
            continue
        if k == "call":
            if quit_seen:
                return False          # hawk_rtx_callfun refuses calls after `exit`; the model has no such state
            a = [int(x) for x in w[2:]]
            if any(x >= T.n for x in a):
                continue
            if any(x not in T.reachable() for x in a):
                return False
            call_effect(T, w[1], a[0], a[1])
            if w[1] == "quit":
                quit_seen = True
            T.prune()
            continue
        a = [int(x) for x in w[1:]]
        if any(x >= T.n for x in a):
            continue
        R = T.reachable()
        if k == "drop":
            if T.holders.get(a[0], 0) > 0:
                T.holders[a[0]] -= 1
        elif any(x not in R for x in a):
            return False
        elif k == "link":
            T.kids[a[0]].append(a[1])
        elif k == "unlink":
            if a[1] in T.kids[a[0]]:
                T.kids[a[0]].remove(a[1])
        elif k == "relink":
            if a[1] in T.kids[a[0]] and a[1] != a[2] and T.holders.get(a[2], 0) > 0:
                T.kids[a[0]].remove(a[1])
                T.kids[a[0]].append(a[2])
        elif k == "clear":
            if T.holders.get(a[0], 0) > 0:
                T.kids[a[0]] = []
        elif k == "root":
            T.holders[a[0]] += 1
        elif k == "take":
            if a[1] in T.kids[a[0]]:
                T.holders[a[1]] += 1
        T.prune()
    return True


GC_ARGS = [0, 0, 0, 0, 1, 1, 1, 2, 2, 2, -1, -1, 3, 7]


def gen_history(rng, n, profile=None):
    """one API-level history: `new`, n operations, `close`"""
    T = Ideal()
    lines = ["new"]
    prof = profile or rng.choice(["mixed", "mixed", "cycles", "pressure", "oldyoung", "oldyoung", "gen3", "gen3"])
    age = {}      # id -> number of collections requested since its allocation (a rough generation)
    gcargs = GC_ARGS
    if prof == "gen3":
        # containers in all three generations before anything else happens (gc 0 twice promotes to generation 2, once
        # to generation 1), then self- and cross-references in every direction between the generations, drops, and
        # collections of each generation with equal weight; thresholds change on the way
        for gcs in (["gc 0", "gc 1"], ["gc 0"], []):
            for _ in range(rng.choice([1, 1, 2])):
                age[T.alloc()] = 0
                lines.append("alloc %s" % rng.choice(["m", "a", "d"]))
            for g in gcs:
                lines.append(g)
                for i in age:
                    age[i] += 1
        gcargs = [0, 1, 2, 0, 1, 2, -1]
        prof = rng.choice(["cycles", "thrmix"])
    if prof == "pressure":
        lines.append("thr 0 %d" % rng.choice([1, 2, 3, 4]))
        if rng.random() < 0.7:
            lines.append("thr 1 %d" % rng.choice([1, 2, 3]))
        if rng.random() < 0.7:
            lines.append("thr 2 %d" % rng.choice([1, 2, 3]))
    maxlive = rng.choice([3, 4, 5, 6, 8])
    quit_done = False
    for _ in range(n):
        R = sorted(T.reachable())
        held = sorted(i for i in R if T.holders.get(i, 0) > 0)
        k = rng.random()
        if rng.random() < 0.03:
            # operation naming a container that was never allocated: rejected without effect
            a, b, c = T.n + rng.randrange(3), rng.randrange(T.n + 2), rng.randrange(T.n + 2)
            lines.append(rng.choice(["link %d %d" % (a, b), "link %d %d" % (b, a), "unlink %d %d" % (a, b), "drop %d" % a,
                                     "root %d" % a, "relink %d %d %d" % (a, b, c), "clear %d" % a]))
            continue
        if prof == "oldyoung" and R and rng.random() < 0.45:
            # young containers that refer to older ones, made cyclic, dropped, then a young generation is collected
            young = [i for i in R if age.get(i, 0) == 0]
            old = [i for i in R if age.get(i, 0) > 0]
            z = rng.random()
            if not young or (not old and z < 0.3):
                if old or z < 0.5:
                    age[T.alloc()] = 0
                    lines.append("alloc %s" % rng.choice(["m", "m", "a", "a", "d"]))
                else:
                    lines.append("gc %d" % rng.choice([0, 0, 1]))
                    for i in age:
                        age[i] += 1
            elif z < 0.35 and old:
                p, c = rng.choice(young), rng.choice(old)
                T.kids[p].append(c)
                lines.append("link %d %d" % (p, c))
            elif z < 0.55:
                p, c = rng.choice(young), rng.choice(young)
                T.kids[p].append(c)
                lines.append("link %d %d" % (p, c))
            elif z < 0.80:
                hy = [i for i in young if T.holders.get(i, 0) > 0]
                if hy:
                    o = rng.choice(hy)
                    T.holders[o] -= 1
                    lines.append("drop %d" % o)
            else:
                lines.append("gc %d" % rng.choice([0, 0, 0, 1]))
                for i in age:
                    age[i] += 1
            T.prune()
            continue
        if R and not quit_done and rng.random() < (0.10 if prof != "pressure" else 0.05):
            # the host calls a hawk function: the frame (arguments, locals, return value) holds containers while the body
            # runs; bodies end by return, by a run-time error (fail) or by exit (quit: no call is possible afterwards)
            fn = rng.choice(["keep", "drop2", "dropr", "store", "store", "wrap", "wrap", "cyc", "cyc", "fail", "fail", "quit"])
            a_, b_ = rng.choice(R), rng.choice(R)
            if not (fn == "store" and len(T.kids[a_]) >= 40):
                n_ = call_effect(T, fn, a_, b_)
                if n_ is not None:
                    age[n_] = 0
                quit_done = fn == "quit"
                lines.append("call %s %d %d" % (fn, a_, b_))
        elif not R or (k < 0.22 and len(R) < maxlive) or (k < 0.05):
            age[T.alloc()] = 0
            lines.append("alloc %s" % rng.choice(["m", "m", "a", "a", "d"]))
        elif k < 0.50:
            p = rng.choice(R)
            if prof in ("cycles", "thrmix") and rng.random() < 0.5:
                c = rng.choice([p] + R)
            else:
                c = rng.choice(R)
            if len(T.kids[p]) < 40:
                T.kids[p].append(c)
                lines.append("link %d %d" % (p, c))
        elif k < 0.58:
            ps = [p for p in R if T.kids[p]]
            if ps:
                p = rng.choice(ps)
                c = rng.choice(T.kids[p])
                T.kids[p].remove(c)
                lines.append("unlink %d %d" % (p, c))
        elif k < 0.63:
            ps = [p for p in R if T.kids[p]]
            if ps and held:
                p = rng.choice(ps)
                c = rng.choice(T.kids[p])
                d = c if rng.random() < 0.3 else rng.choice(held)   # same pointer stored again: the keeper runs
                T.kids[p].remove(c)
                T.kids[p].append(d)
                lines.append("relink %d %d %d" % (p, c, d))
        elif k < 0.66:
            if held:
                p = rng.choice(held)
                T.kids[p] = []
                lines.append("clear %d" % p)
        elif k < 0.72:
            ps = [p for p in R if T.kids[p]]
            if ps and rng.random() < 0.5:        # the reference is taken to an element fetched through the API
                p = rng.choice(ps)
                o = rng.choice(T.kids[p])
                lines.append("take %d %d" % (p, o))
            else:
                o = rng.choice(R)
                lines.append("root %d" % o)
            T.holders[o] = T.holders.get(o, 0) + 1
        elif k < 0.87:
            if held:
                o = rng.choice(held)
                T.holders[o] -= 1
                lines.append("drop %d" % o)
        elif k < (0.95 if prof == "thrmix" else 0.98):
            lines.append("gc %d" % rng.choice(gcargs))
            for i in age:
                age[i] += 1
        else:
            lines.append("thr %d %d" % (rng.choice([0, 1, 2, -1, 3]), rng.choice([0, 1, 2, 3, 5, 100, -1])))
        T.prune()
    if rng.random() < 0.3:
        lines.append("gc 2")
    lines.append("close")
    return lines


def gen_leaf_history(rng):
    """leaf values only: boxed integers / floats (chunks of 100 slots + free lists) and strings (16 cache classes of 128):
    bursts that cross a chunk boundary or overflow a cache class, releases in any order, re-allocation from the lists"""
    lines = ["new"]
    held = []
    n = 0
    for _ in range(rng.randrange(3, 9)):
        z = rng.random()
        if z < 0.30:
            kind = rng.choice(["vint", "vflt"])
            for _ in range(rng.choice([1, 3, 40, 99, 100, 101, 130])):
                lines.append(kind)
                held.append(n)
                n += 1
        elif z < 0.55:
            ln = rng.choice([1, 5, 14, 15, 16, 30, 31, 32, 100, 238, 239, 240, 241, 500])
            for _ in range(rng.choice([1, 2, 20, 127, 128, 129, 140])):
                lines.append("vstr %d" % ln)
                held.append(n)
                n += 1
        elif z < 0.9 and held:
            k = rng.choice([1, len(held) // 2, len(held)])
            rng.shuffle(held)
            for _ in range(k):
                lines.append("vrel %d" % held.pop())
        else:
            lines.append("vrel %d" % rng.randrange(n + 2))        # possibly not held: rejected
            held = [x for x in held if ("vrel %d" % x) != lines[-1]]
        if len(lines) > 700:
            break
    lines.append("close")
    return lines


def exhaustive_small(tier):
    """every sequence over a small alphabet after fixed prefixes (one object older than the other, or both young)"""
    alpha_full = ["gc 0", "gc 1", "gc 2", "link 0 1", "link 1 0", "link 1 1", "unlink 1 0", "drop 0", "drop 1", "root 0",
                  "alloc a", "clear 1", "relink 1 0 0", "take 1 0", "call cyc 1 0", "call wrap 0 1", "call keep 1 0", "call fail 0 1"]
    alpha_red = ["gc 0", "gc 2", "link 1 0", "link 1 1", "link 0 1", "drop 1", "drop 0"]
    # map and array holders/elements symmetrically (free_mapval / free_arrval are twins): every prefix in both kinds and mixed
    prefixes = [["new", "alloc m", "alloc m"], ["new", "alloc m", "gc 0", "alloc m"], ["new", "alloc a", "gc 1", "alloc a"],
                ["new", "alloc a", "alloc a"], ["new", "alloc a", "gc 0", "alloc a"], ["new", "alloc m", "gc 1", "alloc m"],
                ["new", "alloc m", "gc 0", "alloc a"], ["new", "alloc a", "gc 0", "alloc m"]]
    out = []
    for pre in prefixes:
        if tier == "quick":
            for seq in itertools.product(alpha_full, repeat=2):
                out.append(pre + list(seq) + ["close"])
            for seq in itertools.product(alpha_red, repeat=4):
                out.append(pre + list(seq) + ["close"])
        else:
            for seq in itertools.product(alpha_full, repeat=3):
                out.append(pre + list(seq) + ["close"])
            for seq in itertools.product(alpha_red, repeat=5):
                out.append(pre + list(seq) + ["close"])
    return [h for h in out if in_contract(h)]


# ----------------------------------------------------------------------------------------------
# dump parsing and direct evaluation of the property on the implementation's own output
# ----------------------------------------------------------------------------------------------
OBJ_RE = re.compile(r"^(\d+):(\d+):([^:]+):(-?\d+):h(\d+):\[([^\]]*)\]$")


def parse_dump(line):
    """-> dict(r=..., p=[..], t=[..], objs={id: dict(refs, gc, gen, h, kids)}, freed=[..]) or None"""
    m = re.match(r"^r=(\S+) f=(\d) p=([\d,]+) t=([\d,]+) \|(.*)\| freed=\[([^\]]*)\](.*)$", line)
    if not m:
        return None
    objs = {}
    extra = []
    for tok in m.group(5).split():
        om = OBJ_RE.match(tok)
        if not om:
            extra.append(tok)
            continue
        objs[int(om.group(1))] = dict(refs=int(om.group(2)), gc=om.group(3), gen=int(om.group(4)), h=int(om.group(5)),
                                      kids=[int(x) for x in om.group(6).split(",") if x])
    return dict(r=m.group(1), f=int(m.group(2)), p=[int(x) for x in m.group(3).split(",")], t=[int(x) for x in m.group(4).split(",")],
                objs=objs, freed=[int(x) for x in m.group(6).split(",") if x], extra=extra)


def oracle(ops, outs):
    """C07 evaluated directly on the implementation's own dumps, independently of the Lean model.
    A python shadow (who holds what, which container has which container elements) follows the operations
    the implementation reports as done.  Checked after every operation:
      * every object the shadow can reach from a holder is still chained (nothing reachable was freed) and the
        container elements re-read from the real map/array are the shadow's;
      * v_refs = holders + referring elements of live containers (the ledger; too high = leak, too low = early free ahead);
      * no acyclic garbage stays: every unreachable object still chained is referred to by another unreachable object;
      * after a full collection nothing unreachable is chained any more;
      * hawk_rtx_close gives back every host block.
    Returns a list of (op index, message)."""
    bad = []
    holders, kids, nxt = {}, {}, 0
    vleaf = {}
    for i, op in enumerate(ops):
        w = op.split()
        if w[0] == "new":
            vleaf = {}
        if i >= len(outs):
            bad.append((i, "no output for this operation (crash or hang)"))
            break
        line = outs[i]
        if line == "HANG":
            bad.append((i, "call did not return"))
            break
        if w[0] == "close":
            m = re.match(r"^r=closed leak=(-?\d+)(.*)$", line)
            if not m:
                bad.append((i, "close produced %r" % line))
            elif int(m.group(1)) != 0 or m.group(2).strip():
                bad.append((i, "closing the runtime left host blocks behind: %s" % line))
            continue
        if w[0][0] == "v":
            # leaf values (boxed ints, floats, strings) held by the host: the blocks the runtime has from the host are the
            # chunks behind the int/float slots, the strings in use and the strings parked in the cache - nothing else
            m = re.match(r"^r=(\S+) blk=(-?\d+) ic=(\d+) if=(\d+) rc=(\d+) rf=(\d+) sc=([\d,]+)$", line)
            if not m:
                bad.append((i, "unparsable output %r" % line[:120]))
                break
            if w[0] == "new":
                pass
            if m.group(1) != "ERR":
                if w[0] == "vrel":
                    kind = vleaf.pop(int(w[1]), None)
                    if kind is None:
                        bad.append((i, "release of a leaf value that is not held reported as done"))
                else:
                    vleaf[int(m.group(1))] = w[0]
            blk, ic, ifr, rc, rfr = (int(m.group(j)) for j in range(2, 7))
            sc = [int(x) for x in m.group(7).split(",")]
            nstr = sum(1 for x in vleaf.values() if x == "vstr")
            if blk != ic + rc + nstr + sum(sc):
                bad.append((i, "host blocks held by the runtime: %d, but %d int chunk(s) + %d float chunk(s) + %d string(s) in use + %d cached string(s) "
                               "(a block was lost or is counted twice)" % (blk, ic, rc, nstr, sum(sc))))
            if sum(1 for x in vleaf.values() if x == "vint") + ifr != 100 * ic or sum(1 for x in vleaf.values() if x == "vflt") + rfr != 100 * rc:
                bad.append((i, "slots in use + slots on the free list differ from 100 per chunk: ints %d+%d vs %d chunk(s), floats %d+%d vs %d chunk(s)" % (
                    sum(1 for x in vleaf.values() if x == "vint"), ifr, ic, sum(1 for x in vleaf.values() if x == "vflt"), rfr, rc)))
            if bad:
                break
            continue
        d = parse_dump(line)
        if d is None:
            bad.append((i, "unparsable output %r" % line[:120]))
            break
        r = d["r"]
        try:
            if w[0] == "new":
                holders, kids, nxt = {}, {}, 0
            elif w[0] == "alloc":
                if r != str(nxt):
                    bad.append((i, "allocation returned id %s, expected %d" % (r, nxt)))
                holders[nxt] = 1
                kids[nxt] = []
                nxt += 1
            elif w[0] == "call":
                if r != "ERR":
                    a = [int(x) for x in w[2:]]
                    if any(x not in kids for x in a):
                        raise KeyError("call on unknown object")
                    fn = w[1]
                    if fn == "keep":
                        holders[a[0]] += 1
                    elif fn == "store":
                        kids[a[0]].append(a[1])
                    elif fn == "wrap":
                        if r != str(nxt):
                            bad.append((i, "the container returned by the call got id %s, expected %d" % (r, nxt)))
                        holders[nxt] = 1
                        kids[nxt] = [a[0], a[1]]
                        nxt += 1
                    elif fn in ("cyc", "fail", "quit"):
                        holders[nxt] = 0              # the frame's local: no holder once the frame is gone
                        kids[nxt] = [a[0], nxt]
                        nxt += 1
            elif r == "ok":
                a = [int(x) for x in w[1:]]
                if w[0] == "link":
                    kids[a[0]].append(a[1])
                elif w[0] == "unlink":
                    kids[a[0]].remove(a[1])
                elif w[0] == "relink":
                    kids[a[0]].remove(a[1])
                    kids[a[0]].append(a[2])
                elif w[0] == "clear":
                    kids[a[0]] = []
                elif w[0] == "root":
                    holders[a[0]] += 1
                elif w[0] == "take":
                    if a[1] not in kids[a[0]]:
                        raise KeyError("slot")
                    holders[a[1]] += 1
                elif w[0] == "drop":
                    holders[a[0]] -= 1
                    if holders[a[0]] < 0:
                        raise KeyError("holder")
        except (KeyError, ValueError):
            bad.append((i, "operation reported as done on an object/slot/holder that does not exist: %s" % op))
            break
        objs = d["objs"]
        if d["extra"]:
            bad.append((i, "generation lists contain something unexpected: %s" % " ".join(d["extra"])))
        reach = set()
        st = [o for o, h in holders.items() if h > 0]
        while st:
            x = st.pop()
            if x in reach:
                continue
            reach.add(x)
            st.extend(kids.get(x, []))
        gone = sorted(reach - set(objs))
        if gone:
            bad.append((i, "container(s) %s freed while still reachable from a holder" % gone))
        indeg = {}
        for o, ob in objs.items():
            for c in ob["kids"]:
                indeg[c] = indeg.get(c, 0) + 1
                if c not in objs:
                    bad.append((i, "container %d still has element %d which is no longer chained (freed while referenced)" % (o, c)))
            if o not in kids:
                bad.append((i, "object %d is chained but was never allocated or was reported freed" % o))
                continue
            if sorted(kids[o]) != ob["kids"]:
                bad.append((i, "container %d holds %s but %s was stored into it" % (o, ob["kids"], sorted(kids[o]))))
            if holders.get(o, 0) != ob["h"]:
                bad.append((i, "harness holder count of %d is %d, shadow says %d" % (o, ob["h"], holders.get(o, 0))))
        for o, ob in objs.items():
            exp = ob["h"] + indeg.get(o, 0)
            if ob["refs"] != exp:
                bad.append((i, "reference count of %d is %d but it has %d holder(s) and %d referring element(s) (%s)" % (
                    o, ob["refs"], ob["h"], indeg.get(o, 0), "leak: will never be released" if ob["refs"] > exp else "early release ahead")))
        unreach = set(objs) - reach
        for o in sorted(unreach):
            if not any(o in objs[q]["kids"] for q in unreach):
                bad.append((i, "unreachable container %d is not part of or behind a cycle but was not freed at once" % o))
        if w[0] == "gc" and r == "2" and unreach:
            bad.append((i, "unreachable container(s) %s survived a full collection" % sorted(unreach)))
        for o in list(kids):
            if o not in objs:
                del kids[o]
                holders.pop(o, None)
        if bad:
            break
    return bad


def nontrivial_history(ops, mouts):
    """a collection frees an object that has an element in an OLDER generation than the collected one
    which survives (the freeing of an unreachable object that points into an older generation)"""
    prev = None
    for op, line in zip(ops, mouts):
        d = parse_dump(line)
        if d is None:
            prev = None
            continue
        w = op.split()
        if prev is not None and d["freed"] and w[0] in ("gc", "alloc"):
            g = int(d["r"]) if w[0] == "gc" else max([0] + [j for j in (1, 2) if d["p"][j + 1] != prev["p"][j + 1]])
            for o in d["freed"]:
                for c in prev["objs"].get(o, dict(kids=[]))["kids"]:
                    if c in d["objs"] and prev["objs"][c]["gen"] > g:
                        return True
        prev = d
    return False


NONTRIVIAL_RULE = (
    "a history/program is non-trivial iff the MODEL's dump stream (equal to the implementation's, line by line) shows at least one of: "
    "gc_freed (a collection, explicit or by pressure, frees a container: a cycle was collected), cascade_multi (one refdown/element "
    "freeer releases >= 2 containers recursively), cascade_frees_promoted (the refcount cascade outside a collection releases a "
    "container of generation 1/2, i.e. one carrying GCH_MOVED), gc_cascade_into_older (a collection of generation g releases, through "
    "the element freeer, a container of a generation > g), freed_pointing_to_older (a collected container has an element in an older "
    "generation which survives: the stale-sentinel class), auto_gc (gc_calloc_val collects by pressure), survivor_promoted (a collection "
    "moves a survivor to the next generation while freeing something in the same run), call_frame_wrap/cyc/fail/quit (the host calls a "
    "hawk function whose frame holds the arguments and a local container; the body ends by return / run-time error / exit). distinct_nontrivial = number of distinct BRANCH "
    "SIGNATURES among the non-trivial ones, where the signature abstracts object identities away: per operation (kind, rejected?, "
    "generation collected, number freed capped at 4, generations of the freed, pointing-to-older flag, number promoted capped at 4, "
    "generation of the container operated on). Two histories with the same signature take the same branches in the same order and count once.")


def history_signature(ops, mouts):
    """-> (signature, set of non-trivial branch features); see NONTRIVIAL_RULE"""
    sig, feats, prev = [], set(), None
    for op, line in zip(ops, mouts):
        w = op.split()
        if w[0] == "q":
            continue
        d = parse_dump(line)
        if d is None:
            sig.append((w[0],))
            prev = None if w[0] in ("new", "close") else prev
            continue
        k = w[0]
        ev = [k]
        if d["r"] == "ERR":
            ev.append("rej")
        freed = d["freed"]
        if prev is not None:
            po = prev["objs"]
            auto = k in ("alloc", "call") and d["p"][1:] != prev["p"][1:]
            if k == "call":
                ev.append(w[1])
                if d["r"] != "ERR" and w[1] in ("wrap", "cyc", "fail", "quit"):
                    feats.add("call_frame_" + w[1])
            if k == "gc" or auto:
                g = int(d["r"]) if k == "gc" else max([0] + [j for j in (1, 2) if d["p"][j + 1] != prev["p"][j + 1]])
                ev.append("g%d" % g)
                if auto:
                    feats.add("auto_gc")
                promoted = sum(1 for o, ob in d["objs"].items() if o in po and po[o]["gen"] != ob["gen"])
                ev.append("P%d" % min(promoted, 4))
                if freed:
                    feats.add("gc_freed")
                    ev.append("F%d" % min(len(freed), 4))
                    ev.append(tuple(sorted({po[o]["gen"] for o in freed if o in po})))
                    if any(o in po and po[o]["gen"] > g for o in freed):
                        feats.add("gc_cascade_into_older")
                        ev.append("casc-older")
                    if any(c in d["objs"] and c in po and po[c]["gen"] > g for o in freed for c in po.get(o, dict(kids=[]))["kids"]):
                        feats.add("freed_pointing_to_older")
                        ev.append("to-older")
                    if promoted:
                        feats.add("survivor_promoted")
            else:
                if k in ("link", "unlink", "relink", "clear", "drop", "root", "take") and len(w) > 1 and w[1].isdigit() and int(w[1]) in po:
                    ev.append("on-g%d" % po[int(w[1])]["gen"])
                if freed:
                    ev.append("C%d" % min(len(freed), 4))
                    gens = tuple(sorted({po[o]["gen"] for o in freed if o in po}))
                    ev.append(gens)
                    if len(freed) >= 2:
                        feats.add("cascade_multi")
                    if any(x >= 1 for x in gens):
                        feats.add("cascade_frees_promoted")
        sig.append(tuple(ev))
        prev = d
    return tuple(sig), feats


# ----------------------------------------------------------------------------------------------
# API-level comparison
# ----------------------------------------------------------------------------------------------
def run_both(ctx, exe, lines, wd=20):
    budget = 120 + len(lines) // 20
    rc, cout, cerr = C.run_harness(exe, [str(wd)], lines, timeout=budget, env=C.ASAN_LEAK_ENV)
    mout = run_model(ctx, lines, timeout=budget)
    status = C.classify_rc(rc, cerr)
    if cout and cout[-1] == "HANG":
        status = "HANG"
    return cout, mout, status, cerr


def split_histories(lines):
    blocks, cur = [], []
    for l in lines:
        if l.split()[0] == "new" and cur:
            blocks.append(cur)
            cur = []
        cur.append(l)
    if cur:
        blocks.append(cur)
    return blocks


def normalise(sub):
    sub = [x for x in sub if x.split()[0] not in ("new", "close")]
    return ["new"] + sub + ["close"]


def budgeted(pred, seconds):
    """shrinker predicate with a wall-clock budget: a violating tree (hangs, slow crashes) must not cost minutes"""
    t0 = time.time()

    def f(x):
        return time.time() - t0 < seconds and pred(x)
    return f


def one_history(ctx, exe, h, wd=10):
    """-> dict(corr=first differing index|None, orc=oracle findings, st=status, co, mo, ce)"""
    co, mo, st, ce = run_both(ctx, exe, h, wd=wd)
    return dict(corr=C.diff_streams(co, mo), orc=oracle(h, co), st=st, co=co, mo=mo, ce=ce)


def replay_text(h, r):
    return "# feed to harness/gc_h.c (built against the repo under test) and to `hawkdrv gc`\n" + "\n".join(h) + \
           "\n# impl:\n" + "\n".join(r["co"]) + "\n# model:\n" + "\n".join(r["mo"]) + \
           "\n# property oracle on the impl output:\n" + \
           "\n".join("#   op %d `%s`: %s" % (i, h[min(i, len(h) - 1)], t) for i, t in r["orc"]) + "\n" + r["ce"][-2500:]


def api_level(ctx, exe, histories):
    """runs all histories (batched, in parallel); two-phase decision; returns (evaluations, status, model outputs per history)"""
    batches, cur, n = [], [], 0
    for h in histories:
        cur.append(h)
        n += len(h)
        if n >= 6000:
            batches.append(cur)
            cur, n = [], 0
    if cur:
        batches.append(cur)
    model_exe(ctx)

    stop = threading.Event()    # a violating tree is decided by its first failing batch: do not wait for 20 more hangs

    def run_batch(bs):
        lines = [l for h in bs for l in h]
        if stop.is_set():
            mout = run_model(ctx, lines, timeout=120 + len(lines) // 20)
            res, pos = [], 0
            for h in bs:
                res.append((h, mout[pos:pos + len(h)], mout[pos:pos + len(h)], [], None))   # not run on the implementation
                pos += len(h)
            return res, "ok"
        cout, mout, status, cerr = run_both(ctx, exe, lines, wd=10)
        res, pos = [], 0
        for h in bs:
            co, mo = cout[pos:pos + len(h)], mout[pos:pos + len(h)]
            pos += len(h)
            res.append((h, co, mo, oracle(h, co), C.diff_streams(co, mo)))
        if status != "ok" or any(r[3] for r in res):
            stop.set()
        return res, status
    from concurrent.futures import ThreadPoolExecutor
    with ThreadPoolExecutor(max_workers=8) as ex:
        results = list(ex.map(run_batch, batches))
    status = "ok"
    mouts = []
    first_orc = None
    first_orc_batch = None
    first_corr = None
    for res, st in results:
        if st != "ok" and status == "ok":
            status = st
        for h, co, mo, orc, dd in res:
            mouts.append(mo)
            if orc and first_orc is None:
                first_orc = h
                first_orc_batch = [x[0] for x in res]
            if dd is not None and first_corr is None:
                first_corr = h
        if st != "ok" and first_orc is None:
            # sanitizer report / crash without an oracle finding: find the history that reproduces it alone
            for h, co, mo, orc, dd in res:
                r = one_history(ctx, exe, h)
                if r["st"] != "ok" or r["orc"]:
                    first_orc = h
                    break
            if first_orc is None:
                ctx.problem("corr", "a batch of histories ended with status %s but no single history reproduces it" % st,
                            "\n".join(l for h, *_ in res for l in h)[:200000], found_input=False)
    # (1) the property itself, evaluated on the implementation: a hit is a concrete failing input
    if first_orc is not None and first_orc_batch is not None:
        r0 = one_history(ctx, exe, first_orc, wd=60)
        if r0["st"] == "ok" and not r0["orc"]:
            # not reproducible alone: either an earlier history of the batch is the cause, or the harness was starved
            # (its per-operation watchdog fired on a loaded machine).  Run the batch again with a generous watchdog.
            lines = [l for h in first_orc_batch for l in h]
            cout, mout, st2, cerr = run_both(ctx, exe, lines, wd=120)
            pos, again = 0, None
            for h in first_orc_batch:
                co = cout[pos:pos + len(h)]
                pos += len(h)
                if oracle(h, co):
                    again = h
                    break
            if again is None and st2 == "ok":
                ctx.log("API level: a batch failed once and is clean when run again (watchdog on a loaded machine): not a finding")
                first_orc = None
                if status != "ok":
                    status = "ok"
            elif again is not None:
                first_orc = again
    if first_orc is not None:
        def fails_prop(sub):
            if not in_contract(normalise(sub)):
                return False
            r = one_history(ctx, exe, normalise(sub), wd=3)
            return r["st"] != "ok" or bool(r["orc"])
        small = normalise(C.ddmin(first_orc, budgeted(fails_prop, 40), max_tests=200))
        r = one_history(ctx, exe, small)
        if r["st"] == "ok" and not r["orc"]:
            small = first_orc
            r = one_history(ctx, exe, small)
        why = "; ".join("after `%s`: %s" % (small[min(i, len(small) - 1)], t) for i, t in r["orc"][:3]) or ("sanitizer/exit status %s" % r["st"])
        # diagnosis only: does the model of the code BEFORE patches/gc-stale-gcrefs.diff (unguarded decrement in
        # gc_trace_refs) predict exactly this behaviour?
        note = ""
        try:
            lo = run_model(ctx, ["new legacy" if l == "new" else l for l in small])
            strip = lambda out: [x for x, l in zip(out, small) if l != "close"]
            if strip(lo) == strip(r["co"]) and strip(lo) != strip(r["mo"]):
                note = " [the implementation behaves line by line like the model of the unrepaired code: stale GCH_MOVED decremented to GCH_UNREACHABLE by gc_trace_refs, see patches/gc-stale-gcrefs.diff]"
        except Exception:
            pass
        ctx.problem("impl", "lib/val.c breaks C07 on a %d-op history (status %s): %s%s" % (len(small) - 2, r["st"], why, note),
                    replay_text(small, r), found_input=True)
    return sum(len(h) for h in histories), status, mouts, first_corr


def report_api_corr(ctx, exe, first_corr):
    """(2) correspondence with the Lean model: only reported when the oracle is clean on everything"""
    if True:
        def fails_corr(sub):
            return in_contract(normalise(sub)) and one_history(ctx, exe, normalise(sub))["corr"] is not None
        small = normalise(C.ddmin(first_corr, budgeted(fails_corr, 40), max_tests=200))
        r = one_history(ctx, exe, small)
        if r["corr"] is None:
            small = first_corr
            r = one_history(ctx, exe, small)
        k = r["corr"] if r["corr"] is not None else 0
        ctx.problem("corr", "correspondence broken: val.c and HawkModel.Gc differ on a %d-op history although the implementation "
                    "satisfies the property oracle on all generated histories and programs: op `%s`: impl %r vs model %r (the theorems of "
                    "Props/C07 - ledger, safety, acyclic_immediate, cyclic_by_full_gc, teardown_empty - are about the model)" % (
                        len(small) - 2, small[min(k, len(small) - 1)], r["co"][k] if k < len(r["co"]) else "<no output>",
                        r["mo"][k] if k < len(r["mo"]) else "<none>"),
                    "# correspondence HawkModel.Gc <-> lib/val.c no longer holds; first differing line is op %d\n" % k + replay_text(small, r),
                    found_input=False)


# ----------------------------------------------------------------------------------------------
# language level: generated hawk programs
# ----------------------------------------------------------------------------------------------
NVARS = 5


def gen_abstract(rng, n):
    """abstract statements; rendered against the tracked variable state (inapplicable ones are skipped)"""
    ops = [("storage", rng.choice(["named", "named", "global", "local"]))]
    if rng.random() < 0.35:
        ops.append(("thr", 0, rng.choice([1, 2, 3, 4, 6])))
        if rng.random() < 0.6:
            ops.append(("thr", 1, rng.choice([1, 2, 3])))
        if rng.random() < 0.6:
            ops.append(("thr", 2, rng.choice([1, 2, 3])))
    oldyoung = rng.random() < 0.5
    young, old = set(), set()         # variables believed to hold a container allocated after / before the last collection
    for _ in range(n):
        k = rng.random()
        v = rng.randrange(NVARS)
        w = rng.randrange(NVARS)
        if oldyoung and rng.random() < 0.6:
            z = rng.random()
            if not young or (not old and z < 0.25):
                if old or z < 0.5 or not young:
                    v = rng.choice([x for x in range(NVARS) if x not in old] or list(range(NVARS)))
                    ops.append(("new", v, rng.choice(["map", "array", "array", "idx", "call", "data-array", "data-map"]), rng.randrange(NVARS), rng.randrange(NVARS)))
                    young.add(v)
                    old.discard(v)
                else:
                    ops.append(("gc", rng.choice([0, 0, 1])))
                    old |= young
                    young = set()
            elif z < 0.35 and old:
                ops.append(("link", rng.choice(sorted(young)), rng.choice(sorted(old))))
            elif z < 0.55:
                ops.append(("link", rng.choice(sorted(young)), rng.choice(sorted(young))))
            elif z < 0.80:
                v = rng.choice(sorted(young))
                ops.append(("nil", v))
                young.discard(v)
            else:
                ops.append(("gc", rng.choice([0, 0, 0, 1])))
                old |= young
                young = set()
            continue
        if k < 0.20:
            ops.append(("new", v, rng.choice(["map", "array", "array", "idx", "call", "data-array", "data-map"]), rng.randrange(NVARS), rng.randrange(NVARS)))
            young.add(v)
            old.discard(v)
        elif k < 0.45:
            ops.append(("link", v, w, rng.choice([0, 0, 0, 0, 0, 0, 0, 1, 1, 2])))   # 1: the store is done by a callee, 2: by a callee invoked through hawk::call
        elif k < 0.50:
            ops.append(("linkpath", v, w, rng.randrange(4)))
        elif k < 0.57:
            ops.append(("unlink", v, rng.randrange(4)))
        elif k < 0.60:
            ops.append(("relink", v, w, rng.randrange(4)))
        elif k < 0.62:
            ops.append(("restore", v, rng.randrange(4)))        # the element is stored again into its own slot
        elif k < 0.65:
            ops.append(("clear", v))
        elif k < 0.70:
            ops.append(("copy", v, w, rng.choice([0, 0, 0, 1, 2])))   # 1: the value travels through a call and its return, 2: it is stored through a by-reference parameter (hawk_rtx_setrefval in hawk_rtx_evalcall)
        elif k < 0.73:
            ops.append(("getchild", v, w, rng.randrange(4)))
        elif k < 0.735:
            ops.append(("splitinto", v))
        elif k < 0.765:
            ops.append(("asort", v, rng.random() < 0.7))        # asort / asorti into a second container: a built-in's result as a holder of the elements                         # a built-in creates a container and stores it through a reference to an element
        elif k < 0.87:
            ops.append(("nil", v))
            young.discard(v)
            old.discard(v)
        elif k < 0.94:
            ops.append(("gc", rng.choice(GC_ARGS + ["none"])))
            old |= young
            young = set()
        elif k < 0.96:
            # a loop that makes cyclic garbage referring to a held container: collections are triggered by allocation
            # pressure alone (with the default thresholds 100/20/10 when the count is large, as in real programs)
            ops.append(("churn", rng.choice([3, 10, 10, 40, 40, 120, 120, 300] + ([2300] if rng.random() < 0.15 else [])), v))
        elif k < 0.965:
            # the same garbage made in a local of a NESTED block: the slot lives in the outermost block's frame and is
            # released/reset each time the nested block is entered again (run.c run_block0, nlcls != org_nlcls)
            ops.append(("churn2", rng.choice([2, 3, 3, 10, 40, 120]), v))
        elif k < 0.97:
            ops.append(("observe", v))
        else:
            ops.append(("thr", rng.choice([-1, 0, 1, 2, 5]), rng.choice([-3, 0, 1, 2, 3, 50])))
    # the way the program ends, and (for exit / error) the place where the end strikes: see END_CONTEXTS
    ops.append(("end", rng.choice(["normal", "exit", "exit", "error", "error", "dropall"]), rng.randrange(len(END_CONTEXTS)),
                rng.random() < 0.5))
    return ops


# Functions available to every generated program.
PRELUDE = """function lnk_(p_, c_, k_) { p_[k_] = c_; return p_; }
function idf_(s_, m_) { return m_; }
function setref_(&r_, m_) { r_ = m_; return 1; }
function mk_(n_) { @local m_; m_[1] = "value-" n_; return m_; }
function mk2_(n_) { @local m_; m_["k"] = "value-" n_; m_["self"] = m_; return m_; }
function f2_(a_, b_) { return 1; }
function f3_(a_, b_, c_) { return 1; }
function fail_(how_) { @local z_; z_ = 0; if (how_ == 1) exit 3; return 1 / z_; }
function deep_(d_, m_, how_) { @local t_; t_[1] = m_; t_[2] = t_; if (d_ > 0) return deep_(d_ - 1, t_, how_); return f2_("x-" d_, fail_(how_)); }
function holdfail_(m_, how_) { @local a_, b_; a_[1] = m_; b_ = hawk::array(); b_[0] = a_; b_[1] = b_; return f3_(a_, "t-" how_, fail_(how_)); }
"""

# Where an `exit` or a run-time error strikes.  {F} = the failing expression (1 / vzero, or a call of fail_() that
# divides by zero or executes exit), {K} = a variable holding a container (contexts with {K} are skipped when there
# is none).  Values evaluated before the failure (fresh strings, fresh maps, held containers, locals of the frames
# being unwound, the for-in key stack) must all be released by the time the runtime is closed.
END_CONTEXTS = [
    None,                                              # the plain statement: `exit 3;` / `print 1 / vzero;`
    'f3_("first-" vzero, "second-" vzero, {F});',      # later argument of a user function, fresh strings before it
    'f2_({K}, {F});',                                  # a held container evaluated before the failing argument
    'f2_(mk2_(1), {F});',                              # a fresh cyclic map returned by a call, then the failing argument
    'vtmp_ = substr("some-text-" vzero, {F});',        # built-in function
    '{K}[7] = f2_("s-" vzero, {F});',                  # right-hand side of an element assignment
    'deep_(3, mk2_(2), {H});',                         # several frames with locals holding containers are unwound
    'for (kk_ in {K}) {{ f2_("k-" kk_, {F}); }}',       # inside for-in
    'print "a-" vzero, {F};',                          # print argument list
    'vtmp_ = "pre-" vzero ("mid-" {F});',              # concatenation
    '{K}[{F}] = {K};',                                 # index expression
    'holdfail_({K}, {H});',                            # locals (map and array, cyclic) alive in the frame that fails
    'vtmp_ = f3_(mk_(1), mk2_(2), {F}) f2_("z", 1);',  # two fresh containers before the failing argument
    'hawk::call("f3_", "first-" vzero, mk2_(3), {F});', # the call is made through hawk::call (its own argument pushing)
    'vtmp_ = hawk::array(mk_(4), "s-" vzero, {F});',    # container constructor with a failing later argument
]


def render(aops):
    """-> (hawk program text, model op lines, expectation plan)
    plan: list of ('S', [id or None per variable]) / ('gc',) / ('thr',) in the order of the program's output lines"""
    var = [None] * NVARS                  # variable -> model id
    slots = {}                            # id -> list of (key, child id)
    isarr = {}

    def newkey(p):
        """smallest index/key not in use, from 0 (index 0 of an array included); 1 is the leaf element"""
        used = {k for k, _ in slots[p]}
        k = 0
        while k == 1 or k in used:
            k += 1
        return k

    model = ["new"] + ["alloc m"] * PREALLOC_CLI
    nid = [PREALLOC_CLI]
    stmts = []
    plan = []
    T = Ideal()
    fullgc = [False]
    churn2_done = [False]
    sorted_var = [None]                   # what the extra variable vs_ (destination of asort/asorti) holds
    for _ in range(PREALLOC_CLI):
        T.alloc()

    def refs_ideal(i):
        return T.holders.get(i, 0) + sum(ks.count(i) for ks in T.kids.values())

    def status():
        args = ", ".join("hawk::gcrefs(v%d)" % i for i in range(NVARS))
        # the first container element of every variable's container is read back through the container
        eids, eargs = [], []
        for vi, i in enumerate(var):
            if i is not None and slots.get(i):
                eids.append(slots[i][0][1])
                eargs.append("hawk::gcrefs(v%d[%d])" % (vi, slots[i][0][0]))
            else:
                eids.append(None)
                eargs.append("0")
        stmts.append('print "S", %s, %s, hawk::gc_get_pressure(0), hawk::gc_get_pressure(1), hawk::gc_get_pressure(2);' % (args, ", ".join(eargs)))
        # specification-level expectation: holders + elements of REACHABLE containers referring to the object
        # (T is pruned to the reachable part); exact right after a full collection, a lower bound otherwise
        ideal = [None if i is None else refs_ideal(i) for i in list(var) + eids]
        plan.append(("S", list(var) + eids, ideal, bool(fullgc[0]), len(model)))
        fullgc[0] = False

    def alive(i):
        return i is not None and i in T.reachable()

    def drop(i):
        model.append("drop %d" % i)
        T.holders[i] -= 1

    def pick(start, pred):
        """the variable asked for, or the next one (cyclically) whose container fits: keeps abstract ops applicable"""
        for d in range(NVARS):
            vi = (start + d) % NVARS
            if var[vi] is not None and pred(var[vi]):
                return vi
        return start

    storage = "named"
    for a in aops:
        k = a[0]
        if k == "storage":
            storage = a[1]
            continue
        if k in ("link", "copy") and len(a) > 2:
            a = (k, pick(a[1], lambda i: True) if k == "link" else a[1], pick(a[2], lambda i: True)) + tuple(a[3:])
        elif k in ("linkpath", "relink"):
            a = (k, pick(a[1], lambda i: bool(slots[i])), pick(a[2], lambda i: True)) + tuple(a[3:])
        elif k in ("unlink", "restore"):
            a = (k, pick(a[1], lambda i: bool(slots[i]))) + tuple(a[2:])
        elif k == "getchild":
            a = (k, a[1], pick(a[2], lambda i: bool(slots[i]))) + tuple(a[3:])
        elif k in ("clear", "splitinto"):
            a = (k, pick(a[1], lambda i: True))
        elif k == "asort":
            a = (k, pick(a[1], lambda i: bool(slots[i]) and not isarr[i]), a[2])
        if k == "new":
            v, how = a[1], a[2]
            old = var[v]
            if how == "idx" and old is not None:
                continue
            i = nid[0]
            nid[0] += 1
            T.alloc()
            slots[i] = []
            isarr[i] = how in ("array", "data-array")
            model.append("alloc %s" % ("a" if isarr[i] else "m"))
            if how == "idx":
                stmts.append("v%d[1] = 1;" % v)
            elif how == "call":
                stmts.append("v%d = mk_(%d);" % (v, i))
            elif how in ("data-array", "data-map"):
                # the constructors store their arguments: hawk::array(x, y) fills indices 1, 2; hawk::map(k, x, ...) the keys
                srcs = [w for w in dict.fromkeys(a[3:5]) if var[w] is not None][:2] if len(a) > 4 else []
                args = []
                for n, w in enumerate(srcs):
                    key = (1 + n) if isarr[i] else (2 + n)
                    slots[i].append((key, var[w]))
                    T.kids[i].append(var[w])
                    model.append("link %d %d" % (i, var[w]))
                    args.append("v%d" % w if isarr[i] else "%d, v%d" % (key, w))
                stmts.append("v%d = hawk::%s(%s);" % (v, "array" if isarr[i] else "map", ", ".join(args)))
            else:
                stmts.append("v%d = hawk::%s(); v%d[1] = \"leaf\" %d;" % (v, how, v, i))
            if old is not None:
                drop(old)
            var[v] = i
        elif k == "link":
            p, c = var[a[1]], var[a[2]]
            if p is None or c is None or len(slots[p]) > 30:
                continue
            key = newkey(p)
            slots[p].append((key, c))
            T.kids[p].append(c)
            model.append("link %d %d" % (p, c))
            if len(a) > 3 and a[3] == 2:
                stmts.append("hawk::call(\"lnk_\", v%d, v%d, %d);" % (a[1], a[2], key))
            elif len(a) > 3 and a[3]:
                stmts.append("lnk_(v%d, v%d, %d);" % (a[1], a[2], key))
            else:
                stmts.append("v%d[%d] = v%d;" % (a[1], key, a[2]))
        elif k == "linkpath":
            p, c = var[a[1]], var[a[2]]
            if p is None or c is None or not slots[p]:
                continue
            key1, q = slots[p][a[3] % len(slots[p])]
            if len(slots[q]) > 30:
                continue
            key = newkey(q)
            slots[q].append((key, c))
            T.kids[q].append(c)
            model.append("link %d %d" % (q, c))
            stmts.append("v%d[%d][%d] = v%d;" % (a[1], key1, key, a[2]))
        elif k == "unlink":
            p = var[a[1]]
            if p is None or not slots[p]:
                continue
            key, c = slots[p].pop(a[2] % len(slots[p]))
            T.kids[p].remove(c)
            model.append("unlink %d %d" % (p, c))
            stmts.append("delete v%d[%d];" % (a[1], key))
        elif k == "relink":
            p, d = var[a[1]], var[a[2]]
            if p is None or d is None or not slots[p]:
                continue
            si = a[3] % len(slots[p])
            key, c = slots[p][si]
            slots[p][si] = (key, d)
            T.kids[p].remove(c)
            T.kids[p].append(d)
            model.append("relink %d %d %d" % (p, c, d))
            stmts.append("v%d[%d] = v%d;" % (a[1], key, a[2]))
        elif k == "restore":
            p = var[a[1]]
            if p is None or not slots[p]:
                continue
            key, c = slots[p][a[2] % len(slots[p])]
            model.append("relink %d %d %d" % (p, c, c))
            stmts.append("v%d[%d] = v%d[%d];" % (a[1], key, a[1], key))
        elif k == "clear":
            p = var[a[1]]
            if p is None:
                continue
            slots[p] = []
            T.kids[p] = []
            model.append("clear %d" % p)
            stmts.append("delete v%d;" % a[1])
        elif k == "copy":
            src = var[a[2]]
            if src is None or a[1] == a[2]:
                continue
            old = var[a[1]]
            model.append("root %d" % src)
            T.holders[src] += 1
            if old is not None:
                drop(old)
            var[a[1]] = src
            if len(a) > 3 and a[3] == 2:
                stmts.append("setref_(v%d, v%d);" % (a[1], a[2]))
            elif len(a) > 3 and a[3]:
                stmts.append("v%d = idf_(\"pad-\" vzero, v%d);" % (a[1], a[2]))
            else:
                stmts.append("v%d = v%d;" % (a[1], a[2]))
        elif k == "splitinto":
            p = var[a[1]]
            if p is None or len(slots[p]) > 30:
                continue
            key = newkey(p)
            i = nid[0]
            nid[0] += 1
            T.alloc()
            slots[i] = []
            isarr[i] = False
            slots[p].append((key, i))
            T.kids[p].append(i)
            model += ["q alloc m", "q link %d %d" % (p, i), "drop %d" % i]     # fnc_split: makemapval + refup, setrefval (element), refdown
            T.holders[i] -= 1
            stmts.append('vtmp_ = split("p q r", v%d[%d]);' % (a[1], key))
        elif k == "asort":
            p = var[a[1]]
            if p is None or not slots[p] or isarr[p]:
                continue
            if a[2] and len(slots[p]) != 1:
                a = (a[0], a[1], False)                # two containers cannot be compared with each other: asorti then
            i = nid[0]
            nid[0] += 1
            T.alloc()
            slots[i] = []
            isarr[i] = False
            model.append("q alloc m")                  # fnc_asort: the result map, held by the destination variable vs_
            if a[2]:
                for _, c in slots[p]:                  # asort: the result refers to every element of the source
                    model.append("q link %d %d" % (i, c))
                    T.kids[i].append(c)
            if sorted_var[0] is not None:
                model.append("q drop %d" % sorted_var[0])
                T.holders[sorted_var[0]] -= 1
            sorted_var[0] = i
            model.append("thr 0 -1")
            stmts.append("vtmp_ = %s(v%d, vs_);" % ("asort" if a[2] else "asorti", a[1]))
        elif k == "getchild":
            p = var[a[2]]
            if p is None or not slots[p]:
                continue
            key, c = slots[p][a[3] % len(slots[p])]
            old = var[a[1]]
            model.append("root %d" % c)
            T.holders[c] += 1
            if old is not None:
                drop(old)
            var[a[1]] = c
            stmts.append("v%d = v%d[%d];" % (a[1], a[2], key))
        elif k == "nil":
            old = var[a[1]]
            if old is None:
                continue
            drop(old)
            var[a[1]] = None
            stmts.append("v%d = @nil;" % a[1])
        elif k == "churn":
            n, kv = a[1], var[a[2]]
            for _ in range(n):
                j = nid[0]
                nid[0] += 1
                T.alloc()
                slots[j] = []
                isarr[j] = False
                model.append("q alloc m")          # q: executed by the driver without a dump line
                if kv is not None:
                    model.append("q link %d %d" % (j, kv))
                model.append("q link %d %d" % (j, j))
                model.append("q drop %d" % j)
                T.holders[j] -= 1
                T.prune()
            model.append("thr 0 -1")                  # changes nothing; makes the driver dump the state after the loop
            stmts.append("for (i_ = 0; i_ < %d; i_++) { t_[1] = %s; t_[2] = t_; t_ = @nil; }" % (n, ("v%d" % a[2]) if kv is not None else "i_"))
        elif k == "churn2":
            if churn2_done[0]:
                continue      # sibling nested blocks share their slots: one such loop per program keeps the model simple
            churn2_done[0] = True
            n, kv = a[1], var[a[2]]
            prev = None
            for _ in range(n):
                if prev is not None:
                    model.append("q drop %d" % prev)      # re-entering the block releases what the slot still holds
                    T.holders[prev] -= 1
                j = nid[0]
                nid[0] += 1
                T.alloc()
                slots[j] = []
                isarr[j] = False
                model.append("q alloc m")
                if kv is not None:
                    model.append("q link %d %d" % (j, kv))
                    T.kids[j].append(kv)
                model.append("q link %d %d" % (j, j))
                T.kids[j].append(j)
                prev = j
                T.prune()
            # the container of the last iteration stays held by the slot until the outermost block is left
            model.append("thr 0 -1")
            stmts.append("for (i_ = 0; i_ < %d; i_++) { @local tt_; tt_[1] = %s; tt_[2] = tt_; }" % (n, ("v%d" % a[2]) if kv is not None else "i_"))
        elif k == "observe":
            i = var[a[1]]
            stmts.append('print "O", hawk::ismap(v%d), hawk::isarray(v%d), hawk::isnil(v%d), hawk::typename(v%d), hawk::function_exists("lnk_");' % ((a[1],) * 4))
            plan.append(("O", "O 0 0 1 nil 1" if i is None else ("O 0 1 0 array 1" if isarr[i] else "O 1 0 0 map 1"), len(model)))
        elif k == "gc":
            if a[1] == "none":
                model.append("gc -1")
                stmts.append('print "G", hawk::gc();')
            else:
                model.append("gc %d" % a[1])
                stmts.append('print "G", hawk::gc(%d);' % a[1])
                fullgc[0] = a[1] >= 2
            plan.append(("R", len(model)))
        elif k == "thr":
            model.append("thr %d %d" % (a[1], a[2]))
            stmts.append('print "G", hawk::gc_set_threshold(%d, %d), hawk::gc_get_threshold(%d);' % (a[1], a[2], a[1]))
            plan.append(("T", len(model)))
        elif k == "end":
            if a[1] == "dropall":
                for v in range(NVARS):
                    if var[v] is not None:
                        drop(var[v])
                        var[v] = None
                        stmts.append("v%d = @nil;" % v)
                model.append("gc 2")
                stmts.append('print "G", hawk::gc(2);')
                fullgc[0] = True
                plan.append(("R", len(model)))
            elif a[1] in ("exit", "error"):
                tmpl = END_CONTEXTS[a[2] % len(END_CONTEXTS)] if len(a) > 2 else None
                held = [vi for vi in range(NVARS) if var[vi] is not None]
                how = 1 if a[1] == "exit" else 0
                fexpr = "fail_(%d)" % how if (how == 1 or (len(a) > 3 and a[3])) else "1 / vzero"
                if tmpl is not None and ("{K}" not in tmpl or held):
                    stmts.append(tmpl.format(F=fexpr, H=str(how), K="v%d" % held[0] if held else ""))
                # the plain form, in case the context above did not get to its failing expression
                stmts.append("exit 3;" if how == 1 else "print 1 / vzero;")
                stmts.append('print "not reached";')
                continue
            else:
                continue
        T.prune()
        status()
    # variables that were dropped while others still refer to their objects are handled by the model;
    # `slots` of objects that died are never used again because no variable names them
    names = ", ".join("v%d" % i for i in range(NVARS)) + ", vzero, vtmp_, i_, t_, vs_"
    body = "  vzero = 0;\n" + "\n".join("  " + s for s in stmts)
    if storage == "global":      # variables in the global slots of the runtime stack (released by refdown_globals)
        prog = "@global " + names + ";\n" + PRELUDE + "BEGIN {\n" + body + "\n}\n"
    elif storage == "local":     # variables in a call frame (released when the frame is unwound, also by exit / an error)
        prog = PRELUDE + "function body_() {\n  @local " + names + ", kk_;\n" + body + "\n}\nBEGIN { body_(); }\n"
    else:                        # implicit variables: the named-variable table (released by hawk_htb_close in fini_rtx)
        prog = PRELUDE + "BEGIN {\n" + body + "\n}\n"
    return prog, model, plan


def expected_cli(plan, mout):
    """expected stdout lines of the program from the model's dumps"""
    exp = []
    for p in plan:
        d = parse_dump(mout[p[-1] - 1])
        if p[0] == "S":
            vals = []
            for i in p[1]:
                if i is None:
                    vals.append("0")
                elif i in d["objs"]:
                    vals.append(str(d["objs"][i]["refs"] + 1))    # +1: the argument slot of hawk::gcrefs holds it
                else:
                    vals.append("FREED")
            exp.append("S " + " ".join(vals) + " %d %d %d" % (d["p"][0], d["p"][1], d["p"][2]))
        elif p[0] == "R":
            exp.append("G " + d["r"])
        elif p[0] == "O":
            exp.append(p[1])
        else:
            exp.append("G %s %s" % (d["r"], d["r"]))
    return exp


def run_cli(hawk, prog, scratch, tag="0"):
    pf = os.path.join(scratch, "c07prog-%s.hawk" % tag)
    with open(pf, "w") as f:
        f.write(prog)
    for attempt in range(3):
        rc, out, err = C.sh(["timeout", "-s", "KILL", "120", hawk, "-f", pf], timeout=140, env=C.ASAN_LEAK_ENV)
        if rc not in (126, 127):      # the binary could not be started (machine overloaded): not a verdict about hawk
            break
        time.sleep(1 + attempt)
    err = err.decode(errors="replace")
    st = C.classify_rc(rc, err)
    if rc in (-9, 137):
        st = "HANG"
    if "LeakSanitizer" in err:
        st = "LEAK"
    return rc, out.decode(errors="replace").split("\n")[:-1], err, st


def oracle_cli(plan, got, st, err, end):
    """C07 evaluated on the program's own output, independently of the Lean model: no sanitizer/leak report, the
    program ends the way it was written to end, hawk::gcrefs(v) - 1 never below holders + referring elements of
    reachable containers, and equal to it right after a full collection"""
    bad = []

    def name(vi):
        return "v%d" % vi if vi < NVARS else "first container element of v%d" % (vi - NVARS)
    if st in ("ASAN", "UBSAN", "LEAK", "HANG") or st.startswith("SIGNAL"):
        bad.append((len(got), "sanitizer/leak/crash status %s" % st))
    gi = 0
    for p in plan:
        if gi >= len(got):
            break
        line = got[gi]
        gi += 1
        if p[0] != "S":
            continue
        w = line.split()
        if w[0] != "S" or len(w) != 1 + 2 * NVARS + 3:
            bad.append((gi - 1, "unexpected output line %r" % line))
            break
        for vi, (i, ideal) in enumerate(zip(p[1], p[2])):
            v = int(w[1 + vi])
            if i is None:
                if v != 0:
                    bad.append((gi - 1, "%s is nil but gcrefs is %d" % (name(vi), v)))
                continue
            if v - 1 < ideal:
                bad.append((gi - 1, "%s: reference count %d is below its %d holder(s)+referring reachable element(s): early release ahead" % (name(vi), v - 1, ideal)))
            elif p[3] and v - 1 != ideal:
                bad.append((gi - 1, "%s: right after a full collection the reference count is %d but only %d holder(s)+referring reachable element(s) exist: leak" % (name(vi), v - 1, ideal)))
        if bad:
            break
    return bad


def cli_case(ctx, hawk, aops, tag="0", rendered=None, mout=None):
    prog, model, plan = rendered or render(aops)
    rc, out, err, st = run_cli(hawk, prog, ctx.scratch, tag)
    if mout is None:
        mout = run_model(ctx, model)
    exp = expected_cli(plan, mout)
    end = aops[-1][1] if aops and aops[-1][0] == "end" else "normal"
    ok_status = (st == "ok") if end in ("normal", "dropall") else (st in ("EXIT3",) if end == "exit" else (st == "EXIT255" and "divide by zero" in err))
    got = [l for l in out if l.startswith(("S ", "G ", "O "))]
    d = C.diff_streams(got, exp)
    if d is None and not ok_status:
        d = len(got)
    return dict(orc=oracle_cli(plan, got, st, err, end), corr=d, got=got, exp=exp, st=st, err=err, prog=prog, model=model)


def cli_text(r):
    return "# run: hawk -f <file> with ASAN_OPTIONS=detect_leaks=1 (sanitized build)\n" + r["prog"] + \
           "\n# got:\n" + "\n".join(r["got"]) + "\n# expected (from the model):\n" + "\n".join(r["exp"]) + \
           "\n# model ops:\n" + "\n".join(r["model"]) + "\n# property oracle:\n" + \
           "\n".join("#   output line %d: %s" % (i, t) for i, t in r["orc"]) + "\n# stderr:\n" + r["err"][-2500:]


def cli_level(ctx, libdir, ncases, defer_corr_to_after, sigs_out=None):
    # private copy: the shared build cache may be pruned by a concurrent check while this one is running
    hawk = os.path.join(ctx.scratch, "hawk-c07")
    if not os.path.exists(hawk):
        shutil.copy(os.path.join(libdir, "hawk"), hawk)
    rng = ctx.rng
    evals = 0
    ends = {}
    # a trivial program must be leak-clean, otherwise LeakSanitizer findings mean nothing here
    rc, out, err, st = run_cli(hawk, 'BEGIN { print "hello"; }\n', ctx.scratch)
    if st == "LEAK" and re.search(r"in hawk_\w+ ", err):
        # blocks obtained by the runtime itself are not given back when it is closed: the property fails on the simplest input
        ctx.problem("impl", "hawk 'BEGIN { print \"hello\"; }' leaves host blocks behind when the runtime is closed (LeakSanitizer)",
                    "# run: hawk -f <file> with ASAN_OPTIONS=detect_leaks=1\nBEGIN { print \"hello\"; }\n# stderr:\n" + err[-3000:], found_input=True)
        return 1, ends
    if st != "ok":
        ctx.problem("corr", "the sanitized CLI is not clean on a trivial program (%s): leak detection unusable" % st,
                    err[-2000:], found_input=False)
        return 0, ends
    from concurrent.futures import ThreadPoolExecutor

    def run_fixed(a):
        k, (prog, want) = a
        rc, out, err, st = run_cli(hawk, prog, ctx.scratch, "f%d" % k)
        return prog, want, "\n".join(out), err, st
    with ThreadPoolExecutor(max_workers=8) as ex:
        fixed = list(ex.map(run_fixed, enumerate(FIXED_PROGRAMS)))
    for prog, want, got, err, st in fixed:
        evals += 1
        if st != "ok" or got.strip() != want.strip():
            # these programs state the property themselves (count back to baseline, leak-free exit): an oracle hit
            ctx.problem("impl", "fixed C07 program: status %s, output %r (the property demands %r and a leak-free exit)" % (st, got[:200], want),
                        "# run: hawk -f <file> with ASAN_OPTIONS=detect_leaks=1\n" + prog + "\n# stderr:\n" + err[-2500:], found_input=True)
            return evals, ends
    cases = [gen_abstract(rng, rng.randrange(3, 22)) for _ in range(ncases)]
    rendered = [render(a) for a in cases]
    # one driver run for all programs (each model script starts with `new`)
    allm = [l for r in rendered for l in r[1]]
    allout = run_model(ctx, allm, timeout=120 + len(allm) // 20)
    mouts, pos = [], 0
    for r in rendered:
        mouts.append(allout[pos:pos + len(r[1])])
        pos += len(r[1])
    with ThreadPoolExecutor(max_workers=8) as ex:
        results = list(ex.map(lambda a: cli_case(ctx, hawk, cases[a], "g%d" % a, rendered[a], mouts[a]), range(len(cases))))
    if sigs_out is not None:
        for r, mo in zip(rendered, mouts):
            sigs_out.append((r[1], mo))
    evals += len(cases)
    for aops in cases:
        ends[aops[-1][1]] = ends.get(aops[-1][1], 0) + 1
        if aops[-1][1] in ("exit", "error") and len(aops[-1]) > 2:
            ck = "%s@context%d" % (aops[-1][1], aops[-1][2] % len(END_CONTEXTS))
            ends[ck] = ends.get(ck, 0) + 1
    first_orc = next((a for a, r in zip(cases, results) if r["orc"]), None)
    first_corr = next((a for a, r in zip(cases, results) if r["corr"] is not None), None)
    if first_orc is not None:
        body, endop = first_orc[:-1], first_orc[-1]
        small = C.ddmin(body, budgeted(lambda sub: bool(cli_case(ctx, hawk, list(sub) + [endop], "s")["orc"]), 40), max_tests=120)
        r = cli_case(ctx, hawk, list(small) + [endop], "s")
        if not r["orc"]:
            small = body
            r = cli_case(ctx, hawk, list(small) + [endop], "s")
        ctx.problem("impl", "hawk program (%d statements, end=%s) breaks C07: status %s; %s" % (
            len(small), endop[1], r["st"], "; ".join("output line %d: %s" % x for x in r["orc"][:3])), cli_text(r), found_input=True)
    elif first_corr is not None and not defer_corr_to_after["api"]:
        body, endop = first_corr[:-1], first_corr[-1]
        small = C.ddmin(body, budgeted(lambda sub: cli_case(ctx, hawk, list(sub) + [endop], "s")["corr"] is not None, 40), max_tests=120)
        r = cli_case(ctx, hawk, list(small) + [endop], "s")
        if r["corr"] is None:
            small = body
            r = cli_case(ctx, hawk, list(small) + [endop], "s")
        k = r["corr"] if r["corr"] is not None else 0
        ctx.problem("corr", "correspondence broken at the language level: a hawk program (%d statements, end=%s, status %s) prints %r where "
                    "HawkModel.Gc predicts %r (output line %d) although the property oracle is clean on all generated programs "
                    "(the theorems of Props/C07 are about the model)" % (
                        len(small), endop[1], r["st"], r["got"][k] if k < len(r["got"]) else "<none>",
                        r["exp"][k] if k < len(r["exp"]) else "<none>", k), cli_text(r), found_input=False)
    return evals, ends



# ----------------------------------------------------------------------------------------------
# language level, second family: values handed from one holder to the next (leaf values: floats, boxed integers,
# strings; fields of the record as holders).  A value produced by an increment / decrement / assignment form on a
# variable, a container element or a FIELD is kept by the program and must still be the same value after the
# free lists and caches have been churned: a result that was released on its way (returned with no reference held
# and passed through a conversion that takes and drops one) is handed out again by the next allocation and changes
# under its holder.  ASan does not see this class (floats and boxed integers live in chunks with their own free
# lists, freed strings go to a cache), so the oracle is the program's own output: line B must repeat line A, and
# the identity between the result and the target (an AWK-level truth) must print 1; plus ASan/LeakSanitizer status.
# ----------------------------------------------------------------------------------------------
VF_PRELUDE = """function use_(x_) { return x_; }
function hold_(a_, b_) { return a_; }
function churn_() { @local i_, f_, g_, s_, b_; for (i_ = 0; i_ < 60; i_++) { f_ = i_ + 0.5; g_ = f_ * 1.25; s_ = "c" i_; s_ = s_ s_ s_; b_ = 4611686018427387904 + i_; } return 0; }
"""
VF_TARGETS = [      # (name, statements that give the target the value {V}, the target expression, positional?)
    ("variable", 'x = {V};', 'x', False),
    ("map element", 'm["k"] = {V};', 'm["k"]', False),
    ("array element", 'a = hawk::array(); a[2] = {V};', 'a[2]', False),
    ("nested element", 'm["k"][3] = {V};', 'm["k"][3]', False),
    ("field", '$0 = "f1 f2 f3"; $2 = {V};', '$2', True),
    ("field by expression", '$0 = "f1 f2 f3"; two = 2; $2 = {V};', '$(two)', True),
    ("last field", '$0 = "f1 f2 f3"; $NF = {V};', '$NF', True),
    ("record", '$0 = {V};', '$0', True),
    ("field beyond NF", '$0 = "f1"; $3 = {V};', '$3', True),
]
VF_VALUES = ['1.5', '-0.25', '"2.5"', '"abc"', '4611686018427387904', '7', '"  3.5x"']
VF_FIELDVALUES = ['2.5', 'abc', '4611686018427387904', '0x10', '1e2']   # the field gets its value from the record text
VF_FORMS = [        # (form with {T}, identity between the result r and the target afterwards with {T})
    ('++{T}', 'r == {T}'), ('--{T}', 'r == {T}'), ('{T}++', 'r + 1 == {T}'), ('{T}--', 'r - 1 == {T}'),
    ('{T} += 1.5', 'r == {T}'), ('{T} -= 0.5', 'r == {T}'), ('{T} *= 2', 'r == {T}'), ('{T} /= 2', 'r == {T}'),
    ('{T} %= 2', 'r == {T}'), ('{T} **= 2', 'r == {T}'), ('{T} = {T} + 0.5', 'r == {T}'), ('{T} = {T} "z"', 'r == {T}'),
    ('{T} = -{T}', 'r == {T}'), ('{T} = {T}', 'r == {T}'), ('{T} = 0.75', 'r == {T}'), ('{T} = "s-" {T}', 'r == {T}'),
    ('{T} = 4611686018427387904 + 1', 'r == {T}'),
]
VF_USES = ['r = ({F});', 'r = use_(({F}));', 'keep[1] = ({F}); r = keep[1];', 'r = hold_(({F}), churn_());']
VF_STORAGE = ["named", "local", "global"]


def vf_cases():
    out = []
    for ti, t in enumerate(VF_TARGETS):
        vals = [("lit", v) for v in VF_VALUES] + ([("fld", v) for v in VF_FIELDVALUES] if t[0] in ("field", "field by expression") else [])
        for v in vals:
            for fi in range(len(VF_FORMS)):
                for ui in range(len(VF_USES)):
                    for st in VF_STORAGE:
                        out.append((ti, v, fi, ui, st))
    return out


def vf_render(case):
    ti, (vk, v), fi, ui, st = case
    name, init, T, positional = VF_TARGETS[ti]
    if vk == "fld":
        init = '$0 = "f1 %s f3";%s' % (v, " two = 2;" if "two" in init else "")
    else:
        init = init.format(V=v)
    form, ident = VF_FORMS[fi]
    F = form.format(T=T)
    if positional:       # a field holds the string the value converts to: compare as the strings both convert to
        ident = ident.replace("r ", '(r "") ', 1) if False else '((%s) "") == ((%s) "")' % tuple(x.strip() for x in ident.format(T=T).split("=="))
    else:
        ident = ident.format(T=T)
    body = [init, VF_USES[ui].format(F=F), 'print "A", r, %s;' % T, 'churn_();', 'print "B", r, %s;' % T,
            'print "I", (%s);' % ident, 'r2 = r; r = @nil; churn_(); print "C", r2;']
    names = "x, m, a, two, r, r2, keep"
    text = "\n".join("  " + b for b in body)
    if st == "local":
        return VF_PRELUDE + "function body_() {\n  @local " + names + ";\n" + text + "\n}\nBEGIN { body_(); }\n"
    if st == "global":
        return "@global " + names + ";\n" + VF_PRELUDE + "BEGIN {\n" + text + "\n}\n"
    return VF_PRELUDE + "BEGIN {\n" + text + "\n}\n"


def vf_oracle(out, st, err):
    """-> list of findings (text); [] = the property holds on this program; None = the program ended with a run-time
    error of its own (not decided)"""
    if st in ("ASAN", "UBSAN", "LEAK", "HANG") or st.startswith("SIGNAL"):
        return ["sanitizer/leak/crash status %s" % st]
    if st != "ok":
        return None
    L = {l.split(" ", 1)[0]: (l.split(" ", 1) + [""])[1] for l in out if l[:2] in ("A ", "B ", "I ", "C ") or l in ("A", "B", "I", "C")}
    bad = []
    if L.get("A") != L.get("B"):
        bad.append("the kept result / the target changed while other values were allocated and released: before %r, after %r (a value was released while a holder still had it)" % (L.get("A"), L.get("B")))
    if "A" in L and "C" in L and L["A"].split(" ")[0:1] != L["C"].split(" ")[0:1] and " " not in L["C"]:
        bad.append("the result copied to another variable reads %r, it was %r" % (L.get("C"), L.get("A")))
    if L.get("I") != "1":
        bad.append("the result of the form and its target do not agree afterwards (identity printed %r)" % L.get("I"))
    return bad


def valueflow_level(ctx, libdir, n):
    hawk = os.path.join(ctx.scratch, "hawk-c07")
    if not os.path.exists(hawk):
        shutil.copy(os.path.join(libdir, "hawk"), hawk)
    cases = vf_cases()
    if n < len(cases):
        cases = ctx.rng.sample(cases, n)
    from concurrent.futures import ThreadPoolExecutor

    def run1(a):
        k, case = a
        prog = vf_render(case)
        rc, out, err, st = run_cli(hawk, prog, ctx.scratch, "v%d" % k)
        return case, prog, out, err, st, vf_oracle(out, st, err)
    with ThreadPoolExecutor(max_workers=8) as ex:
        results = list(ex.map(run1, enumerate(cases)))
    undecided = sum(1 for r in results if r[5] is None)
    stats = dict(programs=len(results), ended_by_own_runtime_error=undecided)
    for case, prog, out, err, st, orc in results:
        if orc:
            ti, v, fi, ui, stg = case
            ctx.problem("impl", "value flow: %s on a %s holding %s (%s, %s variables) breaks C07: %s" % (
                VF_FORMS[fi][0].format(T="T"), VF_TARGETS[ti][0], v[1], VF_USES[ui].format(F="F"), stg, "; ".join(orc)[:500]),
                "# run: hawk -f <file> with ASAN_OPTIONS=detect_leaks=1 (sanitized build); line B must repeat line A, line I must be 1\n" +
                prog + "\n# got:\n" + "\n".join(out) + "\n# stderr:\n" + err[-2500:], found_input=True)
            break
    return len(results), stats


# ----------------------------------------------------------------------------------------------
# language level, third family (oracle only): every way a call frame is built and torn down.
# A frame holds a reference on each argument while the callee runs (run.c hawk_rtx_evalcall: three different loops
# give them back - direct call with argument nodes, the fake call of hawk::call() for a callee WITH by-reference
# parameters, the trailing loop for everything else incl. hawk_rtx_callfun from C).  Cases = parameter lists of 1..3
# parameters, each by value or by reference (&) in every order x which variable (map / array / heap string) is bound
# to which parameter x direct call / hawk::call x the callee leaves its by-reference parameter alone / assigns it x
# the callee returns / fails with a run-time error / executes exit x variables named / local.  The property, evaluated
# on the program's own output: the reference count of each container (read through a second holder) is the same before
# and after three calls (one less when the callee replaced the caller's variable), and closing the runtime leaves no
# block behind (LeakSanitizer) also after error / exit.
# ----------------------------------------------------------------------------------------------
CF_VARS = ["m", "a", "s"]


def cf_cases():
    out = []
    for n in (1, 2, 3):
        for spec in itertools.product("vr", repeat=n):
            for rot in range(3):
                for touch in ((0, 1) if "r" in spec else (0,)):
                    for ending in ("normal", "error", "exit"):
                        for how in ("direct", "hcall"):
                            for st in ("named", "local"):
                                out.append(("".join(spec), rot, touch, ending, how, st))
    return out


def cf_render(case):
    """-> (program, expected difference after - before of gcrefs(keepm), gcrefs(keepa))"""
    spec, rot, touch, ending, how, st = case
    n = len(spec)
    args = [CF_VARS[(rot + i) % 3] for i in range(n)]
    params = ", ".join(("&p%d_" % i if spec[i] == "r" else "p%d_" % i) for i in range(n))
    body = ["cnt_++;"]
    dm = da = 0
    if touch:
        k = spec.index("r")
        body.append('p%d_ = "new-" cnt_;' % k)        # the caller's variable gets a fresh string: its old value loses that holder
        if args[k] == "m":
            dm = -1
        elif args[k] == "a":
            da = -1
    if ending == "error":
        body.append("zz_ = 0; return 1 / zz_;")
    elif ending == "exit":
        body.append("exit 3;")
    body.append("return 1;")
    fn = "function f_(%s) { %s }\n" % (params, " ".join(body))
    call = "r_ = f_(%s);" % ", ".join(args) if how == "direct" else 'r_ = hawk::call("f_", %s);' % ", ".join(args)
    main = ['vz_ = 0;', 'm[1] = "x" vz_; m[2] = "y";', 'a = hawk::array("p" vz_, 2);', 's = "str-" vz_;', 'keepm = m; keepa = a;',
            'print "B", hawk::gcrefs(keepm), hawk::gcrefs(keepa);',
            'for (i_ = 0; i_ < 3; i_++) { %s }' % call,
            'print "A", hawk::gcrefs(keepm), hawk::gcrefs(keepa);']
    text = "\n".join("  " + x for x in main)
    if st == "local":
        return fn + "function body_() {\n  @local m, a, s, keepm, keepa, vz_, i_, r_;\n" + text + "\n}\nBEGIN { body_(); }\n", (dm, da)
    return fn + "BEGIN {\n" + text + "\n}\n", (dm, da)


def cf_oracle(case, exp, out, st, err):
    spec, rot, touch, ending, how, stg = case
    L = {l.split(" ", 1)[0]: l.split()[1:] for l in out if l[:2] in ("B ", "A ")}
    bad = []
    if st in ("ASAN", "UBSAN", "LEAK", "HANG") or st.startswith("SIGNAL"):
        bad = ["closing the runtime left blocks behind / sanitizer status %s (a frame kept a reference on an argument)" % st]
        if "B" in L and "A" in L and len(L["B"]) == 2 and len(L["A"]) == 2:
            for name, b, a_, d in (("the map", L["B"][0], L["A"][0], exp[0]), ("the array", L["B"][1], L["A"][1], exp[1])):
                if int(a_) - int(b) != d:
                    bad.append("reference count of %s passed as an argument: %s before, %s after three calls (expected difference %d)" % (name, b, a_, d))
        return bad
    if "B" not in L:
        return ["the program did not get to its first output line (status %s): %s" % (st, err[-200:])]
    if ending == "normal":
        if st != "ok" or "A" not in L:
            return ["the program did not end normally (status %s): %s" % (st, err[-200:])]
        for name, b, a_, d in (("the map", L["B"][0], L["A"][0], exp[0]), ("the array", L["B"][1], L["A"][1], exp[1])):
            if int(a_) - int(b) != d:
                bad.append("reference count of %s passed as an argument is %s before and %s after three calls (expected difference %d): "
                           "the frame did not give back exactly the references it took" % (name, b, a_, d))
    elif ending == "error":
        if not (st == "EXIT255" and "divide by zero" in err):
            bad.append("expected the run-time error of the callee, got status %s" % st)
    else:
        if st != "EXIT3":
            bad.append("expected exit code 3 from the callee's exit, got status %s" % st)
    return bad


def callframe_level(ctx, libdir, nrandom):
    hawk = os.path.join(ctx.scratch, "hawk-c07")
    if not os.path.exists(hawk):
        shutil.copy(os.path.join(libdir, "hawk"), hawk)
    allc = cf_cases()
    # always: every parameter list x binding x touch through hawk::call and directly, normal ending, named variables
    fixed = [c for c in allc if c[3] == "normal" and c[5] == "named"]
    rest = [c for c in allc if not (c[3] == "normal" and c[5] == "named")]
    cases = fixed + (rest if nrandom >= len(rest) else ctx.rng.sample(rest, nrandom))
    from concurrent.futures import ThreadPoolExecutor

    def run1(a):
        k, case = a
        prog, exp = cf_render(case)
        rc, out, err, st = run_cli(hawk, prog, ctx.scratch, "c%d" % k)
        return case, prog, out, err, st, cf_oracle(case, exp, out, st, err)
    with ThreadPoolExecutor(max_workers=8) as ex:
        results = list(ex.map(run1, enumerate(cases)))
    stats = dict(programs=len(results), of=len(allc))
    for case, prog, out, err, st, orc in results:
        if orc:
            ctx.problem("impl", "call frame: f_(%s) called %s with (%s), callee %s its by-reference parameter and %s, %s variables, breaks C07: %s" % (
                ",".join("&" if x == "r" else "v" for x in case[0]), "through hawk::call" if case[4] == "hcall" else "directly",
                ",".join(CF_VARS[(case[1] + i) % 3] for i in range(len(case[0]))), "assigns" if case[2] else "leaves alone",
                dict(normal="returns", error="fails with a run-time error", exit="executes exit")[case[3]], case[5], "; ".join(orc)[:500]),
                "# run: hawk -f <file> with ASAN_OPTIONS=detect_leaks=1 (sanitized build); line A must equal line B (minus 1 where the callee replaced the variable)\n" +
                prog + "\n# got:\n" + "\n".join(out) + "\n# stderr:\n" + err[-2500:], found_input=True)
            break
    return len(results), stats


# programs with call frames, locals, returned containers, for-in, nested creation; (program, expected stdout or None)
FIXED_PROGRAMS = [
    # Every line these programs print is demanded by the property itself, not by the model: differences of
    # hawk::gcrefs() against a baseline are printed only right after a FULL collection, where the count of a held
    # container must be back to its holders + referring reachable elements; and the exit must be leak-free.
    # the reproducer of the stale-sentinel defect and its control
    ('BEGIN { x[1]=1; hawk::gc(0); b = hawk::gcrefs(x); y[1]=x; y[2]=y; y=@nil; hawk::gc(0); hawk::gc(2); print hawk::gcrefs(x) - b; }\n', "0"),
    ('BEGIN { x[1]=1; hawk::gc(0); b = hawk::gcrefs(x); y[1]=x; y=@nil; hawk::gc(0); hawk::gc(2); print hawk::gcrefs(x) - b; }\n', "0"),
    ('BEGIN { x = hawk::array(); x[1]=1; hawk::gc(1); b = hawk::gcrefs(x); y = hawk::array(); y[1]=x; y[2]=y; y=@nil; hawk::gc(1); hawk::gc(2); print hawk::gcrefs(x) - b; }\n', "0"),
    # twice-referenced old object
    ('BEGIN { x[1]=1; hawk::gc(0); b = hawk::gcrefs(x); y[1]=x; y[3]=x; y[2]=y; y=@nil; hawk::gc(0); hawk::gc(2); print hawk::gcrefs(x) - b; }\n', "0"),
    # element deleted outside a collection after a collection left a stale mark
    ('BEGIN { x[1]=1; hawk::gc(0); b = hawk::gcrefs(x); z[1]=x; y[1]=x; y[2]=y; y=@nil; hawk::gc(0); delete z[1]; hawk::gc(2); print hawk::gcrefs(x) - b; }\n', "0"),
    # the examples in the comment at the top of lib/val.c
    ('BEGIN { @local a, b, c, j, nil; j[1]=20; j[2]=20; for (i=1;i<10;i++) a[i]=i; a[9]=j; a[10]="world"; a[11]=a; a[12]=a; a[13]="hello"; j[3]=a; a[14]=j; a=nil; b[1]=a; c[1]=0; print "ok"; }\n', "ok"),
    ('BEGIN { @local a, b, c, nil; j[1]=20; j[2]=20; for (i=1;i<10;i++) a[i]=i; a[9]=j; a[10]="world"; a[11]=a; a[12]=a; a[13]="hello"; j[3]=a; a[14]=j; a=nil; j=nil; hawk::gc(); b[1]=a; c[1]=0; print "ok"; }\n', "ok"),
    # call frames and locals as holders, containers returned from functions, cyclic garbage made in a callee
    ('function f(m, n) { @local t; m[9]=n; t[1]=m; t[2]=t; return t; }\nBEGIN { a[1]=1; b[1]=1; hawk::gc(1); ba = hawk::gcrefs(a); bb = hawk::gcrefs(b); r=f(a,b); r=@nil; hawk::gc(2); print hawk::gcrefs(a) - ba, hawk::gcrefs(b) - bb; }\n', "0 1"),
    ('function g(d) { @local t; t[1]=1; if (d > 0) { t[2]=g(d-1); t[3]=t; } return t; }\nBEGIN { k[1]=1; b = hawk::gcrefs(k); for (i=0;i<40;i++) { x=g(3); x[9]=k; hawk::gc(i%3); } x=@nil; hawk::gc(2); print hawk::gcrefs(k) - b; }\n', "0"),
    # many allocations: collection by pressure with default thresholds, cycles dropped along the way
    ('BEGIN { k[1]=1; b = hawk::gcrefs(k); for (i=0;i<1500;i++) { a[1]=k; a[2]=a; keep[i%7]=a; a=@nil; } hawk::gc(2); print length(keep), hawk::gcrefs(k) - b; }\n', "7 7"),
    # 25000 allocations with the default thresholds: collections of every generation are triggered by pressure alone
    ('BEGIN { k[1]=1; b = hawk::gcrefs(k); for (i=0;i<25000;i++) { t[1]=k; t[2]=t; if (i % 1000 == 0) keep[i]=t; t=@nil; } delete keep; hawk::gc(2); print hawk::gcrefs(k) - b; }\n', "0"),
    # for-in over a map holding containers while the loop drops them
    ('BEGIN { k[1]=1; b = hawk::gcrefs(k); for (i=0;i<6;i++) { t[1]=k; t[2]=t; m[i]=t; t=@nil; } for (i in m) { delete m[i]; hawk::gc(0); } hawk::gc(2); print length(m), hawk::gcrefs(k) - b; }\n', "0 0"),
    # split into a container element that is part of a cycle
    ('BEGIN { k[1]=1; bk = hawk::gcrefs(k); a[1]=k; a[2]=a; n=split("p q r", a[3]); b=a; a=@nil; hawk::gc(1); c=length(b[3]); b=@nil; hawk::gc(2); print n, c, hawk::gcrefs(k) - bk; }\n', "3 3 0"),
]


# ----------------------------------------------------------------------------------------------
GEN_CONST = os.path.join(C.LEAN, "HawkModel", "Gen", "GcConst.lean")


def translate(ctx):
    """extract/gc_const.py: constants + phase skeleton of the collector from the checked tree -> Gen/GcConst.lean
    (Props/C07 consts_match_source is proved against it).  Returns the exception text on an unknown source shape."""
    import importlib.util
    try:
        spec = importlib.util.spec_from_file_location("gc_const", os.path.join(C.VERIF, "extract", "gc_const.py"))
        m = importlib.util.module_from_spec(spec)
        spec.loader.exec_module(m)
        vals = m.extract(C.REPO)
        if C.write_if_changed(GEN_CONST, m.render(vals)):
            ctx.log("extract: lean/HawkModel/Gen/GcConst.lean regenerated: %r" % vals)
        return None
    except Exception as e:
        return str(e)


def run(ctx):
    trans_err = translate(ctx)
    proof = C.prove(ctx, "HawkModel.Props.C07", leanchecker=(ctx.tier == "thorough"))
    libdir = C.build_libhawk(ctx)
    exe = C.cc_harness(ctx, os.path.join(C.VERIF, "harness", "gc_h.c"), link_lib=libdir)
    rng = ctx.rng
    histories = []
    cdir = os.path.join(C.VERIF, "corpus", "C07")
    if os.path.isdir(cdir):
        for f in sorted(os.listdir(cdir)):
            ls = [l.strip() for l in open(os.path.join(cdir, f)) if l.strip() and not l.startswith("#")]
            histories += split_histories(ls)
    ncorpus = len(histories)
    histories += exhaustive_small(ctx.tier)
    nexh = len(histories) - ncorpus
    nhist = 3000 if ctx.tier == "quick" else 80000
    for _ in range(nhist):
        histories.append(gen_history(rng, rng.randrange(4, 45)))
    for _ in range(120 if ctx.tier == "quick" else 3000):
        histories.append(gen_leaf_history(rng))
    ctx.log("generated %d histories" % len(histories))
    evaluations, status, mouts, api_corr = api_level(ctx, exe, histories)
    ctx.log("API level done: %d ops, status %s" % (evaluations, status))
    dist = {}
    for h in histories:
        for l in h:
            dist[l.split()[0]] = dist.get(l.split()[0], 0) + 1
    # branch coverage measured on the model's output: collections that freed something, cascades, ERR, auto collections
    br = dict(gc_freed=0, cascade_freed=0, rejected=0, auto_gc_in_alloc=0, auto_gc_freed=0, full_gc=0, freed_pointing_to_older=0)
    nontriv = {}           # branch signature -> first history with it (see NONTRIVIAL_RULE)
    nontriv_text = set()
    nontriv_hist = 0
    featc = {}
    for h, mo in zip(histories, mouts):
        prevd = None
        for op, line in zip(h, mo):
            d = parse_dump(line)
            if d is None:
                continue
            w = op.split()[0]
            if w == "gc" and d["freed"]:
                br["gc_freed"] += 1
            if w == "gc" and d["r"] == "2":
                br["full_gc"] += 1
            if w in ("drop", "unlink", "relink", "clear") and d["freed"]:
                br["cascade_freed"] += 1
            if d["r"] == "ERR":
                br["rejected"] += 1
            if w in ("alloc", "call") and prevd is not None and d["p"][1:] != prevd["p"][1:]:
                br["auto_gc_in_alloc"] += 1
                if d["freed"]:
                    br["auto_gc_freed"] += 1
            prevd = d
        if nontrivial_history(h, mo):
            br["freed_pointing_to_older"] += 1
        sg, feats = history_signature(h, mo)
        if feats:
            nontriv_hist += 1
            nontriv_text.add(tuple(h))
            if sg not in nontriv:
                nontriv[sg] = h
            for f in feats:
                featc[f] = featc.get(f, 0) + 1
    ncli = 500 if ctx.tier == "quick" else 10000
    cli_evals, ends = (0, {})
    vf_evals, vf_stats = (0, {})
    if not ctx.problems:
        # oracle-only family (leaf values handed from holder to holder, fields as holders); before any correspondence verdict
        vf_evals, vf_stats = valueflow_level(ctx, libdir, 400 if ctx.tier == "quick" else 10 ** 9)
        ctx.log("value-flow family done: %d programs" % vf_evals)
    cf_evals, cf_stats = (0, {})
    if not ctx.problems:
        cf_evals, cf_stats = callframe_level(ctx, libdir, 170 if ctx.tier == "quick" else 10 ** 9)
        ctx.log("call-frame family done: %d programs" % cf_evals)
    if not ctx.problems:
        # the language-level oracle runs before any correspondence difference is reported
        cli_sigs = []
        cli_evals, ends = cli_level(ctx, libdir, ncli, dict(api=api_corr is not None), cli_sigs)
        for model, mo in cli_sigs:
            sg, feats = history_signature(model, mo)
            if feats:
                nontriv_hist += 1
                nontriv_text.add(tuple(model))
                if sg not in nontriv:
                    nontriv[sg] = model
                for f in feats:
                    featc["cli:" + f] = featc.get("cli:" + f, 0) + 1
    ctx.log("language level done: %d programs" % cli_evals)
    if not ctx.problems and api_corr is not None:
        report_api_corr(ctx, exe, api_corr)
    if not ctx.problems and trans_err is not None:
        # no failing input was found by the oracles, but the collector's source no longer has the shape the model transcribes
        ctx.problem("corr", "translator extract/gc_const.py does not recognise lib/val.c / lib/run.c / lib/hawk-prv.h of this tree (constants, "
                    "order of the collector's phases, promotion rule, counter updates, pressure comparisons): %s" % trans_err[:400],
                    trans_err, found_input=False)
    evaluations += cli_evals + vf_evals + cf_evals
    samples = [" ; ".join(h[:14]) for h in list(nontriv.values())[:3]] + [" ; ".join(histories[-1][:14])]
    return C.finish(ctx, [proof], evaluations, len(nontriv),
                    "API histories = corpus + every sequence over a 14-op (length 2/3) and a 7-op (length 4/5) alphabet after 3 prefixes "
                    "(old+young object) + seeded random histories (profiles mixed/cycles/pressure/oldyoung/gen3 = containers in all three generations cross- and self-linked in every direction, <= 45 ops, maps and arrays, "
                    "explicit gc of every generation incl. -1/3/7, threshold changes, 3% unchecked ops) each ending in close; every op's "
                    "return value and the full real state (v_refs, gc_refs incl. sentinels, generation list membership, container elements, "
                    "pressure/threshold, freed set, host blocks left after hawk_rtx_close) compared with the Lean model and checked directly "
                    "against the ledger/reachability property; plus generated and fixed hawk programs under ASan+LeakSanitizer comparing "
                    "hawk::gcrefs of every variable, of the first container element of every variable's container (read back through the container; elements go to the smallest free index from 0) and the pressure counters after every statement; stores/copies also through user-function calls; exit/error endings strike in 13 expression contexts (later call arguments after fresh strings/maps, built-ins, nested frames with locals, for-in, print, concatenation, index expressions). distinct_nontrivial rule: " + NONTRIVIAL_RULE +
                    " Further families: allocation loops (`churn`) that trigger collections by pressure alone, also with the default "
                    "thresholds; containers built by hawk::array(x,..)/hawk::map(k,x,..), stores through hawk::call; API level: "
                    "leaf-value histories (vint/vflt/vstr/vrel: boxed ints and floats in chunks of 100 with free lists, strings with the 16x128 cache): the "
                    "host-block count of the counting allocator, chunk counts, free-list lengths and cache counters after every op compared with HawkModel.GcVal "
                    "and checked against blocks = chunks + strings in use + cached strings; hawk_rtx_makemapvalwithdata, elements fetched with getmapvalfld/getarrvalfld/the map iterator (`take`); `call f a b`: the host calls "
                    "one of 7 hawk functions with hawk_rtx_callwithbcstr (frame = arguments + locals + return-value slot as holders; bodies return an "
                    "argument, store one argument into the other, return a new container, leave a self-referring local behind, end by a run-time "
                    "error, end by exit), compared state by state with HawkModel.GcCall; language level also by-reference parameters (setrefval) and "
                    "split() into a container element; call-frame family (oracle only): parameter lists of 1..3 by-value/by-reference parameters in every order x "
                    "map/array/string bound to each x direct call / hawk::call x by-reference parameter assigned or not x return / run-time error / exit x "
                    "named/local variables: gcrefs of every argument equal before and after three calls, no block left at close; value-flow "
                    "family (oracle only): inc/dec/assignment forms x variable/element/field targets x float/string/boxed-int values, "
                    "result kept across churn of the free lists and caches must not change (line B = line A, identity = 1)",
                    samples,
                    extra_cov=dict(op_distribution=dist, histories=len(histories), exhaustive_histories=nexh, corpus_histories=ncorpus,
                                   branch_hits=br, nontrivial_feature_hits=featc, nontrivial_histories_and_programs=nontriv_hist,
                                   nontrivial_distinct_texts=len(nontriv_text), nontrivial_distinct_signatures=len(nontriv),
                                   cli_programs=cli_evals, cli_endings=ends, valueflow=vf_stats, callframe=cf_stats, impl_status=status),
                    trusted=["sentinels, number of generations, initial thresholds: extracted by extract/gc_const.py on every run (Gen/GcConst.lean, "
                             "Props consts_match_source); the same extractor checks the textual shape of gc_collect_garbage_in_generation / _auto / gc_calloc_val",
                             "val.c refcount/collector modelled by hand in HawkModel/Gc.lean: containers only (leaf values, the str/mbs/ref "
                             "caches: int/flt chunks + free lists and the string cache are modelled in HawkModel/GcVal.lean for values the host holds directly; "
                             "values inside containers, the mbs and ref caches are not)",
                             "order inside the generation lists and map iteration order are not modelled (only membership is compared)",
                             "a finalised shell leaves the model heap before, in the C after, its elements are visited",
                             "API harness writes gc.threshold directly; hawk::gc_set_threshold itself is exercised at the CLI level only",
                             "calls: the model knows the frame of hawk_rtx_callfun as a sequence of holder operations (GcCall.callOps); the evaluation of the "
                             "body's statements (run.c eval_expression, assignment) is not transcribed, only its effect on the ledger; fail/quit are the "
                             "model's cyc (same ledger effect through the error/exit paths of run_block and hawk_rtx_evalcall)"],
                    assumptions=["host allocator never refuses (the retry-after-full-gc paths of gc_calloc_val/makemapval are not modelled)",
                                 "fewer than 2^32 references to one value (v_refs is 32 bits wide)",
                                 "clients respect the API contract: only operate on objects they can reach, relink only values they hold, "
                                 "no hawk_rtx_callfun after a called function executed exit (the call is refused with EPERM)"])


def replay(ctx, path):
    libdir = C.build_libhawk(ctx)
    txt = open(path).read()
    if "# run: hawk" in txt:
        prog = txt.split("\n", 3)[3] if txt.startswith("# property") else txt
        m = re.search(r"^(# run: hawk[^\n]*\n)(.*?)(?=^# (got|stderr|expected))", txt, re.S | re.M)
        prog = m.group(2) if m else prog
        rc, out, err, st = run_cli(os.path.join(libdir, "hawk"), prog, ctx.scratch)
        print("\n".join(out))
        print("status:", st)
        print(err[-3000:])
        exp = re.search(r"^# expected \(from the model\):\n(.*?)^# model ops", txt, re.S | re.M)
        if exp:
            want = exp.group(1).strip().split("\n")
            got = [l for l in out if l.startswith(("S ", "G ", "O "))]
            print("differs from the model's expectation" if got != want else "matches the model's expectation")
            return 1 if (got != want or st not in ("ok", "EXIT3", "EXIT255")) else 0
        return 1 if st != "ok" else 0
    exe = C.cc_harness(ctx, os.path.join(C.VERIF, "harness", "gc_h.c"), link_lib=libdir)
    lines = []
    for l in open(path):
        l = l.strip()
        if l.startswith("# impl:"):
            break
        if l and not l.startswith("#"):
            lines.append(l)
    r = one_history(ctx, exe, lines)
    co, mo = r["co"], r["mo"]
    for i, l in enumerate(lines):
        print("%-16s impl:  %s\n%-16s model: %s" % (l, co[i] if i < len(co) else "<none>", "", mo[i] if i < len(mo) else "<none>"))
    for i, t in r["orc"]:
        print("PROPERTY: after op %d `%s`: %s" % (i, lines[min(i, len(lines) - 1)], t))
    if r["corr"] is not None:
        print("CORRESPONDENCE: first difference at op %d" % r["corr"])
    print("status:", r["st"])
    if r["ce"].strip():
        print(r["ce"][-2000:])
    return 1 if (r["orc"] or r["corr"] is not None or r["st"] != "ok") else 0
