"""C11 — comparison operators are mutually consistent (lib/run.c __cmp_* family, teq_val, eval_binop_*;
asort/asorti in lib/fnc.c with lib/utl-sort.c).

translate (extract/cmp_table.py -> lean/HawkModel/Gen/CmpTable.lean) -> prove (HawkModel.Props.C11)
-> build libhawk + harness/cmp_h.c -> for every configuration and every ordered pair of a value pool
(plus seeded random values): the real code's hawk_rtx_cmpval result and the 8 operators evaluated at
language level are (1) checked DIRECTLY against the property's laws and (2) compared with the Lean
model (`hawkdrv cmp`).  asort/asorti: real results (in-process through hawk_rtx_callfun and through
the CLI) are checked to be permutations, sorted for one-kind inputs (under the real relation), and
compared with the model."""
import os, time
from .. import common as C
from .. import ctie
from extract import cmp_table

INT_MIN, INT_MAX = -(2 ** 63), 2 ** 63 - 1
SIG_EMPTY = "asort-empty-source-keeps-destination"


# ----------------------------------------------------------------------------------------------
# value specs
# ----------------------------------------------------------------------------------------------
def S(txt):
    return "S" + "".join("%04x" % ord(c) for c in txt)


def T(txt):
    return "T" + "".join("%04x" % ord(c) for c in txt)


def M(data):
    if isinstance(data, str):
        data = data.encode("utf-8")
    return "M" + "".join("%02x" % b for b in data)


TEXTS = ["", "a", "A", "b", "10", "9", "abc", "ABC", " 1", "1 ", "1e1", "1E1", "0x10", "0X10", "1.5", "-1", "+1", "1.0",
         "10.0", "010", ".", "é", "É", "ab", "1a", "0x1A", "0x1a", "1000000", "1e+06", "1000000x", "16777216", "1.23457e+06"]
NTEXTS = ["", "1", "2", "3", "3.5", "7", "7.25", "0", "-0.5", "-3", "-3.5", "10", "9", "1.5", "-1", "1e1", "1E1", "0x10", "0X10", " 1", "1 ", "abc", "1.0", "10.0", "010", "+1", "0x1A", "0x1a",
          "9223372036854775807", "1e300"]


def base_pool():
    p = ["N"]
    p += ["C%d" % c for c in (97, 65, 0, 49, 233, 201, 8364)]
    p += ["B%d" % b for b in (97, 65, 0, 49, 200, 232)]
    p += ["I%d" % i for i in (0, 1, -1, 2, 10, 9, 100, INT_MIN, INT_MAX, INT_MAX - 1, 2 ** 53 + 1, 2 ** 53)]
    p += ["F" + f for f in ("0.0", "-0.0", "1.0", "1.5", "-1.5", "10.0", "9.5", "1e300", "-1e300", "0x1p63", "0x8000000000000001p0",
                            "0xfffffffffffffffep-1", "0x1p-1074", "0.1", "9007199254740992.0", "1e6", "16777216.0", "-2e6", "1234567.5", "1e15")]
    p += [S(t) for t in TEXTS]
    p += [T(t) for t in NTEXTS]
    p += [M(t) for t in TEXTS] + [M(b"\xc8"), M(b"\xe8"), M(b"\xff\x00")]
    return p


NONSCALAR = ["Uf", "Ug", "P0", "P2", "A0", "A2"]


def random_values(rng, n):
    out = []
    alpha = "0123456789.eExX+- abAB"
    for _ in range(n):
        k = rng.random()
        if k < 0.12:
            out.append("I%d" % rng.choice([rng.randrange(-20, 20), rng.randrange(INT_MIN, INT_MAX), 2 ** rng.randrange(1, 63), -(2 ** rng.randrange(1, 63)), 2 ** 53 + 1]))
        elif k < 0.24:
            out.append("F" + rng.choice([repr(rng.randrange(-20, 20) / 2.0), float.hex(rng.uniform(-1e3, 1e3)), float.hex(rng.uniform(-1, 1) * 10 ** rng.randrange(-300, 300)),
                                         "0x1p%d" % rng.randrange(50, 70), "%d.0" % rng.randrange(-(2 ** 53), 2 ** 53)]))
        elif k < 0.30:
            out.append("C%d" % rng.choice([rng.randrange(0, 128), rng.randrange(128, 65536)]))
        elif k < 0.36:
            out.append("B%d" % rng.randrange(0, 256))
        else:
            t = "".join(rng.choice(alpha) for _ in range(rng.randrange(0, 6)))
            if rng.random() < 0.4:
                t = rng.choice(["%d" % rng.randrange(-50, 50), "%d.%d" % (rng.randrange(0, 20), rng.randrange(0, 100)), "%de%d" % (rng.randrange(1, 9), rng.randrange(0, 4)),
                                "0x%x" % rng.randrange(0, 300), " %d" % rng.randrange(0, 20), "%d " % rng.randrange(0, 20), "0%o" % rng.randrange(0, 100)])
            out.append(rng.choice([S, S, T, T, M])(t))
    return out


def is_scalar(spec):
    return spec[0] in "NCBIFSTM"


# ----------------------------------------------------------------------------------------------
# running both sides
# ----------------------------------------------------------------------------------------------
class Session:
    """one harness process + one driver process worth of lines, evaluated in bulk"""

    def __init__(self, ctx, exe):
        self.ctx = ctx
        self.exe = exe
        self.fold = None

    def harness(self, lines, timeout=None):
        # time budget proportional to the input (sanitized build: ~25 us per cmp line measured; 200x headroom)
        rc, out, err = C.run_harness(self.exe, [], lines, timeout=timeout or (120 + len(lines) // 200))
        return rc, out, err

    def get_fold(self):
        if self.fold is None:
            rc, out, err = self.harness(["fold"])
            if rc != 0 or not out or not out[0].startswith("fold "):
                raise RuntimeError("harness fold failed: %s %s" % (C.classify_rc(rc, err), err[-500:]))
            self.fold = out[0]
        return self.fold

    def driver(self, lines, timeout=None):
        out = C.run_driver(self.ctx, "cmp", [self.get_fold()] + lines, timeout=timeout or (120 + len(lines) // 200))
        return out[1:]


UNSTABLE = set()   # specs whose descriptor changed between the two passes (side observation, not a C11 law)


def cfg_bits(cfg):
    ic, nc, ss, fm = cfg
    return "%d%d%d" % (ic, nc, fm)


def parse_cmp(line):
    """'r=0,-1 o=11010001 q=01' -> (rc, n|None, ops str|'ERR', teq-alone str|'ERR')"""
    try:
        f = line.split()
        r, o = f[0], f[1]
        q = f[2][2:] if len(f) > 2 and f[2].startswith("q=") else None
        rc, n = r[2:].split(",")
        return int(rc), (None if n == "x" else int(n)), o[2:], q
    except Exception:
        return None


LAW_NAMES = ["result-range", "antisymmetry", "trichotomy", "lt-iff-gt-swapped", "le-iff-lt-or-eq", "ne-iff-not-eq", "eq-symmetric",
             "teq-implies-eq", "ops-agree-with-cmpval", "ge-iff-gt-or-eq", "tne-iff-not-teq", "teq-alone-agrees"]


def check_laws(ab, ba):
    """the property's laws on the REAL outputs for the ordered pair (a,b) and its swap; returns list of violated law names"""
    bad = []
    if ab is None or ba is None:
        return ["unparsable-output"]
    rc1, n1, o1, q1 = ab
    rc2, n2, o2, q2 = ba
    if rc1 != 0 or rc2 != 0 or o1 == "ERR" or o2 == "ERR" or len(o1) != 8 or len(o2) != 8:
        return ["error-on-scalar-operands"]
    lt, le, eq, ne, ge, gt, teq, tne = [c == "1" for c in o1]
    lt2, le2, eq2, ne2, ge2, gt2, teq2, tne2 = [c == "1" for c in o2]
    if n1 not in (-1, 0, 1):
        bad.append("result-range")
    if n1 != -n2:
        bad.append("antisymmetry")
    if [lt, eq, gt].count(True) != 1:
        bad.append("trichotomy")
    if lt != gt2 or gt != lt2:
        bad.append("lt-iff-gt-swapped")
    if le != (lt or eq):
        bad.append("le-iff-lt-or-eq")
    if ne != (not eq):
        bad.append("ne-iff-not-eq")
    if eq != eq2:
        bad.append("eq-symmetric")
    if teq and not eq:
        bad.append("teq-implies-eq")
    if (lt, eq, gt) != (n1 < 0, n1 == 0, n1 > 0):
        bad.append("ops-agree-with-cmpval")
    if ge != (gt or eq):
        bad.append("ge-iff-gt-or-eq")
    if tne != (not teq):
        bad.append("tne-iff-not-teq")
    if q1 is not None and (q1 != o1[6:8] or q1 not in ("10", "01")):
        bad.append("teq-alone-agrees")
    return bad


def run_matrix(ctx, sess, cfg, pool, pairs):
    """returns (descs, impl results dict (a,b)->parsed, model lines dict (a,b)->line, status)"""
    # descriptors are taken twice: creating a value can change ANOTHER value's descriptor (the static zero-length
    # string shared by all empty strings gets its numeric-string flag set by hawk_rtx_makenstrvalwithoochars("")),
    # so the pass that counts is the one after every value has been created once
    lines = ["cfg %d %d %d %d" % cfg] + ["desc " + s for s in pool] + ["desc " + s for s in pool] + ["cmp %s %s" % p for p in pairs]
    rc, out, err = sess.harness(lines)
    st = C.classify_rc(rc, err)
    if st != "ok" or len(out) != len(lines):
        return None, None, None, "%s (got %d of %d lines) %s" % (st, len(out), len(lines), err[-1500:])
    first = dict(zip(pool, out[1:1 + len(pool)]))
    descs = dict(zip(pool, out[1 + len(pool):1 + 2 * len(pool)]))
    UNSTABLE.update(s for s in pool if first[s] != descs[s])
    impl_lines = out[1 + 2 * len(pool):]
    bits = cfg_bits(cfg)
    mlines = sess.driver(["cmp %s %s %s" % (bits, descs[a], descs[b]) for a, b in pairs])
    impl = {}
    model = {}
    for p, il, ml in zip(pairs, impl_lines, mlines):
        impl[p] = il
        model[p] = ml
    return descs, impl, model, "ok"


def pair_replay(cfg, a, b):
    return "cfg %d %d %d %d\ncmp %s %s\ncmp %s %s\n" % (cfg + (a, b, b, a))


def spec_text(spec):
    k = spec[0]
    try:
        if k in "ST":
            h = spec[1:]
            return "%s\"%s\"" % ("numstr" if k == "T" else "", "".join(chr(int(h[i:i + 4], 16)) for i in range(0, len(h), 4)))
        if k == "M":
            return "@b\"%s\"" % bytes.fromhex(spec[1:]).decode("latin-1")
        if k == "C":
            return "char(%s)" % spec[1:]
        if k == "B":
            return "bchr(%s)" % spec[1:]
    except Exception:
        pass
    return spec


def nontrivial_pair(cfg, a, b):
    """operands of different types, or a numeric-string flag / NCMPONSTR numeric branch can be taken"""
    ta, tb = a[0].replace("T", "S"), b[0].replace("T", "S")
    if ta != tb:
        return True
    return a[0] == "T" or b[0] == "T"


# ----------------------------------------------------------------------------------------------
# asort
# ----------------------------------------------------------------------------------------------
def kind_of(spec, descs):
    """'num' | 'str' (plain) | 'nstr' (numeric string, flag set) | 'mbs' | 'char' | 'bchr' | 'nil' | 'other'"""
    d = descs[spec]
    k = d[0]
    if k in "IF":
        return "num"
    if k == "S":
        return "str" if d[1] == "0" else "nstr"
    return {"M": "mbs", "C": "char", "B": "bchr", "N": "nil"}.get(k, "other")


def parse_asort(line):
    """'in=0,1 rv=2 out=1,0 dst=map' -> dict or None (ERR)"""
    if line.endswith("ERR") or "rv=" not in line:
        return None
    f = dict(x.split("=", 1) for x in line.split())
    lst = lambda s: [int(x) for x in s.split(",")] if s else []
    return dict(inp=lst(f.get("in", "")), rv=int(f["rv"]), out=lst(f.get("out", "")), dst=f.get("dst", "?"))


def gen_asort_cases(rng, pool, descs, n_cases):
    by_kind = {}
    for s in pool:
        if is_scalar(s):
            by_kind.setdefault(kind_of(s, descs), []).append(s)
    cases = []
    # fixed small cases first (every tier)
    cases.append(("v", "m", []))
    cases.append(("v", "m", ["I3", "I1", "I2"]))
    cases.append(("v", "m", []))           # empty source right after a filled destination
    cases.append(("v", "n", []))
    cases.append(("k", "m", [S("b"), S("a"), S("10"), S("9")]))
    cases.append(("v", "a", ["I3", "I1", "F1.5"]))
    cases.append(("v", "a", []))
    cases.append(("k", "a", ["I5", "I6", "I7"]))
    for _ in range(n_cases):
        r = rng.random()
        n = rng.choice([0, 1, 2, 3, 4, 5, 6, 6, 7, 8, 9, 12, 20, 41, 45, 60, 100]) if rng.random() < 0.8 else rng.randrange(0, 130)
        if r < 0.70:
            kind = rng.choice(["num", "num", "str", "str", "nstr", "mbs", "char", "bchr"])
            src = by_kind.get(kind, [])
            if not src:
                continue
            if rng.random() < 0.5:
                src = rng.sample(src, max(1, min(len(src), rng.randrange(2, 8))))   # few distinct values: many duplicates
            elems = [rng.choice(src) for _ in range(n)]
        else:
            allv = [s for s in pool if is_scalar(s)]
            elems = [rng.choice(allv) for _ in range(min(n, 40))]
        mode = rng.choice(["m", "m", "a"])
        cases.append(("v", mode, elems))
        if rng.random() < 0.15:
            keys = list({s for s in ([x for x in by_kind.get("str", []) if x[0] == "S"] + [S("k%d" % i) for i in range(n)])})
            rng.shuffle(keys)
            cases.append(("k", "m", keys[:n]))
        if rng.random() < 0.05:
            cases.append(("k", "a", ["I%d" % i for i in range(n)]))
    return cases


def asort_judge(kv, mode, el, pr, line, rcmp, d2):
    """THE PROPERTY on one real asort/asorti result (independent of the model): returns (message, sig) or None.
    pr = parsed harness line (None = the call failed); rcmp(a, b) = real hawk_rtx_cmpval result or None."""
    n = len(el)
    if pr is None:
        return ("asort failed on scalar elements: %s" % line, None)
    if n == 0:
        if pr["out"] or pr["rv"] != 0:
            return ("asort/asorti of an empty or nil source left %d stale element(s) in the destination (not a permutation of the input): %s" % (len(pr["out"]), line), SIG_EMPTY)
        return None
    if pr["rv"] != n or sorted(pr["out"]) != list(range(n)) or sorted(pr["inp"]) != list(range(n)):
        return ("asort result is not a permutation of its input (n=%d): %s" % (n, line[:300]), None)
    if kv == "k" and mode == "a":
        if pr["out"] != sorted(pr["out"]):
            return ("asorti of an array did not return increasing indices: %s" % line[:300], None)
        return None
    outspecs = [el[i] for i in pr["out"]]
    kinds = {"str"} if kv == "k" else {kind_of(x, d2) for x in el}
    if len(kinds) == 1 and kinds <= {"num", "str", "nstr", "mbs", "char", "bchr"}:
        rng_j = (lambda i: range(i + 1, n)) if n <= 12 else (lambda i: range(i + 1, min(n, i + 2)))
        for i in range(n):
            for j in rng_j(i):
                c = rcmp(outspecs[i], outspecs[j])
                if c is None or c > 0:
                    return ("asort of one-kind input (%s, n=%d) is not non-decreasing: out[%d]=%s > out[%d]=%s (hawk_rtx_cmpval says %s)" % (
                        sorted(kinds)[0], n, i, spec_text(outspecs[i]), j, spec_text(outspecs[j]), c), None)
    return None


def asort_single(sess, cfg, kv, mode, el):
    """run ONE asort case in a fresh process (after a filler call, so that a stale destination is observable) and judge it"""
    uniq = sorted(set(el))
    lines = ["cfg %d %d %d %d" % cfg] + ["desc " + x for x in uniq] + ["desc " + x for x in uniq] + ["asort v m I3 I1 I2", "asort %s %s %s" % (kv, mode, " ".join(el))]
    lines += ["cmp %s %s" % (a, b) for a in uniq for b in uniq]
    rc, out, err = sess.harness(lines)
    if rc != 0 or len(out) != len(lines):
        return ("harness died on a single asort case: %s" % C.classify_rc(rc, err), None), lines, out
    d2 = dict(zip(uniq, out[1 + len(uniq):1 + 2 * len(uniq)]))
    k = 1 + 2 * len(uniq)
    real = {}
    for (a, b), l in zip([(a, b) for a in uniq for b in uniq], out[k + 2:]):
        pc = parse_cmp(l)
        real[(a, b)] = None if pc is None else pc[1]
    pr = parse_asort(out[k + 1])
    return asort_judge(kv, mode, el, pr, out[k + 1], lambda a, b: real.get((a, b)), d2), lines[:k + 2], out[:k + 2]


def asort_phase(ctx, sess, cfg, pool, descs, impl, n_cases, stats, hits, corr):
    """in-process asort/asorti on values of the pool; `impl` = parsed real cmp results for all ordered pool pairs.
    Property oracle hits go to `hits` (confirmed and shrunk), model disagreements to `corr`."""
    rng = ctx.rng
    cases = gen_asort_cases(rng, pool, descs, n_cases)
    extra = sorted({x for _, _, el in cases for x in el if x not in descs})
    lines = ["cfg %d %d %d %d" % cfg] + ["desc " + x for x in extra] + ["asort %s %s %s" % (kv, mode, " ".join(el)) for kv, mode, el in cases]
    rc, out, err = sess.harness(lines)
    st = C.classify_rc(rc, err)
    if st != "ok" or len(out) != len(lines):
        # find the case that kills the harness
        for kv, mode, el in cases:
            j, ls, os_ = asort_single(sess, cfg, kv, mode, el)
            if j and j[0].startswith("harness died"):
                hits.append(("asort crashes the runtime (%s): %s" % (st, err[-300:]), "\n".join(ls) + "\n", None))
                return 0
        corr.append(("asort harness batch failed (%s) but no single case reproduces it" % st, "\n".join(lines[:200]) + "\n" + err[-1500:]))
        return 0
    d2 = dict(descs)
    d2.update(zip(extra, out[1:1 + len(extra)]))
    res = out[1 + len(extra):]
    bits = cfg_bits(cfg)
    # element descriptors as asort meets them: values, or keys (plain strings / 1-based integer indices)
    mlines = []
    parsed = []
    for (kv, mode, el), line in zip(cases, res):
        pr = parse_asort(line)
        parsed.append(pr)
        if pr is None:
            mlines.append("asort %s lst" % bits)
        elif mode == "n":
            mlines.append("asort %s nil" % bits)
        else:
            ds = [("I%d;os=;bs=" % (i + 1)) if (kv == "k" and mode == "a") else d2[el[i]] for i in pr["inp"]]
            mlines.append("asort %s lst %s" % (bits, " ".join(ds)))
    mout = sess.driver(mlines)
    # real comparison results needed below that the pool matrix does not hold
    need = set()
    for (kv, mode, el), pr in zip(cases, parsed):
        if pr and len(el) and sorted(pr["out"]) == list(range(len(el))) and not (kv == "k" and mode == "a"):
            need.update((a, b) for a in set(el) for b in set(el) if (a, b) not in impl)
    if need:
        need = sorted(need)
        rc, o3, e3 = sess.harness(["cfg %d %d %d %d" % cfg] + ["cmp %s %s" % p for p in need])
        if rc == 0 and len(o3) == len(need) + 1:
            for p, l in zip(need, o3[1:]):
                impl[p] = parse_cmp(l)

    def rcmp(a, b):
        p = impl.get((a, b))
        return None if p is None else p[1]

    seen_sig = set()
    for (kv, mode, el), pr, line, ml in zip(cases, parsed, res, mout):
        n = len(el)
        stats["asort_cases"] = stats.get("asort_cases", 0) + 1
        key = "asort_%s%s_%s" % (kv, mode, "0" if n == 0 else "1-6" if n < 7 else "7-40" if n <= 40 else ">40")
        stats[key] = stats.get(key, 0) + 1
        # ---- (1) the property on the real output
        j = asort_judge(kv, mode, el, pr, line, rcmp, d2)
        if j is not None:
            msg, sig = j
            if sig in seen_sig or len(hits) >= 6:
                continue
            seen_sig.add(sig)
            # shrink (ddmin over the elements) with the judge re-evaluated in a fresh process; confirm before reporting
            def fails(sub):
                jj, _, _ = asort_single(sess, cfg, kv, mode, list(sub))
                return jj is not None and jj[1] == sig
            small = C.ddmin(el, fails, max_tests=60) if len(el) > 1 else list(el)
            jj, ls, os_ = asort_single(sess, cfg, kv, mode, small)
            if jj is None or jj[1] != sig:
                small = list(el)
                jj, ls, os_ = asort_single(sess, cfg, kv, mode, small)
            if jj is not None:
                hits.append((jj[0], "# feed to harness/cmp_h.c\n" + "\n".join(l for l in ls if not l.startswith("desc ")) + "\n# impl:\n" + "\n".join(os_[-2:]) + "\n", jj[1]))
            else:
                hits.append((msg + " (seen in a batch of %d calls; does not reproduce in a fresh process)" % len(cases), "\n".join(lines) + "\n", sig))
            continue
        kinds = {"str"} if kv == "k" else {kind_of(x, d2) for x in el}
        if n and len(kinds) == 1 and not (kv == "k" and mode == "a"):
            stats["asort_one_kind"] = stats.get("asort_one_kind", 0) + 1
        if n == 0 or (kv == "k" and mode == "a"):
            continue
        # ---- (2) the model
        replay = "cfg %d %d %d %d\nasort %s %s %s\n" % (cfg + (kv, mode, " ".join(el)))
        if not ml.startswith("rv="):
            corr.append(("model failed where the implementation sorted: model %r impl %r" % (ml, line[:200]), replay))
            continue
        inspecs = [el[i] for i in pr["inp"]]
        outspecs = [el[i] for i in pr["out"]]
        mf = dict(x.split("=", 1) for x in ml.split())
        mspecs = [inspecs[p] for p in ([int(x) for x in mf["out"].split(",")] if mf.get("out") else [])]
        if n < 7:
            if mspecs != outspecs:
                corr.append(("asort (insertion-sort path of hawk_qsortx, n=%d) differs from the model's isort: impl %s model %s" % (n, [spec_text(x) for x in outspecs], [spec_text(x) for x in mspecs]), replay))
        elif len(kinds) == 1 and kinds <= {"num", "str", "nstr", "mbs", "char", "bchr"}:
            for i in range(n):
                if rcmp(outspecs[i], mspecs[i]) != 0:
                    corr.append(("asort (n=%d) is not element-wise comparator-equal to the model's sorted list at position %d (theorem sorted_perm_unique): impl %s model %s" % (n, i, spec_text(outspecs[i]), spec_text(mspecs[i])), replay))
                    break
    return len(cases)


# ----------------------------------------------------------------------------------------------
# asortx: every kind of source, destination form and comparator
# ----------------------------------------------------------------------------------------------
# fn -> (asorti?, comparator: d default / u user three-way / r user reversed / z user constant 0, source var, destination var)
FN = {"a1": (False, "d", "X", "G"), "a2": (True, "d", "X", "G"), "a3": (False, "d", "X", "X"), "a4": (True, "d", "X", "X"),
      "a5": (False, "d", "X", "X"), "a6": (True, "d", "X", "X"), "a7": (False, "d", "G", "G"), "a8": (True, "d", "G", "G"),
      "u1": (False, "u", "X", "G"), "u2": (True, "u", "X", "G"), "u3": (False, "r", "X", "G"), "u4": (False, "z", "X", "G"),
      "u5": (False, "u", "X", "X"),
      # u6: a comparator that fails at run time when it meets the value 13; u7 / u8: argument errors (not a function,
      # a function of one parameter): the call must fail and leave the destination alone
      "u6": (False, "e", "X", "G"), "u7": (False, "x", "X", "G"), "u8": (False, "x", "X", "G")}
FN_WEIGHTED = ["a1"] * 6 + ["a2"] * 6 + ["a3", "a4", "a5", "a6", "u1", "u2", "u3", "u4", "u5"] * 2
KEY_TEXTS = ["", "a", "A", "b", "10", "9", "2", "1", "01", "1.5", "-1", " 1", "1 ", "1e1", "0x10", "abc", "ABC", "é", "k", "K", "10.0", "+3", "x y", "0"]


def head(desc):
    f = desc.split(";")
    return ";".join(f[:2]) if desc[0] in "SM" else f[0]


def parse_container(txt):
    if txt == "nil":
        return ("nil", [])
    if len(txt) >= 3 and txt[0] in "ma" and txt[1] == "{" and txt[-1] == "}":
        body = txt[2:-1]
        items = []
        for it in (body.split(",") if body else []):
            k, t = it.split(":", 1)
            items.append((k if txt[0] == "m" else int(k), t))
        return (txt[0], items)
    return ("other", [])


def parse_asortx(line):
    try:
        f = dict(x.split("=", 1) for x in line.split(" "))
        return dict(pre=parse_container(f["pre"]), preG=parse_container(f["preG"]), rv=(None if f["rv"] == "ERR" else int(f["rv"])),
                    X=parse_container(f["X"]), G=parse_container(f["G"]))
    except Exception:
        return None


def hexkey_text(k):
    return "".join(chr(int(k[i:i + 4], 16)) for i in range(0, len(k), 4))


def asortx_expect(fn, pr):
    """(source container, list of expected element tokens in traversal order, destination container after the call)"""
    keys, ck, sv, dv = FN[fn]
    src = pr["pre"] if sv == "X" else pr["preG"]
    dst = pr[dv]
    if keys:
        exp = [("S" + k) if src[0] == "m" else ("I%d" % k) for k, _ in src[1]]
    else:
        exp = [t for _, t in src[1]]
    return src, exp, dst


def asortx_judge(fn, line, pr, tdesc, rcmp):
    """THE PROPERTY on one real asort/asorti call (model-free). tdesc: token -> descriptor; rcmp(tokA, tokB) -> real hawk_rtx_cmpval n.
    returns (message, ordered destination tokens | None)"""
    keys, ck, sv, dv = FN[fn]
    name = "asorti" if keys else "asort"
    if pr is None:
        return ("unparsable harness output: %s" % line[:200], None)
    src, exp, dst = asortx_expect(fn, pr)
    if src[0] == "other" or ck == "x":
        return (None, None)        # argument errors / a scalar source: exercised (sanitizers), not judged by this property
    n = len(exp)
    form = "%s(%s%s%s)" % (name, sv, "" if fn in ("a3", "a4") else ", " + dv, {"d": "", "u": ", ucmp", "r": ", urev", "z": ", uzero", "e": ", uerr"}[ck])
    if pr["rv"] is None and ck == "e":
        # the user comparator fails at run time when it meets 13: then (and only then) the call may fail, and the
        # destination must be what it was
        has13 = any(t in tdesc and head(tdesc[t]) in ("I13", "F13:0") for t in exp)
        if n >= 2 and has13:
            if pr["G"] != pr["preG"]:
                return ("%s: the comparator failed, yet the destination was changed" % form, None)
            return (None, None)
    if pr["rv"] is None:
        return ("%s failed on a source of %d scalar elements" % (form, n), None)
    if pr["rv"] != n:
        return ("%s returned %d for a source of %d elements" % (form, pr["rv"], n), None)
    if n == 0:
        if dst[1]:
            return ("%s of a nil/empty source left %d element(s) in the destination" % (form, len(dst[1])), None)
        return (None, [])
    if dst[0] not in "ma":
        return ("%s: the destination is not a map or array afterwards (%s)" % (form, dst[0]), None)
    try:
        idx = [(int(hexkey_text(k)) if dst[0] == "m" else k, t) for k, t in dst[1]]
        if dst[0] == "m" and any(hexkey_text(k) != str(int(hexkey_text(k))) for k, _ in dst[1]):
            raise ValueError
    except ValueError:
        return ("%s: destination subscripts are not 1..%d: %s" % (form, n, [hexkey_text(k) if dst[0] == "m" else k for k, _ in dst[1]][:12]), None)
    idx.sort()
    if [i for i, _ in idx] != list(range(1, n + 1)):
        return ("%s: destination subscripts are not 1..%d: %s" % (form, n, [i for i, _ in idx][:15]), None)
    out = [t for _, t in idx]
    if any(t not in tdesc for t in out + exp):
        return ("%s: a destination element is not a scalar value: %s" % (form, [t for t in out if t not in tdesc][:4]), None)
    if sorted(head(tdesc[t]) for t in out) != sorted(head(tdesc[t]) for t in exp):
        missing = sorted(set(head(tdesc[t]) for t in exp) - set(head(tdesc[t]) for t in out))
        extra = sorted(set(head(tdesc[t]) for t in out) - set(head(tdesc[t]) for t in exp))
        return ("%s: the result is not a permutation of the source's %s: source has %s, result has %s (missing %s, foreign %s)" % (
            form, "subscripts" if keys else "values", [token_text(t) for t in exp][:10], [token_text(t) for t in out][:10], missing[:4], extra[:4]), out)
    kinds = {kind_of(t, tdesc) for t in out}
    if ck in "dure" and len(kinds) == 1 and kinds <= {"num", "str", "nstr", "mbs", "char", "bchr"}:
        rng_j = (lambda i: range(i + 1, n)) if n <= 12 else (lambda i: range(i + 1, min(n, i + 2)))
        for i in range(n):
            for j in rng_j(i):
                c = rcmp(out[i], out[j]) if ck != "r" else rcmp(out[j], out[i])
                if c is None or c > 0:
                    return ("%s of one-kind input (%s, n=%d) is not %s: [%d]=%s then [%d]=%s (hawk_rtx_cmpval says %s)" % (
                        form, sorted(kinds)[0], n, "non-increasing" if ck == "r" else "non-decreasing", i + 1, token_text(out[i]), j + 1, token_text(out[j]), c), out)
    return (None, out)


def token_text(t):
    if t[0] == "F":
        try:
            return "F" + repr(float.fromhex(t[1:])) if t[1:].lower().lstrip("-").startswith("0x") else t
        except Exception:
            return t
    return spec_text(t)


def eval_chains(sess, cfg, chains):
    """chains: list of lists of 'asortx ...' lines (a base line followed by `k` lines that work on what the previous call left).
    returns per chain a list of dict(line, out, pr, judge (msg|None), corr (msg|None), n, onekind) — or None if the harness died"""
    flat = [l for ch in chains for l in ch]
    rc, out, err = sess.harness(["cfg %d %d %d %d" % cfg] + flat)
    if rc != 0 or len(out) != len(flat) + 1:
        return None, C.classify_rc(rc, err) + " " + err[-600:]
    out = out[1:]
    parsed = [parse_asortx(o) for o in out]
    # every token that occurs, and the subscript tokens
    toks = set()
    for l, pr in zip(flat, parsed):
        if pr is None:
            continue
        for c in ("pre", "preG", "X", "G"):
            toks.update(t for _, t in pr[c][1] if t != "?")
        fn = l.split()[1]
        toks.update(asortx_expect(fn, pr)[1])
    toks.discard("?")
    toks = sorted(toks)
    rc, o2, e2 = sess.harness(["cfg %d %d %d %d" % cfg] + ["desc " + t for t in toks] + ["desc " + t for t in toks])
    if rc != 0 or len(o2) != 2 * len(toks) + 1:
        return None, "desc pass: " + C.classify_rc(rc, e2)
    tdesc = dict(zip(toks, o2[1 + len(toks):]))
    h2t = {}
    for t in toks:
        h2t.setdefault(head(tdesc[t]), t)
    # the model
    bits = cfg_bits(cfg)
    mlines = []
    for l, pr in zip(flat, parsed):
        fn = l.split()[1]
        keys, ck, sv, dv = FN[fn]
        if pr is None:
            mlines.append("bad")
            continue
        src = pr["pre"] if sv == "X" else pr["preG"]
        if src[0] == "other" or ck == "x" or any(t not in tdesc for _, t in src[1]):
            mlines.append("bad")
            continue
        mlines.append("asortx %s %s %s %s %s" % (bits, ck, "k" if keys else "v", {"nil": "n"}.get(src[0], src[0]), " ".join("%s=%s" % (k, tdesc[t]) for k, t in src[1])))
    mout = sess.driver(mlines)
    # real comparisons needed
    need = set()
    prelim = []
    for l, o, pr, ml in zip(flat, out, parsed, mout):
        fn = l.split()[1]
        j = asortx_judge(fn, o, pr, tdesc, lambda a, b: 0)          # structure only; order is judged after the cmp pass
        dsto = j[1]
        prelim.append(dsto)
        if dsto:
            n = len(dsto)
            if n <= 12:
                need.update((a, b) for a in dsto for b in dsto)
            else:
                need.update((dsto[i], dsto[i + 1]) for i in range(n - 1))
                need.update((dsto[i + 1], dsto[i]) for i in range(n - 1))
            if ml.startswith("rv=") and n >= 7:
                mh = ml.split("out=", 1)[1].split(",") if "out=" in ml and ml.split("out=", 1)[1] else []
                if len(mh) == n and all(h in h2t for h in mh):
                    need.update((dsto[i], h2t[mh[i]]) for i in range(n))
    need = sorted(need)
    real = {}
    if need:
        rc, o3, e3 = sess.harness(["cfg %d %d %d %d" % cfg] + ["cmp %s %s" % p_ for p_ in need])
        if rc != 0 or len(o3) != len(need) + 1:
            return None, "cmp pass: " + C.classify_rc(rc, e3)
        for p_, l in zip(need, o3[1:]):
            pc = parse_cmp(l)
            real[p_] = None if pc is None else pc[1]
    rcmp = lambda a, b: real.get((a, b))
    res = []
    k = 0
    for ch in chains:
        rr = []
        for l in ch:
            o, pr, ml = out[k], parsed[k], mout[k]
            k += 1
            fn = l.split()[1]
            keys, ck, sv, dv = FN[fn]
            msg, dsto = asortx_judge(fn, o, pr, tdesc, rcmp)
            cm = None
            n = len(dsto) if dsto else 0
            kinds = {kind_of(t, tdesc) for t in dsto} if dsto else set()
            onekind = len(kinds) == 1 and kinds <= {"num", "str", "nstr", "mbs", "char", "bchr"}
            if msg is None and dsto is None and ck == "e" and pr is not None and ml != "bad" and (pr["rv"] is None) != (ml == "ERR"):
                cm = "asort with a failing comparator: implementation %s, model %s" % ("failed" if pr["rv"] is None else "succeeded", ml[:80])
            if msg is None and dsto is not None and ml != "bad":
                if not ml.startswith("rv="):
                    cm = "model failed (%s) where the implementation sorted" % ml
                else:
                    mh = ml.split("out=", 1)[1].split(",") if ml.split("out=", 1)[1] else []
                    ih = [head(tdesc[t]) for t in dsto]
                    if n < 7:
                        if mh != ih:
                            cm = "asort (insertion-sort path of hawk_qsortx, n=%d, %s) differs from the model's isort: impl %s model %s" % (n, fn, ih, mh)
                    elif onekind and ck in "dure" and len(mh) == n:
                        for i in range(n):
                            if mh[i] not in h2t or rcmp(dsto[i], h2t[mh[i]]) != 0:
                                cm = "asort (n=%d, %s) is not element-wise comparator-equal to the model's sorted list at position %d (theorem sorted_perm_unique): impl %s model %s" % (n, fn, i, ih[i], mh[i])
                                break
            rr.append(dict(line=l, out=o, judge=msg, corr=cm, n=n, onekind=onekind, fn=fn, src=(pr["pre"][0] if pr else "?")))
        res.append(rr)
    return res, "ok"


def gen_asortx_chains(rng, pool, descs, n_cases):
    by_kind = {}
    for x in pool:
        if is_scalar(x):
            by_kind.setdefault(kind_of(x, descs), []).append(x)
    allv = [x for x in pool if is_scalar(x)]
    hk = lambda t: "".join("%04x" % ord(c) for c in t)
    chains = [
        # fixed cases, every tier: the shapes named in the class description
        ["asortx a1 m %s=I3 %s=I1 %s=I2" % (hk("1"), hk("2"), hk("3")), "asortx a1 m"],                       # empty source after a filled destination
        ["asortx a2 a 1=I50 2=I30 4=I10 5=I70 6=I30 7=I20 8=I80"],                                           # hole in the middle
        ["asortx a2 a 2=I30 3=I90 4=I10 5=I70", "asortx a8 k"],                                              # hole at the front; result sorted again
        ["asortx a2 a 0=I5 1=I3 6=I4"],                                                                       # slot 0 and a gap
        ["asortx a4 a 1=I5 2=I3 3=I9 4=I1 5=I7 -2 -4"],                                                       # deleted elements, in place
        ["asortx a6 a 0=S0061 3=S0062 9=S0041"],
        ["asortx a2 m %s=I1 %s=I2 %s=I3 %s=I4 =I5 %s=I6" % (hk("10"), hk("9"), hk("1.5"), hk(" 1"), hk("abc"))],  # numeric-looking / mixed / empty keys
        ["asortx a5 m %s=I3 %s=I1 %s=F1.5" % (hk("x"), hk("y"), hk("z")), "asortx a7 k", "asortx a8 k"],
        ["asortx a3 m %s=%s %s=%s" % (hk("k1"), S("b"), hk("k2"), S("a"))],
        ["asortx u1 m %s=I3 %s=I1 %s=I2" % (hk("1"), hk("2"), hk("3")), "asortx u3 k"],
        ["asortx u2 a 0=I1 5=I2 3=I3"],
        ["asortx u4 a 1=I3 2=I1 3=I2"],
        ["asortx a1 n"], ["asortx a4 n"], ["asortx a2 a"], ["asortx a6 m"],
        ["asortx u6 a 1=I5 2=I13 3=I7"], ["asortx u6 a 1=I5 2=I12 3=I7"], ["asortx u6 m %s=I13" % hk("1")],      # comparator failing at run time
        ["asortx u6 m %s=I5 %s=I13 %s=F1.5" % (hk("a"), hk("b"), hk("c"))],
        ["asortx u7 a 1=I5 2=I3"], ["asortx u8 a 1=I5 2=I3"], ["asortx a1 s"], ["asortx a2 s"],                   # argument errors, scalar source
    ]
    for _ in range(n_cases):
        r = rng.random()
        n = rng.choice([0, 1, 2, 3, 4, 5, 6, 6, 7, 8, 9, 12, 20, 41, 45, 60, 100]) if rng.random() < 0.8 else rng.randrange(0, 130)
        if r < 0.70:
            kind = rng.choice(["num", "num", "str", "str", "nstr", "mbs", "char", "bchr"])
            srcv = by_kind.get(kind, [])
            if not srcv:
                continue
            if rng.random() < 0.5:
                srcv = rng.sample(srcv, max(1, min(len(srcv), rng.randrange(2, 8))))
            vals = [rng.choice(srcv) for _ in range(n)]
        else:
            vals = [rng.choice(allv) for _ in range(min(n, 40))]
        n = len(vals)
        shape = rng.choice(["md", "md", "md", "mk", "mk", "ad", "ad", "as", "as", "as"])
        items = []
        dels = []
        if shape == "md":
            items = ["%s=%s" % (hk(str(i + 1)), v) for i, v in enumerate(vals)]
        elif shape == "mk":
            ks = list(dict.fromkeys(rng.sample(KEY_TEXTS, min(n, len(KEY_TEXTS))) + ["%s%d" % (rng.choice(["", "k", "0", "1.", "-"]), i) for i in range(n)]))[:n]
            rng.shuffle(ks)
            items = ["%s=%s" % (hk(k), v) for k, v in zip(ks, vals)]
        elif shape == "ad":
            items = ["%d=%s" % (i + 1, v) for i, v in enumerate(vals)]
        else:
            slots = sorted(rng.sample(range(0 if rng.random() < 0.5 else 1, n + rng.randrange(1, 8)), n)) if n else []
            items = ["%d=%s" % (j, v) for j, v in zip(slots, vals)]
        if items and rng.random() < 0.3:
            # a few more elements, removed again with `delete` (front / middle / end)
            if shape[0] == "m":
                for i in range(rng.randrange(1, 4)):
                    k = hk("del%d" % i)
                    items.insert(rng.randrange(len(items) + 1), "%s=I%d" % (k, i))
                    dels.append("-" + k)
            else:
                used = {int(it.split("=")[0]) for it in items}
                for j in rng.sample(range(0, max(used) + 3), min(3, max(used) + 3)):
                    if j not in used:
                        items.append("%d=I7" % j)
                        dels.append("-%d" % j)
                        used.add(j)
        fn = rng.choice(FN_WEIGHTED)
        if fn in ("a7", "a8"):
            fn = "a1"
        if rng.random() < 0.04 and vals and all(kind_of(x, descs) == "num" for x in vals):
            fn = "u6"
            if rng.random() < 0.5:
                items[rng.randrange(len(items))] = items[0].split("=")[0] + "=I13" if len(items) == 1 else items[rng.randrange(len(items))].split("=")[0] + "=I13"
        ch = ["asortx %s %s %s" % (fn, "m" if shape[0] == "m" else "a", " ".join(items + dels))]
        if rng.random() < 0.02:
            ch = ["asortx %s n" % fn]
        while rng.random() < 0.25 and len(ch) < 3:
            ch.append("asortx %s k" % rng.choice(["a7", "a8", "a8"]))
        chains.append(ch)
    return chains


def asortx_phase(ctx, sess, cfg, pool, descs, n_cases, stats, hits, corr):
    """the real asort/asorti through the harness on every kind of source / destination form / comparator; the property
    oracle (asortx_judge) first, the model second.  Returns the number of calls evaluated."""
    chains = gen_asortx_chains(ctx.rng, pool, descs, n_cases)
    res, st = eval_chains(sess, cfg, chains)
    if res is None:
        # the runtime died somewhere in the batch: find the chain (bounded search)
        for ch in chains[:400]:
            r1, st1 = eval_chains(sess, cfg, [ch])
            if r1 is None:
                hits.append(("asort/asorti kills the runtime (%s)" % st1[:200], "cfg %d %d %d %d\n" % cfg + "\n".join(ch) + "\n", None))
                return 0
        corr.append(("asortx harness batch failed (%s) but no single chain reproduces it" % st[:300], "cfg %d %d %d %d\n" % cfg + "\n".join(chains[0]) + "\n"))
        return 0
    nhit = 0
    ncalls = 0
    for ch, rr in zip(chains, res):
        for r in rr:
            ncalls += 1
            stats["asort_calls"] = stats.get("asort_calls", 0) + 1
            n = r["n"]
            key = "asort_%s_%s_%s" % (r["fn"], r["src"], "0" if n == 0 else "1-6" if n < 7 else "7-40" if n <= 40 else ">40")
            stats[key] = stats.get(key, 0) + 1
            if r["onekind"] and r["judge"] is None:
                stats["asort_one_kind"] = stats.get("asort_one_kind", 0) + 1
        bad = [r for r in rr if r["judge"]]
        if bad and nhit < 2 and len(hits) < 4:      # bound what a violating tree can cost: at most 4 shrunk reports per run
            nhit += 1
            # shrink: ddmin over the items of the base line (the follow-up `k` lines stay), judged in a fresh process; confirm
            w = ch[0].split()
            headw, items = w[:3], w[3:]

            def fails(sub):
                r1, _ = eval_chains(sess, cfg, [[" ".join(headw + list(sub))] + ch[1:]])
                return r1 is None or any(x["judge"] for x in r1[0])
            small = C.ddmin(items, fails, max_tests=40) if len(items) > 1 else items
            ch2 = [" ".join(headw + list(small))] + ch[1:]
            # drop follow-up lines that are not needed
            for cut in range(1, len(ch2)):
                r1, _ = eval_chains(sess, cfg, [ch2[:cut]])
                if r1 is None or any(x["judge"] for x in r1[0]):
                    ch2 = ch2[:cut]
                    break
            r1, _ = eval_chains(sess, cfg, [ch2])
            if r1 is not None and not any(x["judge"] for x in r1[0]):
                ch2 = ch
                r1, _ = eval_chains(sess, cfg, [ch2])
            if r1 is None:
                hits.append(("asort/asorti kills the runtime", "cfg %d %d %d %d\n" % cfg + "\n".join(ch2) + "\n", None))
            else:
                b = [x for x in r1[0] if x["judge"]]
                if b:
                    hits.append((b[0]["judge"], "# feed to harness/cmp_h.c\ncfg %d %d %d %d\n" % cfg + "\n".join(ch2) + "\n# impl:\n" + "\n".join(x["out"] for x in r1[0]) + "\n", None))
                else:
                    corr.append((bad[0]["judge"] + " — seen once inside a batch, not reproducible in a fresh process", "cfg %d %d %d %d\n" % cfg + "\n".join(ch) + "\n"))
        for r in rr:
            if r["corr"] and len(corr) < 8:
                corr.append((r["corr"], "cfg %d %d %d %d\n" % cfg + "\n".join(ch) + "\n# impl: %s\n" % r["out"][:400]))
    return ncalls


def hawk_literal(spec):
    """hawk source text that evaluates to the value, or None"""
    k = spec[0]
    if k == "N":
        return "@nil"
    if k == "I":
        v = int(spec[1:])
        return None if abs(v) >= 2 ** 62 else ("(%d)" % v)
    if k == "F":
        t = spec[1:]
        if not (all(c in "0123456789.-e" for c in t) and "." in t):
            return None
        # hawk's own parser does not read every long decimal literal to the same float as strtold (which builds the
        # harness value the descriptor belongs to): `7811798266873902.0` comes out a hair off and is then no longer
        # integral.  Since fix 65b4a33 an integral float prints as an integer, so the two values would print differently.
        # Literals are therefore limited to short ones; large and exact floats are exercised in-process (asortx).
        try:
            fv = float(t)
        except ValueError:
            return None
        if len(t.replace("-", "").replace(".", "").lstrip("0")) > 9 and "e" not in t:
            return None
        if fv == int(fv) and abs(fv) >= 1e6 and abs(fv) < 2.0 ** 64:
            return None
        return "(%s)" % t
    if k == "C":
        c = int(spec[1:])
        return "'%s'" % chr(c) if 32 < c < 127 and chr(c) not in "'\\" else None
    if k == "B":
        c = int(spec[1:])
        return "@b'%s'" % chr(c) if 32 < c < 127 and chr(c) not in "'\\" else None
    if k in "SM":
        raw = spec[1:]
        if k == "S":
            txt = "".join(chr(int(raw[i:i + 4], 16)) for i in range(0, len(raw), 4))
        else:
            txt = bytes.fromhex(raw).decode("latin-1")
        if not all(32 <= ord(c) < 127 and c not in "\"\\" for c in txt):
            return None
        return ("\"%s\"" if k == "S" else "@b\"%s\"") % txt
    return None


def cli_phase(ctx, libdir, sess, cfg, pool, descs, impl, n_progs, stats, hits):
    """asort/asorti at language level through the CLI: literals; map, hawk::array (dense, sparse, slot 0, deleted elements),
    numeric-looking map keys; two-argument, in-place, source = destination forms; a result sorted again"""
    hawk = os.path.join(libdir, "hawk")
    rng = ctx.rng
    ic, nc, ss, fm = cfg
    lit = {s: hawk_literal(s) for s in pool if is_scalar(s) and s[0] != "T"}
    lit = {s: l for s, l in lit.items() if l}
    by_kind = {}
    for s in lit:
        by_kind.setdefault(kind_of(s, descs), []).append(s)
    # numeric strings at language level: the keys handed out by for-in carry the numeric-string flag
    nstr_txt = [t for t in ["10", "9", "1.5", "-1", "1e1", "010", "1.0", "0x10"] if T(t) in descs and descs[T(t)][1] != "0"]

    def key_of(s):
        """(typename, printed text) of a pool value, from its descriptor"""
        d = descs[s]
        k = d[0]
        tn = {"N": "nil", "C": "char", "B": "bchar", "I": "int", "F": "flt", "S": "str", "M": "mbs"}[k]
        if k in "IF":
            os_ = [f for f in d.split(";") if f.startswith("os=")][0][3:]
            return (tn, "".join(chr(int(os_[i:i + 4], 16)) for i in range(0, len(os_), 4)))
        if k == "S":
            u = d.split(";")[1]
            return (tn, "".join(chr(int(u[i:i + 4], 16)) for i in range(0, len(u), 4)))
        if k == "M":
            return (tn, bytes.fromhex(d.split(";")[1]).decode("latin-1"))
        if k == "C" or k == "B":
            return (tn, chr(int(d[1:])))
        return (tn, "")

    evals = 0
    for pi in range(n_progs):
        blocks = []        # dict(form, kind, exp: [(typename, text)], spec_of: {(typename, text): spec}, ordered: bool)
        stm = ["IGNORECASE = %d;" % ic]
        ncalls = rng.randrange(2, 6)
        for ci in range(ncalls):
            r = rng.random()
            n = rng.choice([0, 1, 2, 3, 5, 6, 7, 9, 15, 41, 50])
            if r < 0.12 and nstr_txt:
                kind = "nstr"
                els = [T(rng.choice(nstr_txt)) for _ in range(n)]
            elif r < 0.75:
                kind = rng.choice([k for k in ["num", "str", "mbs", "char", "bchr"] if by_kind.get(k)])
                els = [rng.choice(by_kind[kind]) for _ in range(n)]
            else:
                kind = "mixed"
                els = [rng.choice(list(lit)) for _ in range(min(n, 9))]
            form = rng.choice(["map2", "map1", "arr2", "keys", "arrsp_v", "arrsp_k", "same", "resort_k", "mapkeys"])
            if kind == "nstr":
                form = "map2"
            v = "x%d" % ci
            y = "y%d" % ci
            exp = None
            spec_of = {}
            if form == "keys":
                kind = "str"
                els = list({rng.choice(by_kind["str"]) for _ in range(n)})
                for k in els:
                    stm.append("%s[%s] = 1;" % (v, lit[k]))
                stm.append("r = asorti(%s, %s);" % (v, y))
                stm.append("%s[\"stale\"]; delete %s[\"stale\"];" % (y, y))
            elif form == "mapkeys":
                # numeric-looking, numeric and mixed subscripts of a map: asorti returns them as plain strings
                kind = "str"
                ks = list(dict.fromkeys(rng.choice(["10", "9", "1.5", "-1", "007", " 1", "1e1", "abc", "2", "11", "100", "x", ""]) for _ in range(n)))
                for k in ks:
                    stm.append("%s[%s] = 1;" % (v, ("\"%s\"" % k) if (rng.random() < 0.6 or not k.isdigit() or k != str(int(k))) else k))
                exp = [("str", k) for k in ks]
                spec_of = {("str", k): S(k) for k in ks}
                els = ks
                stm.append("r = asorti(%s, %s);" % (v, y))
            elif form == "arr2":
                stm.append("%s = hawk::array(%s);" % (v, ", ".join(lit[e] for e in els)) if els else "%s = hawk::array(1); delete %s[1];" % (v, v))
                stm.append("r = asort(%s, %s);" % (v, y))
            elif form in ("arrsp_v", "arrsp_k"):
                # an array whose occupied slots are not 1..n: elements deleted from the front / middle, slot 0, a far slot
                base = els if els else [rng.choice(list(lit))]
                stm.append("%s = hawk::array(%s);" % (v, ", ".join(lit[e] for e in base)))
                slots = {i + 1: e for i, e in enumerate(base)}
                for dslot in rng.sample(sorted(slots), min(len(slots), rng.randrange(0, 4))):
                    stm.append("delete %s[%d];" % (v, dslot))
                    del slots[dslot]
                if rng.random() < 0.5:
                    e = rng.choice(base)
                    stm.append("%s[0] = %s;" % (v, lit[e]))
                    slots[0] = e
                if rng.random() < 0.5:
                    e = rng.choice(base)
                    far = len(base) + rng.randrange(2, 6)
                    stm.append("%s[%d] = %s;" % (v, far, lit[e]))
                    slots[far] = e
                if form == "arrsp_v":
                    els = [slots[k] for k in sorted(slots)]
                    stm.append("r = asort(%s, %s);" % (v, y))
                else:
                    kind = "num"
                    els = sorted(slots)
                    exp = [("int", str(k)) for k in els]
                    spec_of = {("int", str(k)): "I%d" % k for k in els}
                    stm.append("r = asorti(%s, %s);" % (v, y))
            else:
                if kind == "nstr":
                    # the values are for-in keys of helper maps (flag set by hawk_rtx_makenstrvalwithoochars)
                    for i, e in enumerate(els):
                        txt = "".join(chr(int(e[1 + 4 * j:5 + 4 * j], 16)) for j in range((len(e) - 1) // 4))
                        stm.append("delete h; h[\"%s\"] = 1; for (k in h) %s[%d] = k;" % (txt, v, i + 1))
                else:
                    for i, e in enumerate(els):
                        stm.append("%s[%d] = %s;" % (v, i + 1, lit[e]))
                if not els:
                    stm.append("%s[1] = 1; delete %s[1];" % (v, v))
                if form == "map1":
                    stm.append("r = asort(%s); for (k in %s) %s[k] = %s[k];" % (v, v, y, v))
                elif form == "same":
                    stm.append("r = asort(%s, %s); for (k in %s) %s[k] = %s[k];" % (v, v, v, y, v))
                elif form == "resort_k":
                    # the subscripts of a previous result: "1".."n"
                    kind = "str"
                    stm.append("asort(%s, t%d); r = asorti(t%d, %s);" % (v, ci, ci, y))
                    exp = [("str", str(i + 1)) for i in range(len(els))]
                    spec_of = {("str", str(i + 1)): S(str(i + 1)) for i in range(len(els))}
                else:
                    if rng.random() < 0.3:
                        stm.append("%s[1] = \"stale1\"; %s[2] = \"stale2\"; %s[77] = \"stale3\";" % (y, y, y))
                    stm.append("r = asort(%s, %s);" % (v, y))
            stm.append("printf \"call|%d|%%d|%%d\\n\", r, length(%s);" % (ci, y))
            stm.append("for (i = 1; i <= length(%s); i++) printf \"out|%d|%%s|%%s\\n\", hawk::typename(%s[i]), %s[i];" % (y, ci, y, y))
            if exp is None:
                exp = [key_of(e) for e in els]
                for e in els:
                    spec_of.setdefault(key_of(e), e)
            blocks.append(dict(form=form, kind=kind, exp=exp, spec_of=spec_of, ordered=(kind != "mixed")))
        prog = "BEGIN { " + " ".join(stm) + " }"
        args = ["timeout", "-s", "KILL", "30", hawk, "--ncmponstr=%s" % ("on" if nc else "off"), "--stripstrspc=%s" % ("on" if ss else "off"), prog]
        rc, out, err = C.sh(args, timeout=40, env=C.ASAN_ENV)
        evals += 1
        st = C.classify_rc(rc, err.decode(errors="replace"))
        replay = "# run: <libdir>/hawk --ncmponstr=%s --stripstrspc=%s '<prog>'\n%s\n" % ("on" if nc else "off", "on" if ss else "off", prog)
        if st != "ok":
            hits.append(("hawk CLI failed on an asort program (%s): %s" % (st, err.decode(errors="replace")[-300:]), replay, None))
            break
        got = {}
        calls = {}
        for l in out.decode(errors="replace").split("\n"):
            f = l.split("|", 3)
            if f[0] == "call":
                calls[int(f[1])] = (int(f[2]), int(f[3]))
            elif f[0] == "out" and len(f) == 4:
                got.setdefault(int(f[1]), []).append((f[2], f[3]))
        # real comparison results the pool matrix does not hold (subscript values)
        need = set()
        for ci, b in enumerate(blocks):
            o = got.get(ci, [])
            if b["ordered"] and sorted(o) == sorted(b["exp"]):
                seq = [b["spec_of"][k] for k in o]
                need.update((seq[i], seq[i + 1]) for i in range(len(seq) - 1) if (seq[i], seq[i + 1]) not in impl)
        if need:
            need = sorted(need)
            rc3, o3, e3 = sess.harness(["cfg %d %d %d %d" % cfg] + ["cmp %s %s" % p_ for p_ in need])
            if rc3 == 0 and len(o3) == len(need) + 1:
                for p_, l in zip(need, o3[1:]):
                    impl[p_] = parse_cmp(l)
        for ci, b in enumerate(blocks):
            form, kind, exp = b["form"], b["kind"], b["exp"]
            n = len(exp)
            stats["cli_calls"] = stats.get("cli_calls", 0) + 1
            stats["cli_" + form] = stats.get("cli_" + form, 0) + 1
            o = got.get(ci, [])
            if ci not in calls:
                hits.append(("hawk CLI printed no result for asort call %d" % ci, replay, None))
                return evals
            rv, ln = calls[ci]
            if n == 0:
                if ln != 0 or rv != 0:
                    hits.append(("asort/asorti (CLI, form %s) of an empty source returned %d and left %d element(s) in the destination" % (form, rv, ln), replay, SIG_EMPTY))
                continue
            if rv != n or ln != n or sorted(o) != sorted(exp):
                hits.append(("asort/asorti (CLI, form %s, kind %s) did not return a permutation of its input: rv=%d length=%d; expected the %d elements %s; got %s" % (
                    form, kind, rv, ln, n, sorted(exp)[:12], o[:12]), replay, None))
                return evals
            if b["ordered"]:
                seq = [b["spec_of"][k] for k in o]
                for i in range(n - 1):
                    p = impl.get((seq[i], seq[i + 1]))
                    if p is None or p[1] is None or p[1] > 0:
                        hits.append(("asort/asorti (CLI, form %s) of one-kind input (%s) is not non-decreasing at position %d: %s then %s" % (form, kind, i, o[i], o[i + 1]), replay, None))
                        return evals
                stats["cli_one_kind"] = stats.get("cli_one_kind", 0) + 1
    return evals


def zls_probe(ctx, sess):
    """side observation (not a C11 law): does creating a numeric string from empty input change how an already
    existing plain empty string compares?  (hawk_rtx_makenstrvalwithoochars writes v_nstr into the static hawk_zls)"""
    rc, out, err = sess.harness(["cfg 0 0 1 1", "cmp I-1 S", "desc T", "cmp I-1 S", "desc S"])
    if rc != 0 or len(out) != 5:
        return "probe failed"
    if out[1] != out[3]:
        ctx.log("SIDE OBSERVATION (outside C11): -1 < \"\" was %s, after creating a numeric string from empty input (as `$0 = \"\"` does) it is %s; "
                "the static zero-length string now reads %s" % (out[1], out[3], out[4].split(";")[0]))
        return "plain empty string changed its numeric-string flag: %s -> %s" % (out[1], out[3])
    return "stable"


# ----------------------------------------------------------------------------------------------
def translate(ctx):
    try:
        changed, info = cmp_table.generate(C.REPO)
    except cmp_table.TranslateError as e:
        ctx.problem("corr", "translator extract/cmp_table.py could not read lib/run.c (fail closed): %s" % e, str(e) + "\n", found_input=False)
        return None
    # audit trail: has the text of a routine with own comparison code changed since it was transcribed into Cmp.lean?
    rec = os.path.join(C.VERIF, "extract", "cmp_base_digests.json")
    if os.path.exists(rec):
        import json
        old = json.load(open(rec))
        now = {"%d,%d" % k: v for k, v in info["digests"].items()}
        changed_bases = sorted(k for k in set(old) | set(now) if old.get(k) != now.get(k))
        info["changed_bases"] = changed_bases
        if changed_bases:
            ctx.log("NOTE: the source text of base routines %s differs from the text that was transcribed (extract/cmp_base_digests.json); "
                    "behaviour is judged by the property oracle and the correspondence run below" % changed_bases)
    ctx.log("translator: %d table entries, %s; Gen/CmpTable.lean %s" % (
        len(info["table"]), ", ".join("%s=%d" % (k, sum(1 for s in info["shapes"].values() if s[0] == k)) for k in ["base", "mirror", "alias", "notEqual", "reject"]),
        "rewritten" if changed else "unchanged"))
    return info


CFGS_QUICK = [(0, 0, 1, 1), (1, 0, 1, 1), (0, 1, 1, 1), (1, 1, 0, 1), (0, 0, 0, 0), (1, 1, 1, 0)]
CFGS_ALL = [(ic, nc, ss, fm) for ic in (0, 1) for nc in (0, 1) for ss in (0, 1) for fm in (0, 1)]


def desc_field(d, key):
    for f in d.split(";"):
        if f.startswith(key + "="):
            return f[len(key) + 1:]
    return None


def check_hypotheses(cfg, pool, descs, impl):
    """the two hypotheses of teq_implies_eq, evaluated on the real conversions (they are not laws of the property):
    NstrOK: v_nstr is 0 or hawk_oochars_to_num()+1;  FoldNum: strings the real `===` accepts convert to the same numbers"""
    bad = []
    strs = [x for x in pool if x[0] in "ST"]
    for x in strs:
        d = descs[x]
        n = int(d[1])
        k = int(desc_field(d, "num").split(":")[0])
        if n != 0 and n != k + 1:
            bad.append("NstrOK fails for %s: v_nstr=%d but hawk_oochars_to_num says %d" % (spec_text(x), n, k))
    for a in strs:
        for b in strs:
            r = impl.get((a, b))
            if r and r[2] != "ERR" and len(r[2]) == 8 and r[2][6] == "1":      # a === b on the real code
                da, db = descs[a], descs[b]
                if desc_field(da, "num").split(":")[0] != desc_field(db, "num").split(":")[0] or desc_field(da, "ti") != desc_field(db, "ti") \
                        or desc_field(da, "ff").split(":", 1)[1] != desc_field(db, "ff").split(":", 1)[1]:
                    bad.append("FoldNum fails for %s === %s: conversions differ: %s vs %s" % (spec_text(a), spec_text(b), da, db))
    return bad


def confirm_pair(sess, cfg, a, b):
    """re-evaluate the laws for one pair in a fresh process; returns (violated laws, impl lines)"""
    rc, out, err = sess.harness(["cfg %d %d %d %d" % cfg, "cmp %s %s" % (a, b), "cmp %s %s" % (b, a)])
    if rc != 0 or len(out) != 3:
        return ["harness-died:" + C.classify_rc(rc, err)], out
    return check_laws(parse_cmp(out[1]), parse_cmp(out[2])), out


THEOREMS_ABOUT_MODEL = "cmp_antisymm, trichotomy, lt_iff_gt_swapped, le_iff_lt_or_eq, ne_iff_not_eq, eq_symm, teq_implies_eq, cmp_total_preorder_on_kind, asort_perm, asort_sorted_on_kind"


def run(ctx):
    info = translate(ctx)
    proof = C.prove(ctx, "HawkModel.Props.C11", leanchecker=(ctx.tier == "thorough"))
    tie = ctie.tie(ctx, "C11", leanchecker=(ctx.tier == "thorough"))   # leaf comparators / hint table of run.c: translated C = model
    libdir = C.build_libhawk(ctx)
    exe = C.cc_harness(ctx, os.path.join(C.VERIF, "harness", "cmp_h.c"), link_lib=libdir)
    sess = Session(ctx, exe)
    C.driver_exe(ctx)
    rng = ctx.rng
    quick = ctx.tier == "quick"
    stats = {}
    evaluations = 0
    nontrivial = set()
    law_counts = {k: 0 for k in LAW_NAMES}
    samples = []
    hits = []     # (what, replay, sig): the property broken on the REAL code's own output  -> impl, found_input=True
    corr = []     # (what, replay): model/implementation differences, broken hypotheses       -> corr, no failing input

    # corpus: replay files of past failures, run first
    cdir = os.path.join(C.VERIF, "corpus", "C11")
    corpus_pairs = []
    if os.path.isdir(cdir):
        for f in sorted(os.listdir(cdir)):
            cur = None
            for l in open(os.path.join(cdir, f)):
                w = l.split()
                if not w or w[0].startswith("#"):
                    continue
                if w[0] == "cfg" and len(w) == 5:
                    cur = tuple(int(x) for x in w[1:])
                elif w[0] == "cmp" and len(w) == 3 and cur:
                    corpus_pairs.append((cur, w[1], w[2]))

    base = base_pool()
    cfgs = CFGS_QUICK if quick else CFGS_ALL
    reported = set()
    for ci, cfg in enumerate(cfgs):
        extra = random_values(rng, 40 if quick else 300)
        pool = list(dict.fromkeys(base + extra + [p for c, a, b in corpus_pairs if c == cfg for p in (a, b)]))
        full = pool + (NONSCALAR if (ci % 2 == 0 or not quick) else [])
        pairs = [(a, b) for a in full for b in full]
        descs, impl_l, model_l, st = run_matrix(ctx, sess, cfg, full, pairs)
        if st != "ok":
            # the runtime died (sanitizer report, signal, hang) somewhere in the batch: find the pair
            culprit = None
            for (a, b) in pairs:
                v, o = confirm_pair(sess, cfg, a, b)
                if v and v[0].startswith("harness-died"):
                    culprit = (a, b, v[0]); break
            if culprit:
                hits.append(("comparing %s with %s kills the runtime (%s)" % (spec_text(culprit[0]), spec_text(culprit[1]), culprit[2]), pair_replay(cfg, culprit[0], culprit[1]), None))
            else:
                corr.append(("harness batch failed under cfg %r (%s) but no single pair reproduces it" % (cfg, st[:300]), "cfg %d %d %d %d\n# pool of %d values, all ordered pairs\n%s" % (cfg + (len(full), st))))
            continue
        if "mant=64" not in sess.harness(["cfg %d %d %d %d" % cfg])[1][0]:
            corr.append(("hawk_flt_t is not the 64-bit-mantissa long double that the hypothesis FltLaws.ofInt_lt (int->float exact, strictly monotone) stands for", "cfg %d %d %d %d\n" % cfg))
        evaluations += len(pairs)
        impl = {p: parse_cmp(l) for p, l in impl_l.items()}
        # (1) the property's laws, directly on the real outputs (no model involved)
        for (a, b) in pairs:
            if not (is_scalar(a) and is_scalar(b)):
                pq = impl[(a, b)]
                if pq is not None and pq[3] is not None and pq[3] not in ("10", "01") and len(reported) < 6 and (cfg, frozenset((a, b))) not in reported:
                    reported.add((cfg, frozenset((a, b))))
                    hits.append(("`===` and `!==` are not complementary (or fail) for a=%s b=%s: %s" % (spec_text(a), spec_text(b), impl_l[(a, b)]), pair_replay(cfg, a, b), None))
                continue
            if nontrivial_pair(cfg, a, b):
                nontrivial.add((cfg, a, b))
            key = (descs[a][0], descs[b][0])
            stats["pair_%s%s" % key] = stats.get("pair_%s%s" % key, 0) + 1
            bad = check_laws(impl[(a, b)], impl[(b, a)])
            for k in bad:
                law_counts[k] = law_counts.get(k, 0) + 1
            if bad and (cfg, frozenset((a, b))) not in reported and len(reported) < 6:
                reported.add((cfg, frozenset((a, b))))
                what = "comparison laws %s violated by the real code for a=%s b=%s under IGNORECASE=%d NCMPONSTR=%d STRIPSTRSPC=%d: (a,b) -> %s ; (b,a) -> %s" % (
                    bad, spec_text(a), spec_text(b), cfg[0], cfg[1], cfg[2], impl_l[(a, b)], impl_l[(b, a)])
                v2, o2 = confirm_pair(sess, cfg, a, b)       # the pair alone, fresh process
                if v2:
                    hits.append((what, pair_replay(cfg, a, b) + "# impl:\n" + "\n".join(o2) + "\n", None))
                else:
                    # depends on what was created before: replay = the whole creation history of this batch
                    hist = ["cfg %d %d %d %d" % cfg] + ["desc " + x for x in full] + ["cmp %s %s" % (a, b), "cmp %s %s" % (b, a)]
                    rc3, o3, e3 = sess.harness(hist)
                    v3 = check_laws(parse_cmp(o3[-2]), parse_cmp(o3[-1])) if rc3 == 0 and len(o3) == len(hist) else ["harness-died"]
                    if v3:
                        hits.append((what + " (only after the other pool values have been created)", "\n".join(hist) + "\n", None))
                    else:
                        corr.append((what + " — seen once inside a batch, not reproducible", pair_replay(cfg, a, b)))
        # hypotheses of teq_implies_eq on the real conversions
        for m in check_hypotheses(cfg, pool, descs, impl)[:2]:
            corr.append(("hypothesis of teq_implies_eq not met by the real conversions: " + m, "cfg %d %d %d %d\n" % cfg))
        # (2) correspondence with the model, line by line
        ndiff = 0
        for pr_ in pairs:
            if impl_l[pr_] != model_l[pr_]:
                ndiff += 1
                if ndiff == 1:
                    a, b = pr_
                    corr.append(("correspondence broken: lib/run.c and HawkModel.Cmp differ for a=%s b=%s under cfg ic=%d nc=%d ss=%d fm=%d: impl %r model %r" % (
                        spec_text(a), spec_text(b), cfg[0], cfg[1], cfg[2], cfg[3], impl_l[pr_], model_l[pr_]), pair_replay(cfg, a, b) + "# impl: %s\n# model: %s\n" % (impl_l[pr_], model_l[pr_])))
        stats["model_diffs"] = stats.get("model_diffs", 0) + ndiff
        if len(samples) < 6:
            a, b = pairs[rng.randrange(len(pairs))]
            samples.append("cfg=%s %s vs %s -> %s" % ("".join(map(str, cfg)), spec_text(a), spec_text(b), impl_l[(a, b)]))
        # (3) asort / asorti
        if cfg[3] == 1:
            evaluations += asortx_phase(ctx, sess, cfg, pool, descs, 60 if quick else 1500, stats, hits, corr)
            if ci < (2 if quick else 8):
                evaluations += cli_phase(ctx, libdir, sess, cfg, pool, descs, impl, 6 if quick else 100, stats, hits)
        ctx.log("cfg ic=%d nc=%d ss=%d fm=%d: %d values, %d ordered pairs, model diffs %d, property hits so far %d" % (cfg + (len(full), len(pairs), ndiff, len(hits))))

    # ---- decision: the property oracle first ...
    seen = set()
    for what, rp, sig in hits:
        if (sig or what[:60]) in seen:
            continue
        seen.add(sig or what[:60])
        ctx.problem("impl", what, rp, found_input=True, sig=sig)
    # ... correspondence second: reported without a failing input, and only when no unexplained property hit exists
    if corr and not [h for h in hits if h[2] is None]:
        what, rp = corr[0]
        ctx.problem("corr", "%s — the implementation satisfied every law of the property on all %d evaluations, but the theorems (%s) are about the model, which no longer describes this code (%d correspondence problems in total)" % (
            what, evaluations, THEOREMS_ABOUT_MODEL, len(corr)),
            "# correspondence HawkModel.Cmp <-> lib/run.c, lib/fnc.c no longer holds; first difference:\n" + rp + "".join("# also: %s\n" % w[:300] for w, _ in corr[1:6]), found_input=False)

    zls = zls_probe(ctx, sess)
    dist = dict(sorted(stats.items()))
    return C.finish(
        ctx, [proof] + tie, evaluations, len(nontrivial) + stats.get("asort_one_kind", 0) + stats.get("cli_one_kind", 0),
        "pool of %d values (every scalar type, numeric strings made by hawk_rtx_makenstrvalwithoochars with v_nstr 0/1/2, boundary integers, long-double-only floats, "
        "function/map/array values) + seeded random values, ALL ordered pairs under %d configurations (IGNORECASE x NCMPONSTR x STRIPSTRSPC x FLEXMAP); for every scalar pair the 11 laws "
        "are evaluated on the real outputs (property oracle, model-free) and every output line is compared with the Lean driver; asort/asorti in-process and through the CLI on maps, hawk::array arrays, nil/empty sources; "
        "distinct_nontrivial = distinct (cfg, ordered scalar pair) whose operands differ in type or involve a numeric-string value, plus asort calls on one-kind inputs whose sortedness was checked" % (len(base), len(cfgs)),
        samples,
        extra_cov=dict(branch_distribution=dist, side_observation_static_empty_string=zls, descriptor_instability=sorted(UNSTABLE)[:10], law_violations=law_counts, configurations=len(cfgs),
                       property_hits=len(hits), correspondence_problems=len(corr),
                       translator=dict(entries=len(info["table"]) if info else 0, base_routines_changed_since_transcription=(info or {}).get("changed_bases", []), base_digests={"%d,%d" % k: v for k, v in (info["digests"].items() if info else [])})),
        trusted=[ctie.TRUSTED % "C11", "number<->string conversions (hawk_oochars_to_num/_to_int/_to_flt, hawk_rtx_getvaloocstr incl. CONVFMT, hawk_rtx_duputobchars) and case folding are PARAMETERS of the model; "
                 "the driver is instantiated with the implementation's own conversion results (harness `desc`/`fold`)",
                 "hawk_qsortx beyond its insertion-sort path (nmemb >= 7: median selection, partitioning) is not transcribed; its output is checked dynamically (permutation, sortedness, "
                 "element-wise comparator-equality with the model's sorted list, justified by sorted_perm_unique)",
                 "teq_val's pointer-equality shortcut and NaN are not modelled (finite floats)"],
        assumptions=["finite floats; hawk_flt_t converts every hawk_int_t exactly (long double, 64-bit mantissa) — asserted by the harness",
                     "v_nstr of a string is the one hawk_rtx_makenstrvalwithoochars assigns (NstrOK) and number parsing is case-insensitive (FoldNum): both evaluated on the real conversions for every pool string"])


def replay(ctx, path):
    libdir = C.build_libhawk(ctx)
    exe = C.cc_harness(ctx, os.path.join(C.VERIF, "harness", "cmp_h.c"), link_lib=libdir)
    sess = Session(ctx, exe)
    text = open(path).read()
    lines = []
    for l in text.split("\n"):
        l = l.strip()
        if l.startswith("# impl:"):
            break
        if l and not l.startswith("#"):
            lines.append(l)
    if not lines or not lines[0].startswith("cfg "):
        # a CLI program: line 1 of the body is the program
        prog = [l for l in text.split("\n") if l.startswith("BEGIN")]
        if not prog:
            print(text)
            return 1
        opts = [w for l in text.split("\n") if l.startswith("# run:") for w in l.split() if w.startswith("--")]
        rc, out, err = C.sh(["timeout", "-s", "KILL", "30", os.path.join(libdir, "hawk")] + opts + [prog[0]], timeout=40, env=C.ASAN_ENV)
        print(out.decode(errors="replace"))
        print("status:", C.classify_rc(rc, err.decode(errors="replace")), "(compare the out| lines with the input by eye: permutation, order)")
        return 1
    cfg = tuple(int(x) for x in lines[0].split()[1:5])
    rc, out, err = sess.harness(lines)
    bad = 0
    res = {}
    for l, o in zip(lines, out):
        w = l.split()
        if w[0] != "asortx":
            print("%-60s impl: %s" % (l[:60], o[:200]))
        if w[0] == "cmp":
            res[(w[1], w[2])] = parse_cmp(o)
            rc2, o2, e2 = sess.harness([lines[0], "desc " + w[1], "desc " + w[2], "desc " + w[1], "desc " + w[2]])
            m = sess.driver(["cmp %s %s %s" % (cfg_bits(cfg), o2[3], o2[4])])
            print("%-60s model: %s" % ("", m[0]))
            if m[0] != o:
                bad += 1
    # asortx lines: one chain, judged with the property oracle, compared with the model
    chain = [l for l in lines if l.split()[0] == "asortx"]
    if chain:
        r1, st1 = eval_chains(sess, cfg, [chain])
        if r1 is None:
            print("asortx chain: the runtime died (%s)" % st1[:300])
            bad += 1
        else:
            for x in r1[0]:
                print("%s\n   impl: %s\n   property: %s\n   model: %s" % (x["line"][:200], x["out"][:400], "holds" if x["judge"] is None else "BROKEN: " + x["judge"], "agrees" if x["corr"] is None else x["corr"]))
                if x["judge"] or x["corr"]:
                    bad += 1
    # asort lines (older replay files): judge each with the property oracle in a fresh process
    for l in lines:
        w = l.split()
        if w[0] == "asort":
            j, ls, os_ = asort_single(sess, cfg, w[1], w[2], w[3:])
            print("asort %s %s [%d elements]: %s" % (w[1], w[2], len(w) - 3, "property holds" if j is None else "PROPERTY BROKEN: " + j[0]))
            if j is not None:
                bad += 1
    for (a, b), v in res.items():
        if (b, a) in res and is_scalar(a) and is_scalar(b):
            v2 = check_laws(v, res[(b, a)])
            if v2:
                print("laws violated for (%s, %s): %s" % (a, b, v2))
                bad += 1
    print("status:", C.classify_rc(rc, err))
    return 1 if bad or rc != 0 else 0
