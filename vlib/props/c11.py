"""C11 — comparison operators are mutually consistent (lib/run.c __cmp_* family, teq_val, eval_binop_*;
asort/asorti in lib/fnc.c with lib/utl-sort.c).

translate (extract/cmp_table.py -> lean/HawkModel/Gen/CmpTable.lean) -> prove (HawkModel.Props.C11)
-> build libhawk + harness/cmp_h.c -> for every configuration and every ordered pair of a value pool
(plus seeded random values): the real code's hawk_rtx_cmpval result and the 8 operators evaluated at
language level are (1) checked DIRECTLY against the property's laws and (2) compared with the Lean
model (`hawkdrv cmp`).  asort/asorti: real results (in-process through hawk_rtx_callfun and through
the CLI) are checked to be permutations, sorted for one-kind inputs (under the real relation), and
compared with the model."""
import os, time
from .. import common as C
from extract import cmp_table

INT_MIN, INT_MAX = -(2 ** 63), 2 ** 63 - 1
SIG_EMPTY = "asort-empty-source-keeps-destination"


# ----------------------------------------------------------------------------------------------
# value specs
# ----------------------------------------------------------------------------------------------
def S(txt):
    return "S" + "".join("%04x" % ord(c) for c in txt)


def T(txt):
    return "T" + "".join("%04x" % ord(c) for c in txt)


def M(data):
    if isinstance(data, str):
        data = data.encode("utf-8")
    return "M" + "".join("%02x" % b for b in data)


TEXTS = ["", "a", "A", "b", "10", "9", "abc", "ABC", " 1", "1 ", "1e1", "1E1", "0x10", "0X10", "1.5", "-1", "+1", "1.0",
         "10.0", "010", ".", "é", "É", "ab", "1a", "0x1A", "0x1a"]
NTEXTS = ["10", "9", "1.5", "-1", "1e1", "1E1", "0x10", "0X10", " 1", "1 ", "abc", "1.0", "10.0", "010", "+1", "0x1A", "0x1a",
          "9223372036854775807", "1e300"]


def base_pool():
    p = ["N"]
    p += ["C%d" % c for c in (97, 65, 0, 49, 233, 201, 8364)]
    p += ["B%d" % b for b in (97, 65, 0, 49, 200, 232)]
    p += ["I%d" % i for i in (0, 1, -1, 2, 10, 9, 100, INT_MIN, INT_MAX, INT_MAX - 1, 2 ** 53 + 1, 2 ** 53)]
    p += ["F" + f for f in ("0.0", "-0.0", "1.0", "1.5", "-1.5", "10.0", "9.5", "1e300", "-1e300", "0x1p63", "0x8000000000000001p0",
                            "0xfffffffffffffffep-1", "0x1p-1074", "0.1", "9007199254740992.0")]
    p += [S(t) for t in TEXTS]
    p += [T(t) for t in NTEXTS]
    p += [M(t) for t in TEXTS] + [M(b"\xc8"), M(b"\xe8"), M(b"\xff\x00")]
    return p


NONSCALAR = ["Uf", "Ug", "P0", "P2", "A0", "A2"]


def random_values(rng, n):
    out = []
    alpha = "0123456789.eExX+- abAB"
    for _ in range(n):
        k = rng.random()
        if k < 0.12:
            out.append("I%d" % rng.choice([rng.randrange(-20, 20), rng.randrange(INT_MIN, INT_MAX), 2 ** rng.randrange(1, 63), -(2 ** rng.randrange(1, 63)), 2 ** 53 + 1]))
        elif k < 0.24:
            out.append("F" + rng.choice([repr(rng.randrange(-20, 20) / 2.0), float.hex(rng.uniform(-1e3, 1e3)), float.hex(rng.uniform(-1, 1) * 10 ** rng.randrange(-300, 300)),
                                         "0x1p%d" % rng.randrange(50, 70), "%d.0" % rng.randrange(-(2 ** 53), 2 ** 53)]))
        elif k < 0.30:
            out.append("C%d" % rng.choice([rng.randrange(0, 128), rng.randrange(128, 65536)]))
        elif k < 0.36:
            out.append("B%d" % rng.randrange(0, 256))
        else:
            t = "".join(rng.choice(alpha) for _ in range(rng.randrange(0, 6)))
            if rng.random() < 0.4:
                t = rng.choice(["%d" % rng.randrange(-50, 50), "%d.%d" % (rng.randrange(0, 20), rng.randrange(0, 100)), "%de%d" % (rng.randrange(1, 9), rng.randrange(0, 4)),
                                "0x%x" % rng.randrange(0, 300), " %d" % rng.randrange(0, 20), "%d " % rng.randrange(0, 20), "0%o" % rng.randrange(0, 100)])
            # never T(""): hawk_rtx_makenstrvalwithoochars("") sets the flag on the static zero-length string shared by ALL
            # empty strings of the process (see zls_probe), which would make results depend on process history
            out.append(rng.choice([S, S, T, T, M] if t else [S, M])(t))
    return out


def is_scalar(spec):
    return spec[0] in "NCBIFSTM"


# ----------------------------------------------------------------------------------------------
# running both sides
# ----------------------------------------------------------------------------------------------
class Session:
    """one harness process + one driver process worth of lines, evaluated in bulk"""

    def __init__(self, ctx, exe):
        self.ctx = ctx
        self.exe = exe
        self.fold = None

    def harness(self, lines, timeout=None):
        # time budget proportional to the input (sanitized build: ~25 us per cmp line measured; 200x headroom)
        rc, out, err = C.run_harness(self.exe, [], lines, timeout=timeout or (120 + len(lines) // 200))
        return rc, out, err

    def get_fold(self):
        if self.fold is None:
            rc, out, err = self.harness(["fold"])
            if rc != 0 or not out or not out[0].startswith("fold "):
                raise RuntimeError("harness fold failed: %s %s" % (C.classify_rc(rc, err), err[-500:]))
            self.fold = out[0]
        return self.fold

    def driver(self, lines, timeout=None):
        out = C.run_driver(self.ctx, "cmp", [self.get_fold()] + lines, timeout=timeout or (120 + len(lines) // 200))
        return out[1:]


UNSTABLE = set()   # specs whose descriptor changed between the two passes (side observation, not a C11 law)


def cfg_bits(cfg):
    ic, nc, ss, fm = cfg
    return "%d%d%d" % (ic, nc, fm)


def parse_cmp(line):
    """'r=0,-1 o=11010001' -> (rc, n|None, ops str|'ERR')"""
    try:
        r, o = line.split()
        rc, n = r[2:].split(",")
        return int(rc), (None if n == "x" else int(n)), o[2:]
    except Exception:
        return None


LAW_NAMES = ["result-range", "antisymmetry", "trichotomy", "lt-iff-gt-swapped", "le-iff-lt-or-eq", "ne-iff-not-eq", "eq-symmetric",
             "teq-implies-eq", "ops-agree-with-cmpval", "ge-iff-gt-or-eq", "tne-iff-not-teq"]


def check_laws(ab, ba):
    """the property's laws on the REAL outputs for the ordered pair (a,b) and its swap; returns list of violated law names"""
    bad = []
    if ab is None or ba is None:
        return ["unparsable-output"]
    rc1, n1, o1 = ab
    rc2, n2, o2 = ba
    if rc1 != 0 or rc2 != 0 or o1 == "ERR" or o2 == "ERR" or len(o1) != 8 or len(o2) != 8:
        return ["error-on-scalar-operands"]
    lt, le, eq, ne, ge, gt, teq, tne = [c == "1" for c in o1]
    lt2, le2, eq2, ne2, ge2, gt2, teq2, tne2 = [c == "1" for c in o2]
    if n1 not in (-1, 0, 1):
        bad.append("result-range")
    if n1 != -n2:
        bad.append("antisymmetry")
    if [lt, eq, gt].count(True) != 1:
        bad.append("trichotomy")
    if lt != gt2 or gt != lt2:
        bad.append("lt-iff-gt-swapped")
    if le != (lt or eq):
        bad.append("le-iff-lt-or-eq")
    if ne != (not eq):
        bad.append("ne-iff-not-eq")
    if eq != eq2:
        bad.append("eq-symmetric")
    if teq and not eq:
        bad.append("teq-implies-eq")
    if (lt, eq, gt) != (n1 < 0, n1 == 0, n1 > 0):
        bad.append("ops-agree-with-cmpval")
    if ge != (gt or eq):
        bad.append("ge-iff-gt-or-eq")
    if tne != (not teq):
        bad.append("tne-iff-not-teq")
    return bad


def run_matrix(ctx, sess, cfg, pool, pairs):
    """returns (descs, impl results dict (a,b)->parsed, model lines dict (a,b)->line, status)"""
    # descriptors are taken twice: creating a value can change ANOTHER value's descriptor (the static zero-length
    # string shared by all empty strings gets its numeric-string flag set by hawk_rtx_makenstrvalwithoochars("")),
    # so the pass that counts is the one after every value has been created once
    lines = ["cfg %d %d %d %d" % cfg] + ["desc " + s for s in pool] + ["desc " + s for s in pool] + ["cmp %s %s" % p for p in pairs]
    rc, out, err = sess.harness(lines)
    st = C.classify_rc(rc, err)
    if st != "ok" or len(out) != len(lines):
        return None, None, None, "%s (got %d of %d lines) %s" % (st, len(out), len(lines), err[-1500:])
    first = dict(zip(pool, out[1:1 + len(pool)]))
    descs = dict(zip(pool, out[1 + len(pool):1 + 2 * len(pool)]))
    UNSTABLE.update(s for s in pool if first[s] != descs[s])
    impl_lines = out[1 + 2 * len(pool):]
    bits = cfg_bits(cfg)
    mlines = sess.driver(["cmp %s %s %s" % (bits, descs[a], descs[b]) for a, b in pairs])
    impl = {}
    model = {}
    for p, il, ml in zip(pairs, impl_lines, mlines):
        impl[p] = il
        model[p] = ml
    return descs, impl, model, "ok"


def pair_replay(cfg, a, b):
    return "cfg %d %d %d %d\ncmp %s %s\ncmp %s %s\n" % (cfg + (a, b, b, a))


def spec_text(spec):
    k = spec[0]
    try:
        if k in "ST":
            h = spec[1:]
            return "%s\"%s\"" % ("numstr" if k == "T" else "", "".join(chr(int(h[i:i + 4], 16)) for i in range(0, len(h), 4)))
        if k == "M":
            return "@b\"%s\"" % bytes.fromhex(spec[1:]).decode("latin-1")
        if k == "C":
            return "char(%s)" % spec[1:]
        if k == "B":
            return "bchr(%s)" % spec[1:]
    except Exception:
        pass
    return spec


def nontrivial_pair(cfg, a, b):
    """operands of different types, or a numeric-string flag / NCMPONSTR numeric branch can be taken"""
    ta, tb = a[0].replace("T", "S"), b[0].replace("T", "S")
    if ta != tb:
        return True
    return a[0] == "T" or b[0] == "T"


# ----------------------------------------------------------------------------------------------
# asort
# ----------------------------------------------------------------------------------------------
def kind_of(spec, descs):
    """'num' | 'str' (plain) | 'nstr' (numeric string, flag set) | 'mbs' | 'char' | 'bchr' | 'nil' | 'other'"""
    d = descs[spec]
    k = d[0]
    if k in "IF":
        return "num"
    if k == "S":
        return "str" if d[1] == "0" else "nstr"
    return {"M": "mbs", "C": "char", "B": "bchr", "N": "nil"}.get(k, "other")


def parse_asort(line):
    """'in=0,1 rv=2 out=1,0 dst=map' -> dict or None (ERR)"""
    if line.endswith("ERR") or "rv=" not in line:
        return None
    f = dict(x.split("=", 1) for x in line.split())
    lst = lambda s: [int(x) for x in s.split(",")] if s else []
    return dict(inp=lst(f.get("in", "")), rv=int(f["rv"]), out=lst(f.get("out", "")), dst=f.get("dst", "?"))


def gen_asort_cases(rng, pool, descs, n_cases):
    by_kind = {}
    for s in pool:
        if is_scalar(s):
            by_kind.setdefault(kind_of(s, descs), []).append(s)
    cases = []
    # fixed small cases first (every tier)
    cases.append(("v", "m", []))
    cases.append(("v", "m", ["I3", "I1", "I2"]))
    cases.append(("v", "m", []))           # empty source right after a filled destination
    cases.append(("v", "n", []))
    cases.append(("k", "m", [S("b"), S("a"), S("10"), S("9")]))
    cases.append(("v", "a", ["I3", "I1", "F1.5"]))
    cases.append(("v", "a", []))
    cases.append(("k", "a", ["I5", "I6", "I7"]))
    for _ in range(n_cases):
        r = rng.random()
        n = rng.choice([0, 1, 2, 3, 4, 5, 6, 6, 7, 8, 9, 12, 20, 41, 45, 60, 100]) if rng.random() < 0.8 else rng.randrange(0, 130)
        if r < 0.70:
            kind = rng.choice(["num", "num", "str", "str", "nstr", "mbs", "char", "bchr"])
            src = by_kind.get(kind, [])
            if not src:
                continue
            if rng.random() < 0.5:
                src = rng.sample(src, max(1, min(len(src), rng.randrange(2, 8))))   # few distinct values: many duplicates
            elems = [rng.choice(src) for _ in range(n)]
        else:
            allv = [s for s in pool if is_scalar(s)]
            elems = [rng.choice(allv) for _ in range(min(n, 40))]
        mode = rng.choice(["m", "m", "a"])
        cases.append(("v", mode, elems))
        if rng.random() < 0.15:
            keys = list({s for s in ([x for x in by_kind.get("str", []) if x[0] == "S"] + [S("k%d" % i) for i in range(n)])})
            rng.shuffle(keys)
            cases.append(("k", "m", keys[:n]))
        if rng.random() < 0.05:
            cases.append(("k", "a", ["I%d" % i for i in range(n)]))
    return cases


def asort_judge(kv, mode, el, pr, line, rcmp, d2):
    """THE PROPERTY on one real asort/asorti result (independent of the model): returns (message, sig) or None.
    pr = parsed harness line (None = the call failed); rcmp(a, b) = real hawk_rtx_cmpval result or None."""
    n = len(el)
    if pr is None:
        return ("asort failed on scalar elements: %s" % line, None)
    if n == 0:
        if pr["out"] or pr["rv"] != 0:
            return ("asort/asorti of an empty or nil source left %d stale element(s) in the destination (not a permutation of the input): %s" % (len(pr["out"]), line), SIG_EMPTY)
        return None
    if pr["rv"] != n or sorted(pr["out"]) != list(range(n)) or sorted(pr["inp"]) != list(range(n)):
        return ("asort result is not a permutation of its input (n=%d): %s" % (n, line[:300]), None)
    if kv == "k" and mode == "a":
        if pr["out"] != sorted(pr["out"]):
            return ("asorti of an array did not return increasing indices: %s" % line[:300], None)
        return None
    outspecs = [el[i] for i in pr["out"]]
    kinds = {"str"} if kv == "k" else {kind_of(x, d2) for x in el}
    if len(kinds) == 1 and kinds <= {"num", "str", "nstr", "mbs", "char", "bchr"}:
        rng_j = (lambda i: range(i + 1, n)) if n <= 12 else (lambda i: range(i + 1, min(n, i + 2)))
        for i in range(n):
            for j in rng_j(i):
                c = rcmp(outspecs[i], outspecs[j])
                if c is None or c > 0:
                    return ("asort of one-kind input (%s, n=%d) is not non-decreasing: out[%d]=%s > out[%d]=%s (hawk_rtx_cmpval says %s)" % (
                        sorted(kinds)[0], n, i, spec_text(outspecs[i]), j, spec_text(outspecs[j]), c), None)
    return None


def asort_single(sess, cfg, kv, mode, el):
    """run ONE asort case in a fresh process (after a filler call, so that a stale destination is observable) and judge it"""
    uniq = sorted(set(el))
    lines = ["cfg %d %d %d %d" % cfg] + ["desc " + x for x in uniq] + ["desc " + x for x in uniq] + ["asort v m I3 I1 I2", "asort %s %s %s" % (kv, mode, " ".join(el))]
    lines += ["cmp %s %s" % (a, b) for a in uniq for b in uniq]
    rc, out, err = sess.harness(lines)
    if rc != 0 or len(out) != len(lines):
        return ("harness died on a single asort case: %s" % C.classify_rc(rc, err), None), lines, out
    d2 = dict(zip(uniq, out[1 + len(uniq):1 + 2 * len(uniq)]))
    k = 1 + 2 * len(uniq)
    real = {}
    for (a, b), l in zip([(a, b) for a in uniq for b in uniq], out[k + 2:]):
        pc = parse_cmp(l)
        real[(a, b)] = None if pc is None else pc[1]
    pr = parse_asort(out[k + 1])
    return asort_judge(kv, mode, el, pr, out[k + 1], lambda a, b: real.get((a, b)), d2), lines[:k + 2], out[:k + 2]


def asort_phase(ctx, sess, cfg, pool, descs, impl, n_cases, stats, hits, corr):
    """in-process asort/asorti on values of the pool; `impl` = parsed real cmp results for all ordered pool pairs.
    Property oracle hits go to `hits` (confirmed and shrunk), model disagreements to `corr`."""
    rng = ctx.rng
    cases = gen_asort_cases(rng, pool, descs, n_cases)
    extra = sorted({x for _, _, el in cases for x in el if x not in descs})
    lines = ["cfg %d %d %d %d" % cfg] + ["desc " + x for x in extra] + ["asort %s %s %s" % (kv, mode, " ".join(el)) for kv, mode, el in cases]
    rc, out, err = sess.harness(lines)
    st = C.classify_rc(rc, err)
    if st != "ok" or len(out) != len(lines):
        # find the case that kills the harness
        for kv, mode, el in cases:
            j, ls, os_ = asort_single(sess, cfg, kv, mode, el)
            if j and j[0].startswith("harness died"):
                hits.append(("asort crashes the runtime (%s): %s" % (st, err[-300:]), "\n".join(ls) + "\n", None))
                return 0
        corr.append(("asort harness batch failed (%s) but no single case reproduces it" % st, "\n".join(lines[:200]) + "\n" + err[-1500:]))
        return 0
    d2 = dict(descs)
    d2.update(zip(extra, out[1:1 + len(extra)]))
    res = out[1 + len(extra):]
    bits = cfg_bits(cfg)
    # element descriptors as asort meets them: values, or keys (plain strings / 1-based integer indices)
    mlines = []
    parsed = []
    for (kv, mode, el), line in zip(cases, res):
        pr = parse_asort(line)
        parsed.append(pr)
        if pr is None:
            mlines.append("asort %s lst" % bits)
        elif mode == "n":
            mlines.append("asort %s nil" % bits)
        else:
            ds = [("I%d;os=;bs=" % (i + 1)) if (kv == "k" and mode == "a") else d2[el[i]] for i in pr["inp"]]
            mlines.append("asort %s lst %s" % (bits, " ".join(ds)))
    mout = sess.driver(mlines)
    # real comparison results needed below that the pool matrix does not hold
    need = set()
    for (kv, mode, el), pr in zip(cases, parsed):
        if pr and len(el) and sorted(pr["out"]) == list(range(len(el))) and not (kv == "k" and mode == "a"):
            need.update((a, b) for a in set(el) for b in set(el) if (a, b) not in impl)
    if need:
        need = sorted(need)
        rc, o3, e3 = sess.harness(["cfg %d %d %d %d" % cfg] + ["cmp %s %s" % p for p in need])
        if rc == 0 and len(o3) == len(need) + 1:
            for p, l in zip(need, o3[1:]):
                impl[p] = parse_cmp(l)

    def rcmp(a, b):
        p = impl.get((a, b))
        return None if p is None else p[1]

    seen_sig = set()
    for (kv, mode, el), pr, line, ml in zip(cases, parsed, res, mout):
        n = len(el)
        stats["asort_cases"] = stats.get("asort_cases", 0) + 1
        key = "asort_%s%s_%s" % (kv, mode, "0" if n == 0 else "1-6" if n < 7 else "7-40" if n <= 40 else ">40")
        stats[key] = stats.get(key, 0) + 1
        # ---- (1) the property on the real output
        j = asort_judge(kv, mode, el, pr, line, rcmp, d2)
        if j is not None:
            msg, sig = j
            if sig in seen_sig or len(hits) >= 6:
                continue
            seen_sig.add(sig)
            # shrink (ddmin over the elements) with the judge re-evaluated in a fresh process; confirm before reporting
            def fails(sub):
                jj, _, _ = asort_single(sess, cfg, kv, mode, list(sub))
                return jj is not None and jj[1] == sig
            small = C.ddmin(el, fails, max_tests=60) if len(el) > 1 else list(el)
            jj, ls, os_ = asort_single(sess, cfg, kv, mode, small)
            if jj is None or jj[1] != sig:
                small = list(el)
                jj, ls, os_ = asort_single(sess, cfg, kv, mode, small)
            if jj is not None:
                hits.append((jj[0], "# feed to harness/cmp_h.c\n" + "\n".join(l for l in ls if not l.startswith("desc ")) + "\n# impl:\n" + "\n".join(os_[-2:]) + "\n", jj[1]))
            else:
                hits.append((msg + " (seen in a batch of %d calls; does not reproduce in a fresh process)" % len(cases), "\n".join(lines) + "\n", sig))
            continue
        kinds = {"str"} if kv == "k" else {kind_of(x, d2) for x in el}
        if n and len(kinds) == 1 and not (kv == "k" and mode == "a"):
            stats["asort_one_kind"] = stats.get("asort_one_kind", 0) + 1
        if n == 0 or (kv == "k" and mode == "a"):
            continue
        # ---- (2) the model
        replay = "cfg %d %d %d %d\nasort %s %s %s\n" % (cfg + (kv, mode, " ".join(el)))
        if not ml.startswith("rv="):
            corr.append(("model failed where the implementation sorted: model %r impl %r" % (ml, line[:200]), replay))
            continue
        inspecs = [el[i] for i in pr["inp"]]
        outspecs = [el[i] for i in pr["out"]]
        mf = dict(x.split("=", 1) for x in ml.split())
        mspecs = [inspecs[p] for p in ([int(x) for x in mf["out"].split(",")] if mf.get("out") else [])]
        if n < 7:
            if mspecs != outspecs:
                corr.append(("asort (insertion-sort path of hawk_qsortx, n=%d) differs from the model's isort: impl %s model %s" % (n, [spec_text(x) for x in outspecs], [spec_text(x) for x in mspecs]), replay))
        elif len(kinds) == 1 and kinds <= {"num", "str", "nstr", "mbs", "char", "bchr"}:
            for i in range(n):
                if rcmp(outspecs[i], mspecs[i]) != 0:
                    corr.append(("asort (n=%d) is not element-wise comparator-equal to the model's sorted list at position %d (theorem sorted_perm_unique): impl %s model %s" % (n, i, spec_text(outspecs[i]), spec_text(mspecs[i])), replay))
                    break
    return len(cases)


def hawk_literal(spec):
    """hawk source text that evaluates to the value, or None"""
    k = spec[0]
    if k == "N":
        return "@nil"
    if k == "I":
        v = int(spec[1:])
        return None if abs(v) >= 2 ** 62 else ("(%d)" % v)
    if k == "F":
        t = spec[1:]
        return ("(%s)" % t) if all(c in "0123456789.-e" for c in t) and "." in t else None
    if k == "C":
        c = int(spec[1:])
        return "'%s'" % chr(c) if 32 < c < 127 and chr(c) not in "'\\" else None
    if k == "B":
        c = int(spec[1:])
        return "@b'%s'" % chr(c) if 32 < c < 127 and chr(c) not in "'\\" else None
    if k in "SM":
        raw = spec[1:]
        if k == "S":
            txt = "".join(chr(int(raw[i:i + 4], 16)) for i in range(0, len(raw), 4))
        else:
            txt = bytes.fromhex(raw).decode("latin-1")
        if not all(32 <= ord(c) < 127 and c not in "\"\\" for c in txt):
            return None
        return ("\"%s\"" if k == "S" else "@b\"%s\"") % txt
    return None


def cli_phase(ctx, libdir, sess, cfg, pool, descs, impl, n_progs, stats, hits):
    """asort/asorti at language level through the CLI: literals, map and hawk::array sources, in-place and two-argument forms"""
    hawk = os.path.join(libdir, "hawk")
    rng = ctx.rng
    ic, nc, ss, fm = cfg
    lit = {s: hawk_literal(s) for s in pool if is_scalar(s) and s[0] != "T"}
    lit = {s: l for s, l in lit.items() if l}
    by_kind = {}
    for s in lit:
        by_kind.setdefault(kind_of(s, descs), []).append(s)
    # numeric strings at language level: the keys handed out by for-in carry the numeric-string flag
    nstr_txt = [t for t in ["10", "9", "1.5", "-1", "1e1", "010", "1.0", "0x10"] if T(t) in descs and descs[T(t)][1] != "0"]
    evals = 0
    for pi in range(n_progs):
        blocks = []
        stm = ["IGNORECASE = %d;" % ic]
        ncalls = rng.randrange(2, 6)
        for ci in range(ncalls):
            r = rng.random()
            n = rng.choice([0, 1, 2, 3, 5, 6, 7, 9, 15, 41, 50])
            if r < 0.15 and nstr_txt:
                kind = "nstr"
                els = [T(rng.choice(nstr_txt)) for _ in range(n)]
            elif r < 0.75:
                kind = rng.choice([k for k in ["num", "str", "mbs", "char", "bchr"] if by_kind.get(k)])
                els = [rng.choice(by_kind[kind]) for _ in range(n)]
            else:
                kind = "mixed"
                els = [rng.choice(list(lit)) for _ in range(min(n, 9))]
            form = rng.choice(["map2", "map1", "arr2", "keys"])
            if kind == "nstr":
                form = "map2"
            v = "x%d" % ci
            if form == "keys":
                kind = "str"
                keys = list({rng.choice(by_kind["str"]) for _ in range(n)})
                els = keys
                for k in keys:
                    stm.append("%s[%s] = 1;" % (v, lit[k]))
                stm.append("r = asorti(%s, y%d);" % (v, ci))
                stm.append("y%d[\"stale\"]; delete y%d[\"stale\"];" % (ci, ci))
            elif form == "arr2":
                stm.append("%s = hawk::array(%s);" % (v, ", ".join(lit[e] for e in els)) if els else "%s = hawk::array(1); delete %s[1];" % (v, v))
                stm.append("r = asort(%s, y%d);" % (v, ci))
            else:
                if kind == "nstr":
                    # the values are for-in keys of helper maps (flag set by hawk_rtx_makenstrvalwithoochars)
                    for i, e in enumerate(els):
                        txt = "".join(chr(int(e[1 + 4 * j:5 + 4 * j], 16)) for j in range((len(e) - 1) // 4))
                        stm.append("delete h; h[\"%s\"] = 1; for (k in h) %s[%d] = k;" % (txt, v, i + 1))
                else:
                    for i, e in enumerate(els):
                        stm.append("%s[%d] = %s;" % (v, i + 1, lit[e]))
                if not els:
                    stm.append("%s[1] = 1; delete %s[1];" % (v, v))
                if form == "map1":
                    stm.append("r = asort(%s); for (k in %s) y%d[k] = %s[k];" % (v, v, ci, v))
                else:
                    if rng.random() < 0.3:
                        stm.append("y%d[1] = \"stale1\"; y%d[2] = \"stale2\"; y%d[77] = \"stale3\";" % (ci, ci, ci))
                    stm.append("r = asort(%s, y%d);" % (v, ci))
            stm.append("printf \"call|%d|%%d|%%d\\n\", r, length(y%d);" % (ci, ci))
            stm.append("for (i = 1; i <= length(y%d); i++) printf \"out|%d|%%s|%%s\\n\", hawk::typename(y%d[i]), y%d[i];" % (ci, ci, ci, ci))
            blocks.append((form, kind, els))
        prog = "BEGIN { " + " ".join(stm) + " }"
        args = ["timeout", "-s", "KILL", "30", hawk, "--ncmponstr=%s" % ("on" if nc else "off"), "--stripstrspc=%s" % ("on" if ss else "off"), prog]
        rc, out, err = C.sh(args, timeout=40, env=C.ASAN_ENV)
        evals += 1
        st = C.classify_rc(rc, err.decode(errors="replace"))
        replay = "# run: <libdir>/hawk --ncmponstr=%s --stripstrspc=%s '<prog>'\n%s\n" % ("on" if nc else "off", "on" if ss else "off", prog)
        if st != "ok":
            hits.append(("hawk CLI failed on an asort program (%s): %s" % (st, err.decode(errors="replace")[-300:]), replay, None))
            break
        got = {}
        calls = {}
        for l in out.decode(errors="replace").split("\n"):
            f = l.split("|", 3)
            if f[0] == "call":
                calls[int(f[1])] = (int(f[2]), int(f[3]))
            elif f[0] == "out":
                got.setdefault(int(f[1]), []).append((f[2], f[3]))
        for ci, (form, kind, els) in enumerate(blocks):
            n = len(els)
            stats["cli_calls"] = stats.get("cli_calls", 0) + 1
            o = got.get(ci, [])
            if ci not in calls:
                hits.append(("hawk CLI printed no result for asort call %d" % ci, replay, None))
                return evals
            rv, ln = calls[ci]
            if n == 0:
                if ln != 0 or rv != 0:
                    hits.append(("asort/asorti (CLI, form %s) of an empty source returned %d and left %d element(s) in the destination" % (form, rv, ln), replay, SIG_EMPTY))
                continue
            # expected multiset as (typename, printed text): printed text comes from the descriptor's own string form
            def key_of(s):
                d = descs[s]
                k = d[0]
                tn = {"N": "nil", "C": "char", "B": "bchar", "I": "int", "F": "flt", "S": "str", "M": "mbs"}[k]
                if k in "IF":
                    os_ = [f for f in d.split(";") if f.startswith("os=")][0][3:]
                    return (tn, "".join(chr(int(os_[i:i + 4], 16)) for i in range(0, len(os_), 4)))
                if k == "S":
                    u = d.split(";")[1]
                    return (tn, "".join(chr(int(u[i:i + 4], 16)) for i in range(0, len(u), 4)))
                if k == "M":
                    return (tn, bytes.fromhex(d.split(";")[1]).decode("latin-1"))
                if k == "C" or k == "B":
                    return (tn, chr(int(d[1:])))
                return (tn, "")
            exp = sorted(key_of(s) for s in els)
            if rv != n or ln != n or sorted(o) != exp:
                hits.append(("asort (CLI, form %s, kind %s) did not return a permutation of its input: rv=%d length=%d expected %d elements; got %s" % (form, kind, rv, ln, n, o[:12]), replay, None))
                return evals
            if kind != "mixed" or form == "keys":
                k2s = {}
                for s in els:
                    k2s.setdefault(key_of(s), s)
                seq = [k2s[k] for k in o]
                for i in range(n - 1):
                    p = impl.get((seq[i], seq[i + 1]))
                    if p is None or p[1] is None or p[1] > 0:
                        hits.append(("asort (CLI, form %s) of one-kind input (%s) is not non-decreasing at position %d: %s then %s" % (form, kind, i, o[i], o[i + 1]), replay, None))
                        return evals
                stats["cli_one_kind"] = stats.get("cli_one_kind", 0) + 1
    return evals


def zls_probe(ctx, sess):
    """side observation (not a C11 law): does creating a numeric string from empty input change how an already
    existing plain empty string compares?  (hawk_rtx_makenstrvalwithoochars writes v_nstr into the static hawk_zls)"""
    rc, out, err = sess.harness(["cfg 0 0 1 1", "cmp I-1 S", "desc T", "cmp I-1 S", "desc S"])
    if rc != 0 or len(out) != 5:
        return "probe failed"
    if out[1] != out[3]:
        ctx.log("SIDE OBSERVATION (outside C11): -1 < \"\" was %s, after creating a numeric string from empty input (as `$0 = \"\"` does) it is %s; "
                "the static zero-length string now reads %s" % (out[1], out[3], out[4].split(";")[0]))
        return "plain empty string changed its numeric-string flag: %s -> %s" % (out[1], out[3])
    return "stable"


# ----------------------------------------------------------------------------------------------
def translate(ctx):
    try:
        changed, info = cmp_table.generate(C.REPO)
    except cmp_table.TranslateError as e:
        ctx.problem("corr", "translator extract/cmp_table.py could not read lib/run.c (fail closed): %s" % e, str(e) + "\n", found_input=False)
        return None
    # audit trail: has the text of a routine with own comparison code changed since it was transcribed into Cmp.lean?
    rec = os.path.join(C.VERIF, "extract", "cmp_base_digests.json")
    if os.path.exists(rec):
        import json
        old = json.load(open(rec))
        now = {"%d,%d" % k: v for k, v in info["digests"].items()}
        changed_bases = sorted(k for k in set(old) | set(now) if old.get(k) != now.get(k))
        info["changed_bases"] = changed_bases
        if changed_bases:
            ctx.log("NOTE: the source text of base routines %s differs from the text that was transcribed (extract/cmp_base_digests.json); "
                    "behaviour is judged by the property oracle and the correspondence run below" % changed_bases)
    ctx.log("translator: %d table entries, %s; Gen/CmpTable.lean %s" % (
        len(info["table"]), ", ".join("%s=%d" % (k, sum(1 for s in info["shapes"].values() if s[0] == k)) for k in ["base", "mirror", "alias", "notEqual", "reject"]),
        "rewritten" if changed else "unchanged"))
    return info


CFGS_QUICK = [(0, 0, 1, 1), (1, 0, 1, 1), (0, 1, 1, 1), (1, 1, 0, 1), (0, 0, 0, 0), (1, 1, 1, 0)]
CFGS_ALL = [(ic, nc, ss, fm) for ic in (0, 1) for nc in (0, 1) for ss in (0, 1) for fm in (0, 1)]


def desc_field(d, key):
    for f in d.split(";"):
        if f.startswith(key + "="):
            return f[len(key) + 1:]
    return None


def check_hypotheses(cfg, pool, descs, impl):
    """the two hypotheses of teq_implies_eq, evaluated on the real conversions (they are not laws of the property):
    NstrOK: v_nstr is 0 or hawk_oochars_to_num()+1;  FoldNum: strings the real `===` accepts convert to the same numbers"""
    bad = []
    strs = [x for x in pool if x[0] in "ST"]
    for x in strs:
        d = descs[x]
        n = int(d[1])
        k = int(desc_field(d, "num").split(":")[0])
        if n != 0 and n != k + 1:
            bad.append("NstrOK fails for %s: v_nstr=%d but hawk_oochars_to_num says %d" % (spec_text(x), n, k))
    for a in strs:
        for b in strs:
            r = impl.get((a, b))
            if r and r[2] != "ERR" and len(r[2]) == 8 and r[2][6] == "1":      # a === b on the real code
                da, db = descs[a], descs[b]
                if desc_field(da, "num").split(":")[0] != desc_field(db, "num").split(":")[0] or desc_field(da, "ti") != desc_field(db, "ti") \
                        or desc_field(da, "ff").split(":", 1)[1] != desc_field(db, "ff").split(":", 1)[1]:
                    bad.append("FoldNum fails for %s === %s: conversions differ: %s vs %s" % (spec_text(a), spec_text(b), da, db))
    return bad


def confirm_pair(sess, cfg, a, b):
    """re-evaluate the laws for one pair in a fresh process; returns (violated laws, impl lines)"""
    rc, out, err = sess.harness(["cfg %d %d %d %d" % cfg, "cmp %s %s" % (a, b), "cmp %s %s" % (b, a)])
    if rc != 0 or len(out) != 3:
        return ["harness-died:" + C.classify_rc(rc, err)], out
    return check_laws(parse_cmp(out[1]), parse_cmp(out[2])), out


THEOREMS_ABOUT_MODEL = "cmp_antisymm, trichotomy, lt_iff_gt_swapped, le_iff_lt_or_eq, ne_iff_not_eq, eq_symm, teq_implies_eq, cmp_total_preorder_on_kind, asort_perm, asort_sorted_on_kind"


def run(ctx):
    info = translate(ctx)
    proof = C.prove(ctx, "HawkModel.Props.C11", leanchecker=(ctx.tier == "thorough"))
    libdir = C.build_libhawk(ctx)
    exe = C.cc_harness(ctx, os.path.join(C.VERIF, "harness", "cmp_h.c"), link_lib=libdir)
    sess = Session(ctx, exe)
    C.driver_exe(ctx)
    rng = ctx.rng
    quick = ctx.tier == "quick"
    stats = {}
    evaluations = 0
    nontrivial = set()
    law_counts = {k: 0 for k in LAW_NAMES}
    samples = []
    hits = []     # (what, replay, sig): the property broken on the REAL code's own output  -> impl, found_input=True
    corr = []     # (what, replay): model/implementation differences, broken hypotheses       -> corr, no failing input

    # corpus: replay files of past failures, run first
    cdir = os.path.join(C.VERIF, "corpus", "C11")
    corpus_pairs = []
    if os.path.isdir(cdir):
        for f in sorted(os.listdir(cdir)):
            cur = None
            for l in open(os.path.join(cdir, f)):
                w = l.split()
                if not w or w[0].startswith("#"):
                    continue
                if w[0] == "cfg" and len(w) == 5:
                    cur = tuple(int(x) for x in w[1:])
                elif w[0] == "cmp" and len(w) == 3 and cur:
                    corpus_pairs.append((cur, w[1], w[2]))

    base = base_pool()
    cfgs = CFGS_QUICK if quick else CFGS_ALL
    reported = set()
    for ci, cfg in enumerate(cfgs):
        extra = random_values(rng, 40 if quick else 300)
        pool = list(dict.fromkeys(base + extra + [p for c, a, b in corpus_pairs if c == cfg for p in (a, b)]))
        full = pool + (NONSCALAR if (ci % 2 == 0 or not quick) else [])
        pairs = [(a, b) for a in full for b in full]
        descs, impl_l, model_l, st = run_matrix(ctx, sess, cfg, full, pairs)
        if st != "ok":
            # the runtime died (sanitizer report, signal, hang) somewhere in the batch: find the pair
            culprit = None
            for (a, b) in pairs:
                v, o = confirm_pair(sess, cfg, a, b)
                if v and v[0].startswith("harness-died"):
                    culprit = (a, b, v[0]); break
            if culprit:
                hits.append(("comparing %s with %s kills the runtime (%s)" % (spec_text(culprit[0]), spec_text(culprit[1]), culprit[2]), pair_replay(cfg, culprit[0], culprit[1]), None))
            else:
                corr.append(("harness batch failed under cfg %r (%s) but no single pair reproduces it" % (cfg, st[:300]), "cfg %d %d %d %d\n# pool of %d values, all ordered pairs\n%s" % (cfg + (len(full), st))))
            continue
        if "mant=64" not in sess.harness(["cfg %d %d %d %d" % cfg])[1][0]:
            corr.append(("hawk_flt_t is not the 64-bit-mantissa long double that the hypothesis FltLaws.ofInt_lt (int->float exact, strictly monotone) stands for", "cfg %d %d %d %d\n" % cfg))
        evaluations += len(pairs)
        impl = {p: parse_cmp(l) for p, l in impl_l.items()}
        # (1) the property's laws, directly on the real outputs (no model involved)
        for (a, b) in pairs:
            if not (is_scalar(a) and is_scalar(b)):
                continue
            if nontrivial_pair(cfg, a, b):
                nontrivial.add((cfg, a, b))
            key = (descs[a][0], descs[b][0])
            stats["pair_%s%s" % key] = stats.get("pair_%s%s" % key, 0) + 1
            bad = check_laws(impl[(a, b)], impl[(b, a)])
            for k in bad:
                law_counts[k] = law_counts.get(k, 0) + 1
            if bad and (cfg, frozenset((a, b))) not in reported and len(reported) < 6:
                reported.add((cfg, frozenset((a, b))))
                what = "comparison laws %s violated by the real code for a=%s b=%s under IGNORECASE=%d NCMPONSTR=%d STRIPSTRSPC=%d: (a,b) -> %s ; (b,a) -> %s" % (
                    bad, spec_text(a), spec_text(b), cfg[0], cfg[1], cfg[2], impl_l[(a, b)], impl_l[(b, a)])
                v2, o2 = confirm_pair(sess, cfg, a, b)       # the pair alone, fresh process
                if v2:
                    hits.append((what, pair_replay(cfg, a, b) + "# impl:\n" + "\n".join(o2) + "\n", None))
                else:
                    # depends on what was created before: replay = the whole creation history of this batch
                    hist = ["cfg %d %d %d %d" % cfg] + ["desc " + x for x in full] + ["cmp %s %s" % (a, b), "cmp %s %s" % (b, a)]
                    rc3, o3, e3 = sess.harness(hist)
                    v3 = check_laws(parse_cmp(o3[-2]), parse_cmp(o3[-1])) if rc3 == 0 and len(o3) == len(hist) else ["harness-died"]
                    if v3:
                        hits.append((what + " (only after the other pool values have been created)", "\n".join(hist) + "\n", None))
                    else:
                        corr.append((what + " — seen once inside a batch, not reproducible", pair_replay(cfg, a, b)))
        # hypotheses of teq_implies_eq on the real conversions
        for m in check_hypotheses(cfg, pool, descs, impl)[:2]:
            corr.append(("hypothesis of teq_implies_eq not met by the real conversions: " + m, "cfg %d %d %d %d\n" % cfg))
        # (2) correspondence with the model, line by line
        ndiff = 0
        for pr_ in pairs:
            if impl_l[pr_] != model_l[pr_]:
                ndiff += 1
                if ndiff == 1:
                    a, b = pr_
                    corr.append(("correspondence broken: lib/run.c and HawkModel.Cmp differ for a=%s b=%s under cfg ic=%d nc=%d ss=%d fm=%d: impl %r model %r" % (
                        spec_text(a), spec_text(b), cfg[0], cfg[1], cfg[2], cfg[3], impl_l[pr_], model_l[pr_]), pair_replay(cfg, a, b) + "# impl: %s\n# model: %s\n" % (impl_l[pr_], model_l[pr_])))
        stats["model_diffs"] = stats.get("model_diffs", 0) + ndiff
        if len(samples) < 6:
            a, b = pairs[rng.randrange(len(pairs))]
            samples.append("cfg=%s %s vs %s -> %s" % ("".join(map(str, cfg)), spec_text(a), spec_text(b), impl_l[(a, b)]))
        # (3) asort / asorti
        if cfg[3] == 1:
            evaluations += asort_phase(ctx, sess, cfg, pool, descs, impl, 60 if quick else 1500, stats, hits, corr)
            if ci < (2 if quick else 8):
                evaluations += cli_phase(ctx, libdir, sess, cfg, pool, descs, impl, 6 if quick else 100, stats, hits)
        ctx.log("cfg ic=%d nc=%d ss=%d fm=%d: %d values, %d ordered pairs, model diffs %d, property hits so far %d" % (cfg + (len(full), len(pairs), ndiff, len(hits))))

    # ---- decision: the property oracle first ...
    seen = set()
    for what, rp, sig in hits:
        if (sig or what[:60]) in seen:
            continue
        seen.add(sig or what[:60])
        ctx.problem("impl", what, rp, found_input=True, sig=sig)
    # ... correspondence second: reported without a failing input, and only when no unexplained property hit exists
    if corr and not [h for h in hits if h[2] is None]:
        what, rp = corr[0]
        ctx.problem("corr", "%s — the implementation satisfied every law of the property on all %d evaluations, but the theorems (%s) are about the model, which no longer describes this code (%d correspondence problems in total)" % (
            what, evaluations, THEOREMS_ABOUT_MODEL, len(corr)),
            "# correspondence HawkModel.Cmp <-> lib/run.c, lib/fnc.c no longer holds; first difference:\n" + rp + "".join("# also: %s\n" % w[:300] for w, _ in corr[1:6]), found_input=False)

    zls = zls_probe(ctx, sess)
    dist = dict(sorted(stats.items()))
    return C.finish(
        ctx, [proof], evaluations, len(nontrivial) + stats.get("asort_one_kind", 0) + stats.get("cli_one_kind", 0),
        "pool of %d values (every scalar type, numeric strings made by hawk_rtx_makenstrvalwithoochars with v_nstr 0/1/2, boundary integers, long-double-only floats, "
        "function/map/array values) + seeded random values, ALL ordered pairs under %d configurations (IGNORECASE x NCMPONSTR x STRIPSTRSPC x FLEXMAP); for every scalar pair the 11 laws "
        "are evaluated on the real outputs (property oracle, model-free) and every output line is compared with the Lean driver; asort/asorti in-process and through the CLI on maps, hawk::array arrays, nil/empty sources; "
        "distinct_nontrivial = distinct (cfg, ordered scalar pair) whose operands differ in type or involve a numeric-string value, plus asort calls on one-kind inputs whose sortedness was checked" % (len(base), len(cfgs)),
        samples,
        extra_cov=dict(branch_distribution=dist, side_observation_static_empty_string=zls, descriptor_instability=sorted(UNSTABLE)[:10], law_violations=law_counts, configurations=len(cfgs),
                       property_hits=len(hits), correspondence_problems=len(corr),
                       translator=dict(entries=len(info["table"]) if info else 0, base_routines_changed_since_transcription=(info or {}).get("changed_bases", []), base_digests={"%d,%d" % k: v for k, v in (info["digests"].items() if info else [])})),
        trusted=["number<->string conversions (hawk_oochars_to_num/_to_int/_to_flt, hawk_rtx_getvaloocstr incl. CONVFMT, hawk_rtx_duputobchars) and case folding are PARAMETERS of the model; "
                 "the driver is instantiated with the implementation's own conversion results (harness `desc`/`fold`)",
                 "hawk_qsortx beyond its insertion-sort path (nmemb >= 7: median selection, partitioning) is not transcribed; its output is checked dynamically (permutation, sortedness, "
                 "element-wise comparator-equality with the model's sorted list, justified by sorted_perm_unique)",
                 "teq_val's pointer-equality shortcut and NaN are not modelled (finite floats)"],
        assumptions=["finite floats; hawk_flt_t converts every hawk_int_t exactly (long double, 64-bit mantissa) — asserted by the harness",
                     "v_nstr of a string is the one hawk_rtx_makenstrvalwithoochars assigns (NstrOK) and number parsing is case-insensitive (FoldNum): both evaluated on the real conversions for every pool string"])


def replay(ctx, path):
    libdir = C.build_libhawk(ctx)
    exe = C.cc_harness(ctx, os.path.join(C.VERIF, "harness", "cmp_h.c"), link_lib=libdir)
    sess = Session(ctx, exe)
    text = open(path).read()
    lines = []
    for l in text.split("\n"):
        l = l.strip()
        if l.startswith("# impl:"):
            break
        if l and not l.startswith("#"):
            lines.append(l)
    if not lines or not lines[0].startswith("cfg "):
        # a CLI program: line 1 of the body is the program
        prog = [l for l in text.split("\n") if l.startswith("BEGIN")]
        if not prog:
            print(text)
            return 1
        opts = [w for l in text.split("\n") if l.startswith("# run:") for w in l.split() if w.startswith("--")]
        rc, out, err = C.sh(["timeout", "-s", "KILL", "30", os.path.join(libdir, "hawk")] + opts + [prog[0]], timeout=40, env=C.ASAN_ENV)
        print(out.decode(errors="replace"))
        print("status:", C.classify_rc(rc, err.decode(errors="replace")), "(compare the out| lines with the input by eye: permutation, order)")
        return 1
    cfg = tuple(int(x) for x in lines[0].split()[1:5])
    rc, out, err = sess.harness(lines)
    bad = 0
    res = {}
    for l, o in zip(lines, out):
        print("%-60s impl: %s" % (l[:60], o[:200]))
        w = l.split()
        if w[0] == "cmp":
            res[(w[1], w[2])] = parse_cmp(o)
            rc2, o2, e2 = sess.harness([lines[0], "desc " + w[1], "desc " + w[2], "desc " + w[1], "desc " + w[2]])
            m = sess.driver(["cmp %s %s %s" % (cfg_bits(cfg), o2[3], o2[4])])
            print("%-60s model: %s" % ("", m[0]))
            if m[0] != o:
                bad += 1
    # asort lines: judge each with the property oracle in a fresh process
    for l in lines:
        w = l.split()
        if w[0] == "asort":
            j, ls, os_ = asort_single(sess, cfg, w[1], w[2], w[3:])
            print("asort %s %s [%d elements]: %s" % (w[1], w[2], len(w) - 3, "property holds" if j is None else "PROPERTY BROKEN: " + j[0]))
            if j is not None:
                bad += 1
    for (a, b), v in res.items():
        if (b, a) in res and is_scalar(a) and is_scalar(b):
            v2 = check_laws(v, res[(b, a)])
            if v2:
                print("laws violated for (%s, %s): %s" % (a, b, v2))
                bad += 1
    print("status:", C.classify_rc(rc, err))
    return 1 if bad or rc != 0 else 0
