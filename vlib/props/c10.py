"""C10 — running out of memory is an error, never a crash or a leak.

translate (extract/unwind.py -> Gen/Unwind.lean) -> prove (HawkModel.Props.C10) -> build sanitized lib +
harness/oom_h.c -> (1) PROPERTY ORACLE evaluated directly on the real code: fault enumeration over the whole
life cycle (fail exactly the k-th request / every request from the k-th on) for every corpus program, the
ecs operations, the constructor probes and `hawk -m N`; (2) CORRESPONDENCE with the Lean model: constructor
phases (outcome class, number of requests made before the failing call returns) against `hawkdrv oom sim`,
ecs line protocol against `hawkdrv oom`, collect-then-retry prediction for container values.
A hit of (1) is a concrete failing input (program + k + mode); a difference only in (2), a translator
refusal or a failing proof is reported with found_input=False.
"""
import importlib.util, os, re, shutil, threading, time, concurrent.futures
from .. import common as C

ENOMEM = 5
EOPEN = 26
NPROC = 16
PHASES = ["open", "parse", "rtxopen", "exec", "close", "done"]

# known-finding signatures (KNOWN_FINDINGS.txt decides whether they are accepted)
SIG_EOPEN = "oom:sio-open-reports-EOPEN"
SIG_ARRFREE = "oom:arr-insert-grow-failure-frees-callers-value"
SIG_RETVAL = "oom:fnc-setretval-null-value"
SIG_GLOB = "oom:uglob-unwind"
SIG_XARGV = "oom:xargv-index-leak"
SIG_UNPACK = "oom:unpack-setrefval-leak"
SIG_INCPST = "oom:incpst-assign-failure-keeps-values"
# functions whose unwind table does not pass the law on the unchanged tree because of a defect (-> signature)
WIDE_DEFECT_SIGS = {"gem-glob.c:hawk_gem_uglob": SIG_GLOB, "gem-glob.c:hawk_gem_bglob": SIG_GLOB, "run.c:eval_incpst": SIG_INCPST,
                    "parse.c:parse_primary_xarg": SIG_XARGV, "mod-sys.c:unpack_data": SIG_UNPACK}


def load_extractor():
    p = os.path.join(C.VERIF, "extract", "unwind.py")
    spec = importlib.util.spec_from_file_location("c10_unwind", p)
    m = importlib.util.module_from_spec(spec)
    spec.loader.exec_module(m)
    return m


def load_wide():
    p = os.path.join(C.VERIF, "extract", "unwind_wide.py")
    spec = importlib.util.spec_from_file_location("c10_unwind_wide", p)
    m = importlib.util.module_from_spec(spec)
    spec.loader.exec_module(m)
    return m


def translate_wide(ctx):
    """every function of lib/*.c with two or more acquisition sites -> Gen/UnwindWide.lean; returns (summary, problems)
    problems: [(text, sig|None)] - a function that the baseline (extract/unwind_wide.expected) lists as established and that
    no longer translates or no longer passes the law, or a new law violation that the baseline does not know"""
    # the scan (gcc -E + parsing of ~75 files) is a pure function of the translator and of lib/*.[ch]: cached by content
    import hashlib, json, glob
    h = hashlib.sha1()
    for f in [os.path.join(C.VERIF, "extract", "unwind.py"), os.path.join(C.VERIF, "extract", "unwind_wide.py")] + \
            sorted(glob.glob(os.path.join(C.REPO, "lib", "*.[ch]"))):
        h.update(os.path.basename(f).encode()); h.update(open(f, "rb").read())
    cfile = os.path.join(C.CACHE, "c10wide_%s.json" % h.hexdigest()[:20])
    cached = None
    try:
        cached = json.load(open(cfile))
    except (OSError, ValueError):
        pass
    if cached:
        lean_text, summ = cached["lean"], cached["summary"]
    else:
        uw = load_wide()
        est, notest, unh, nfun = uw.scan(C.REPO)
        lean_text = uw.emit(est, notest, unh)
        summ = uw.summary(est, notest, unh, nfun)
        try:
            os.makedirs(C.CACHE, exist_ok=True)
            with open(cfile + ".tmp%d" % os.getpid(), "w") as f:
                json.dump(dict(lean=lean_text, summary=summ), f)
            os.replace(cfile + ".tmp%d" % os.getpid(), cfile)
        except OSError:
            pass
    C.write_if_changed(os.path.join(C.LEAN, "HawkModel", "Gen", "UnwindWide.lean"), lean_text)
    probs = []
    def readlist(fn):
        try:
            return [l.split("#")[0].strip() for l in open(os.path.join(C.VERIF, "extract", fn)) if l.split("#")[0].strip()]
        except OSError:
            return None
    exp = readlist("unwind_wide.expected")
    known_bad = set(readlist("unwind_wide.notestablished") or [])
    now = set(summ["established_wide"])
    why = {d["fn"]: d["why"] for d in summ["not_established"]}
    why.update({d["fn"]: "the translator cannot express it any more: " + d["reason"] for d in summ["unhandled"]})
    if exp is None:
        probs.append(("extract/unwind_wide.expected is missing", None))
    else:
        for fn in exp:
            if fn not in now:
                probs.append(("%s: its unwind table passed the law (every failure exit releases exactly what is held, once) on the baseline tree and does not now: %s"
                              % (fn, why.get(fn, "the function is gone or has fewer than two acquisition sites")), WIDE_DEFECT_SIGS.get(fn)))
    for d in summ["not_established"]:
        if d["fn"] not in known_bad and (exp is None or d["fn"] not in exp):
            probs.append(("%s: the extracted unwind table violates the law: %s" % (d["fn"], d["why"]), WIDE_DEFECT_SIGS.get(d["fn"])))
    return summ, probs


API_CASE_FUNCTIONS = {"hawk_gem_uglob", "hawk_gem_bglob", "hawk_gem_buildrex", "hawk_arr_update", "hawk_rtx_callwithbcstrarr", "hawk_rtx_callwithucstrarr",
                      "hawk_rtx_callwithooucstrarr", "hawk_rtx_callwithoobcstrarr"}


def wide_site_coverage(summ, lines):
    """which steps of the wide tables had a refusal injected inside them: a step (function f, callee g) is reached when some
    injected failure's call chain contains g (or is directly in f for a plain allocator request) below f"""
    chains = set()
    for d in lines:
        if d.get("hit") and d.get("site", "-") not in ("-", "?"):
            chains.add(tuple(d["site"].split("<")))
    below = {}
    for ch in chains:
        for i, f in enumerate(ch):
            below.setdefault(f, set()).update(ch[:i]); below[f].add("prim" if i == 0 else ch[i - 1])
    total = reached = 0
    fn_reached = []
    fn_unreached = []
    for fn, callees in summ.get("steps_by_function", {}).items():
        f = fn.split(":")[1]
        got = below.get(f)
        for g in callees:
            total += 1
            if SITE_SKIP.match(g):
                g = "prim"      # allocator wrappers are dropped from the call chains
            alt = {g}
            if g.startswith("ecs_"):
                alt = {"hawk_becs_" + g[4:], "hawk_uecs_" + g[4:]}
            if got is not None and (alt & got):
                reached += 1
        (fn_reached if got is not None else fn_unreached).append(fn)
    # functions driven by a direct API case of harness/oom_api.h (every request of the case is refused in turn; the case lines
    # carry no call chain, so this is per function, not per step)
    by_api = sorted(fn for fn in fn_unreached if fn.split(":")[1] in API_CASE_FUNCTIONS)
    fn_unreached = [fn for fn in fn_unreached if fn not in by_api]
    return dict(functions_reached_by_api_case_only=by_api, steps_named=total, steps_reached=reached, functions=len(fn_reached) + len(fn_unreached) + len(by_api), functions_reached=len(fn_reached) + len(by_api),
                functions_never_failed_in=sorted(fn_unreached))


def translate(ctx):
    """regenerate Gen/Unwind.lean from the working tree; returns (ok, summary|message)"""
    ux = load_extractor()
    try:
        tables = ux.extract(C.REPO)
    except ux.ExtractError as e:
        return False, str(e)
    text = ux.emit(tables)
    C.write_if_changed(os.path.join(C.LEAN, "HawkModel", "Gen", "Unwind.lean"), text)
    return True, ux.summary(tables)


# ----------------------------------------------------------------------------- harness plumbing
def parse_line(l):
    d = {}
    for tok in l.split():
        if "=" in tok:
            k, v = tok.split("=", 1)
            d[k] = v
    for k in ("k", "hit", "errnum", "live", "badfree", "nreq"):
        if k in d:
            try:
                d[k] = int(d[k])
            except ValueError:
                pass
    if "reqs" in d:
        d["reqs"] = [int(x) for x in d["reqs"].split(",")]
    d["raw"] = l
    return d


def corpus_programs(ctx):
    cdir = os.path.join(C.VERIF, "corpus", "C10")
    # families: p* one subsystem each; r* replace an already populated resource (assign FS/RS/OFS/... again, rebuild
    # containers, reopen streams) and keep using it; e* the unconstrained run ends in a non-memory error;
    # c* and m* are run through the command line tool only (cli_part; m* with a swept size parameter)
    progs = sorted((f[:-5] for f in os.listdir(cdir) if f.endswith(".hawk") and f != "inc.hawk" and f[0] not in "cm"),
                   key=lambda n: ("pre".find(n[0]) if n[0] in "pre" else 9, n))
    return cdir, progs


def make_workdir(ctx, cdir, name, text=None):
    wd = os.path.join(ctx.scratch, "wd_" + name)
    shutil.rmtree(wd, ignore_errors=True)
    os.makedirs(wd)
    if text is None:
        shutil.copy(os.path.join(cdir, name + ".hawk"), os.path.join(wd, "prog.hawk"))
    else:
        open(os.path.join(wd, "prog.hawk"), "w").write(text)
    for f in ("data.txt", "inc.hawk"):
        shutil.copy(os.path.join(cdir, f), os.path.join(wd, f))
    if os.path.isdir(os.path.join(cdir, "incdir")):
        shutil.copytree(os.path.join(cdir, "incdir"), os.path.join(wd, "incdir"))
    return wd


def variant_of(name):
    """which API route the life cycle takes for this program (harness OOMH_VARIANT bits: 1 = wide-string rtx open,
    2 = source from memory + deparse into a string); fixed per program so that request indices are reproducible"""
    digits = "".join(ch for ch in name[:4] if ch.isdigit())
    return (int(digits) if digits else 0) % 4


def venv(name, extra=None):
    e = dict(C.ASAN_ENV, OOMH_VARIANT=str(variant_of(name)))
    if extra:
        e.update(extra)
    return e


def ref_clean(ref, prog_text):
    """the unconstrained run: no crash, nothing left allocated, nothing foreign freed; it succeeds, or - only for a
    program that announces it with a first line `# expect: error` - fails with a non-memory error"""
    if ref is None or ref.get("live") != 0 or ref.get("badfree") != 0 or ref.get("hit") != 0:
        return False
    oc = ref.get("outcome", "?")
    if oc == "NOHIT":
        return True
    return oc.startswith("ERR") and ref.get("errnum") != ENOMEM and prog_text.startswith("# expect: error")


def ref_err(ref):
    return (ref.get("phase"), ref.get("errnum")) if ref.get("outcome", "").startswith("ERR") else None


def run_ref(exe, wd, env=None):
    rc, out, err = C.run_harness(exe, ["ref", wd], None, timeout=120, env=env)
    if not out:
        return None, "no output from reference run (rc=%s): %s" % (rc, err[-300:])
    return parse_line(out[-1]), None


def sweep_job(args):
    exe, wd, mode, ks, tag = args[:5]
    env = args[5] if len(args) > 5 else None
    lf = os.path.join(wd, "ks.%s.%s" % (mode, tag))
    with open(lf, "w") as f:
        f.write("\n".join(str(k) for k in ks) + "\n")
    # budget: ~25 ms per case, crashes (symbolised reports) up to 0.5 s, hung cases 30 s each but rare
    rc, out, err = C.run_harness(exe, ["sweepl", wd, mode, lf], None, timeout=120 + len(ks) * 1.0, env=env)
    return [parse_line(l) for l in out if l.startswith("k=")], rc, err


def run_sweeps(exe, jobs, env=None):
    """jobs: list of (wd, mode, [k...]) -> list of (wd, mode, lines); every job is split over NPROC workers"""
    tasks = []
    for ji, job in enumerate(jobs):
        wd, mode, ks = job[:3]
        jenv = job[3] if len(job) > 3 and job[3] is not None else env
        # few, large tasks (process start-up is not free)
        n = max(1, min(NPROC, (len(ks) + 399) // 400))
        for w in range(n):
            part = ks[w::n]
            if part:
                tasks.append((ji, (exe, wd, mode, part, "%d" % w, jenv)))
    results = {ji: [] for ji in range(len(jobs))}
    with concurrent.futures.ThreadPoolExecutor(max_workers=NPROC) as ex:
        futs = {ex.submit(sweep_job, t[1]): t for t in tasks}
        for fu in concurrent.futures.as_completed(futs):
            ji, targs = futs[fu]
            lines, rc, err = fu.result()
            want = set(targs[3])
            got = {l["k"] for l in lines}
            for k in sorted(want - got):
                # the harness process itself died or timed out: report the case as such
                lines.append(dict(k=k, mode=targs[2], phase="?", hit=1, outcome="HARNESS-DIED" if rc != -9 else "TIMEOUT", errnum=-1,
                                  live=0, badfree=0, nreq=0, site="?", raw="k=%d harness rc=%s %s" % (k, rc, err[-200:].replace("\n", " "))))
            results[ji] += lines
    return [(jobs[ji][0], jobs[ji][1], sorted(results[ji], key=lambda d: d["k"])) for ji in range(len(jobs))]


SITE_SKIP = re.compile(r"^(refuse|i_alloc|i_realloc|i_free|hawk_gem_\w+|hawk_(rtx_)?(c|re)?allocmem|life_cycle|child_run|run_case|main|_start|__\w+|\?\?)$")


def symbolize(exe, all_lines):
    """pcs= (return addresses relative to the load base) -> site= (innermost hawk functions, inlined frames
    included, allocator wrappers and harness frames dropped); one batched addr2line run per 4000 addresses"""
    offs = set()
    for d in all_lines:
        p = d.get("pcs", "-")
        if p not in ("-", "?", ""):
            d["_pcs"] = [int(x, 16) for x in p.split(",") if x]
            offs.update(d["_pcs"])
    names = {}
    offs = sorted(offs)
    for i in range(0, len(offs), 4000):
        chunk = offs[i:i + 4000]
        rc, out, err = C.sh(["addr2line", "-f", "-i", "-a", "-e", exe] + [hex(max(0, o - 1)) for o in chunk], timeout=300)
        cur = None
        idx = -1
        ls = out.decode(errors="replace").split("\n")
        j = 0
        while j < len(ls):
            l = ls[j]
            if l.startswith("0x"):
                idx += 1
                cur = chunk[idx] if idx < len(chunk) else None
                names[cur] = []
                j += 1
                continue
            if cur is not None and l:
                names[cur].append(l.strip())   # function name; the next line is file:line
                j += 2
                continue
            j += 1
    for d in all_lines:
        if "_pcs" not in d:
            d["site"] = "-"
            continue
        chain = []
        for o in d["_pcs"]:
            for fn in names.get(o, []):
                if not SITE_SKIP.match(fn):
                    chain.append(fn)
            if len(chain) >= 8:
                break
        d["site"] = "<".join(chain[:8]) if chain else "?"


# ----------------------------------------------------------------------------- property oracle (real code only)
def judge(d):
    """(None | (class, sig|None, text)) for one harness line — the English property, nothing else"""
    oc = d.get("outcome", "?")
    site = d.get("site", "-")
    leak = d.get("live", 0) != 0
    badfree = d.get("badfree", 0) != 0
    if oc.startswith(("ASAN", "UBSAN", "SIG", "TIMEOUT", "EXIT", "HARNESS")):
        sig = None
        if "hawk_arr_setcapa<hawk_arr_insert" in site:
            sig = SIG_ARRFREE
        ch = site.split("<")
        if len(ch) >= 2 and ch[0].startswith("hawk_rtx_make") and ch[1].startswith(("fnc_", "hawk_fnc_")) and d.get("top") in ("hawk_rtx_refupval", "hawk_rtx_setretval"):
            sig = SIG_RETVAL
        return ("crash:" + oc, sig, "memory error / signal / hang (%s, top frame %s)" % (oc, d.get("top", "?")))
    if badfree:
        return ("badfree", None, "a pointer that is not an outstanding block was freed (%d times)" % d["badfree"])
    if leak:
        return ("leak", SIG_XARGV if site.split("<")[0] == "parse_primary_xarg" else SIG_UNPACK if "unpack_data" in site.split("<") else None, "%d block(s) still allocated after hawk_close (%s)" % (d["live"], d.get("leak", "")))
    if oc in ("ENOMEM", "OK_SAME", "NOHIT", "SOFTERR"):
        return None
    if oc == "OK_DIFF" or oc == "NOHIT_DIFF":
        return ("diff", None, "every call succeeded but the output differs from the unconstrained run")
    if oc.startswith("ERR"):
        if d.get("_referr") is not None and d["_referr"] == (d.get("phase"), d.get("errnum")):
            return None   # the unconstrained run of this program ends in exactly this (non-memory) error: same result
        sig = None
        if d.get("errnum") == EOPEN and d.get("msg", "").startswith("unable_to_open_") and d.get("msg", "").endswith("insufficient_memory"):
            sig = SIG_EOPEN
        return ("errnum:%s" % oc, sig, "the call in progress failed with error number %s instead of HAWK_ENOMEM (message %s)" % (oc[3:], d.get("msg", "-")))
    return ("odd:" + oc, None, "unexpected outcome class " + oc)


def replay_text(kind, name, mode, k, cdir, prog_text, extra=""):
    t = "kind: %s\nprogram: %s\nvariant: %d\nmode: %s\nk: %s\n%s" % (kind, name, variant_of(name), mode, k, extra)
    t += "--- prog.hawk\n" + prog_text
    if not prog_text.endswith("\n"):
        t += "\n"
    t += "--- end\n"
    t += "# replay: ./check C10 --replay <this file>   (builds harness/oom_h.c against the working tree, runs `oom_h ref` then\n"
    t += "#         `oom_h sweepl <workdir> %s <k>` with corpus/C10/data.txt and inc.hawk next to prog.hawk)\n" % mode
    return t


# ----------------------------------------------------------------------------- model correspondence
def drv(ctx, lines):
    return C.run_driver(ctx, "oom", lines, timeout=120 + len(lines) // 50)


def kv(line):
    return dict(t.split("=", 1) for t in line.split() if "=" in t)


def ctor_correspondence(ctx, exe, open_lines, problems_corr, problems_impl):
    """hawk_init / hawk_open probes and the open phase of the life cycle against `sim`"""
    evals = 0
    # measured request counts of the callees the translator does not look into, from the allocation sites
    def cost(fn):
        return sum(1 for d in open_lines if fn in d.get("site", "").split("<"))
    costs = {fn: cost(fn) for fn in ("hawk_initgbls", "add_globals", "add_functions", "hawk_stdmodstartup")}
    cs = ",".join("%s=%d" % kv_ for kv_ in costs.items())
    for ctor in ("hawk_init", "hawk_open", "hawk_openstdwithmmgr"):
        rc, out, err = C.run_harness(exe, ["ctor", ctor, "none", "0", "1"], None, timeout=60)
        if rc != 0 or not out:
            problems_impl.append(("ctor probe %s did not run (rc=%s): %s" % (ctor, rc, err[-300:]), "kind: ctor\nctor: %s\nmode: none\nk: 0\n" % ctor, C.classify_rc(rc, err) != "ok"))
            continue
        total = int(kv(out[-1])["nreq"])
        for mode in ("one", "from"):
            rc, out, err = C.run_harness(exe, ["ctor", ctor, mode, "0", str(total + 1)], None, timeout=60 + total)
            st = C.classify_rc(rc, err)
            cl = [kv(l) for l in out if l.startswith("ctor=")]
            ml = [kv(l) for l in drv(ctx, ["sim %s %s %d %s" % (ctor, mode, k, cs) for k in range(total + 1)])]
            evals += len(cl)
            if st != "ok" or len(cl) != total + 1:
                k = len(cl)
                problems_impl.append(("%s with request %d (%s) refused: %s" % (ctor, k, mode, st), "kind: ctor\nctor: %s\nmode: %s\nk: %d\n%s" % (ctor, mode, k, err[-1500:]), True))
                continue
            for k, (c, m) in enumerate(zip(cl, ml)):
                # property on the real code: a failing constructor gives everything back, a successful one too after close
                if int(c["live"]) != 0 or int(c["badfree"]) != 0:
                    problems_impl.append(("%s leaks or frees wildly when request %d is refused (%s): live=%s badfree=%s" % (ctor, k, mode, c["live"], c["badfree"]),
                                          "kind: ctor\nctor: %s\nmode: %s\nk: %d\n" % (ctor, mode, k), True))
                    break
                if m["rc"] == "unknown":
                    continue
                if c["rc"] != m["rc"] or (m["nreq"] != "?" and c["nreq"] != m["nreq"]) or m["leaked"] != "0" or m["badrel"] != "0":
                    problems_corr.append("constructor %s, request %d refused (%s): real code rc=%s nreq=%s, table model rc=%s nreq=%s leaked=%s badrel=%s "
                                         "(theorems unwind_balanced/failure_reported speak about the generated table, which no longer describes this function)"
                                         % (ctor, k, mode, c["rc"], c["nreq"], m["rc"], m["nreq"], m["leaked"], m["badrel"]))
                    break
    return evals, costs


def rtx_correspondence(ctx, lines_by_mode, problems_corr):
    """hawk_rtx_open + init_rtx inside the rtxopen phase of a life-cycle sweep"""
    evals = 0
    one = lines_by_mode.get("one", [])
    inphase = [d for d in one if d.get("failphase") == "rtxopen"]
    start = [d["k"] for d in inphase if d.get("site", "").split("<")[0] == "hawk_rtx_open"]
    if not start:
        return 0
    k0 = min(start)
    n_init = sum(1 for d in inphase if "init_rtx" in d.get("site", "").split("<"))
    alias = ""
    if n_init == 15:
        alias = "init_rtx=@init_rtx__skip"
    elif n_init != 16:
        problems_corr.append("init_rtx makes %d allocator requests; the generated table predicts 16 (15 without pattern ranges)" % n_init)
        return 0
    n_glob = sum(1 for d in inphase if "init_globals" in d.get("site", "").split("<"))
    arg = ",".join(x for x in (alias, "init_globals=%d" % n_glob) if x)
    for mode, lines in lines_by_mode.items():
        if mode not in ("one", "from"):
            continue
        byk = {d["k"]: d for d in lines}
        ks = [k for k in range(k0, k0 + 1 + n_init) if k in byk]
        ml = [kv(l) for l in drv(ctx, ["sim hawk_rtx_open %s %d %s" % (mode, k - k0, arg) for k in ks])]
        for k, m in zip(ks, ml):
            d = byk[k]
            evals += 1
            if d.get("outcome", "").startswith(("ASAN", "UBSAN", "SIG", "TIMEOUT")):
                continue  # the oracle reports it
            want_nreq = None if m["nreq"] == "?" else k0 + int(m["nreq"])
            # in `from` mode the failing constructor is followed by nothing that allocates successfully; the count still holds
            if m["rc"] != "fail" or d.get("outcome") != "ENOMEM" or d.get("phase") != "rtxopen" or (mode == "one" and want_nreq is not None and d["nreq"] != want_nreq):
                problems_corr.append("hawk_rtx_open/init_rtx, request %d (+%d) refused (%s): real code phase=%s outcome=%s nreq=%s, table model rc=%s nreq=%s"
                                     % (k, k - k0, mode, d.get("phase"), d.get("outcome"), d.get("nreq"), m["rc"], want_nreq))
                break
    return evals


def gc_retry_correspondence(lines, problems_corr, name):
    """gc_calloc_single_refusal: one refused request inside gc_calloc_val is absorbed by the retry"""
    n = 0
    for d in lines:
        s = d.get("site", "").split("<")
        # the value block (gc_calloc_val) or the container's own table (hawk_map_init/hawk_arr_init) of makemapval/makearrval
        if s and (s[0] == "gc_calloc_val" or any(x in ("hawk_rtx_makemapval", "hawk_rtx_makearrval") for x in s[:3])) and d.get("mode") == "one":
            n += 1
            same_as_ref = d.get("outcome") == "OK_SAME" or (d.get("_referr") is not None and d["_referr"] == (d.get("phase"), d.get("errnum")))
            if not same_as_ref and not d.get("outcome", "").startswith(("ASAN", "UBSAN", "SIG", "TIMEOUT")) and d.get("live", 0) == 0:
                problems_corr.append("%s k=%d: a single refused request in %s was not absorbed by collect-and-retry (outcome %s); "
                                     "gc_calloc_retry/gc_calloc_single_refusal describe the model only" % (name, d["k"], s[0], d.get("outcome")))
                break
    return n


# ----------------------------------------------------------------------------- ecs
def gen_ecs(rng, n):
    lines = []
    for _ in range(n):
        lines.append("new %d %s" % (rng.choice([0, 0, 1, 2, 4, 8, 16, 128]), rng.choice(["-", "-", "-", "f"])))
        for _ in range(rng.randrange(2, 14)):
            k = rng.random()
            orc = rng.choice(["-"] * 6 + ["f", "ff", "fff", "sf", "fs", "ffffffffffffffffffffffffffffffffffffffff", "fffffs"])
            if k < 0.45:
                lines.append("ncat %d %s" % (rng.choice([0, 1, 2, 3, 5, 8, 13, 40, 200]), orc))
            elif k < 0.6:
                lines.append("ncpy %d %s" % (rng.choice([0, 1, 2, 7, 30, 100]), orc))
            elif k < 0.75:
                lines.append("setcapa %d %s" % (rng.choice([0, 1, 2, 5, 16, 64, 300]), orc))
            elif k < 0.84:
                lines.append("setlen %d %s" % (rng.choice([0, 1, 3, 9, 20, 70]), orc))
            elif k < 0.88:
                lines.append("nrcat %d %s" % (rng.choice([0, 1, 3, 9, 50]), orc))
            elif k < 0.91:
                lines.append("nccat %d %s" % (rng.choice([0, 1, 4, 33]), orc))
            elif k < 0.94:
                lines.append("del %d %d" % (rng.choice([0, 1, 2, 5, 40]), rng.choice([0, 1, 2, 7, 100])))
            elif k < 0.98:
                lines.append("amend %d %d %d %s" % (rng.choice([0, 1, 2, 5, 40]), rng.choice([0, 1, 2, 4, 100]), rng.choice([0, 1, 2, 3, 8, 60]), orc))
            else:
                lines.append("clear")
    return lines


def ecs_exhaustive():
    alpha = ["ncat 3 -", "ncat 3 f", "ncat 5 ff", "ncat 0 -", "ncpy 2 -", "ncpy 9 f", "setcapa 2 -", "setcapa 0 f", "setlen 6 -", "setlen 6 f", "clear",
             "nrcat 3 -", "nrcat 4 f", "nccat 5 sf", "nccat 6 fffffffff", "del 1 2", "amend 1 1 4 -", "amend 1 1 4 f", "amend 0 3 1 -", "amend 2 2 2 -"]
    out = []
    for cap in (0, 1, 4):
        for a in alpha:
            for b in alpha:
                out += ["new %d -" % cap, a, b]
    return out


def ecs_oracle(lines, cout):
    """property on the real code alone: an operation that reports ENOMEM leaves length, capacity and contents
    unchanged; the string stays terminated and within its capacity; a successful ncat appends exactly its input"""
    prev = None
    ctr = 0
    for i, l in enumerate(lines):
        if i >= len(cout):
            return i, "no output (crash)"
        o = kv(cout[i]); o["s"] = o.get("s", "")
        w = l.split()
        # (NOT-TERMINATED is printed by the harness for information only: hawk_becs_setcapa on a string that has no
        #  buffer yet leaves the fresh buffer unterminated until the next write — an API wart unrelated to allocation failure)
        if cout[i] != "bad-op":
            if int(o["len"]) > int(o["capa"]) or len(o["s"]) != int(o["len"]) or (int(o["capa"]) > 0 and o["ptr"] != "1"):
                return i, "length/capacity/buffer inconsistent: " + cout[i]
        n = int(w[1]) if len(w) > 1 and w[0] in ("ncat", "ncpy", "nrcat") else int(w[3]) if w[0] == "amend" and len(w) > 3 else 0
        data = "".join(chr(97 + (ctr + j) % 26) for j in range(n))
        ctr += n
        if w[0] != "new" and prev is not None and cout[i] != "bad-op":
            if o["ret"] == "ENOMEM" and w[0] != "nccat" and (o["len"], o["capa"], o["s"], o["ptr"]) != (prev["len"], prev["capa"], prev["s"], prev["ptr"]):
                return i, "failed operation changed the string: before %s after %s" % (prev, o)
            if o["ret"] != "ENOMEM" and w[0] == "ncat" and o["s"] != prev["s"] + data:
                return i, "ncat result is not old contents + new characters"
            if o["ret"] != "ENOMEM" and w[0] == "ncpy" and o["s"] != data:
                return i, "ncpy result is not the new characters"
            if o["ret"] != "ENOMEM" and w[0] == "nrcat" and o["s"] != prev["s"] + data[::-1]:
                return i, "nrcat result is not old contents + reversed new characters"
            if w[0] == "nccat":
                # character by character: a refusal may leave a proper prefix of the run appended, never anything else
                add = o["s"][len(prev["s"]):]
                full = int(w[1])
                if not o["s"].startswith(prev["s"]) or add != "z" * len(add) or (o["ret"] != "ENOMEM" and len(add) != full) or (o["ret"] == "ENOMEM" and len(add) >= full):
                    return i, "nccat left something else than the old contents plus (a prefix of) the run"
            if o["ret"] != "ENOMEM" and w[0] == "amend":
                pos = min(int(w[1]), len(prev["s"])); ln = min(int(w[2]), len(prev["s"]) - pos)
                if o["s"] != prev["s"][:pos] + data + prev["s"][pos + ln:]:
                    return i, "amend result is not old[0,pos) + replacement + old[pos+len,..)"
            if w[0] == "del":
                idx, sz = int(w[1]), int(w[2])
                exp = prev["s"][:idx] + prev["s"][idx + sz:] if (idx < len(prev["s"]) and sz > 0) else prev["s"]
                if o["s"] != exp:
                    return i, "del result wrong"
        prev = o if cout[i] != "bad-op" else prev
    return None


def ecs_part(ctx, exe):
    lines = ecs_exhaustive() + gen_ecs(ctx.rng, 150 if ctx.tier == "quick" else 3000)
    rc, cout, cerr = C.run_harness(exe, ["ecs"], lines, timeout=120 + len(lines) // 200)
    st = C.classify_rc(rc, cerr)
    mout = drv(ctx, lines)
    hit = ecs_oracle(lines, cout)
    nontriv = sum(1 for l, o in zip(lines, cout) if "ENOMEM" in o)
    if st != "ok" or hit:
        i = hit[0] if hit else len(cout)
        # shrink to the block
        j = i
        while j > 0 and not lines[j].startswith("new"):
            j -= 1
        block = lines[j:i + 1]
        rc2, co2, ce2 = C.run_harness(exe, ["ecs"], block, timeout=60)
        hit2 = ecs_oracle(block, co2)
        if hit2 or C.classify_rc(rc2, ce2) != "ok":
            use = block
        else:
            use = lines[:i + 1]
        ctx.problem("impl", "ecs: %s (%s)" % (hit[1] if hit else st, st), "kind: ecs\n" + "\n".join(use) + "\n# impl:\n" + "\n".join(co2) + "\n" + cerr[-800:], found_input=True)
    else:
        d = C.diff_streams([x.replace(" NOT-TERMINATED", "") for x in cout], mout)
        if d is not None:
            ctx.problem("corr", "ecs model and hawk_becs_* differ at op %d `%s`: impl `%s` model `%s` (theorems ecs_oom_atomic, ecs_ncat_ok, ecs_growLoop_spec speak about the model)"
                        % (d, lines[min(d, len(lines) - 1)], cout[d] if d < len(cout) else "<none>", mout[d] if d < len(mout) else "<none>"),
                        "kind: ecs\n" + "\n".join(lines[max(0, d - 12):d + 1]) + "\n", found_input=False)
    return len(lines), nontriv


# ----------------------------------------------------------------------------- direct API cases (harness/oom_api.h)
def judge_api(d):
    """the property on one `api=` line: a failing call says ENOMEM, leaves nothing behind and nothing damaged"""
    rc = d.get("rc")
    if rc == "CRASH":
        return "memory error / signal while request %s was refused (%s)" % (d.get("k"), d.get("status", "?"))
    if rc == "BROKEN":
        return "a failed call damaged its object: %s" % d.get("msg", "?").replace("_", " ")
    if d.get("badfree", 0) != 0:
        return "a pointer that is not an outstanding block was freed"
    if rc == "fail" and d.get("hit") == 0:
        return "a call failed although no request was refused (error number %s)" % d.get("errnum")
    if rc == "fail" and d.get("errnum") != ENOMEM:
        return "the failing call left error number %s instead of HAWK_ENOMEM" % d.get("errnum")
    # value caches of a runtime context legitimately keep blocks between calls: judged when the context is closed
    if (d.get("scope") == "gem" or rc == "closed") and d.get("live", 0) != 0:
        return "%s block(s) not returned" % d.get("live")
    return None


def api_lines(out):
    res = []
    for l in out:
        if l.startswith("api="):
            d = parse_line(l)
            m = re.search(r" msg=(.*)$", l)
            if m:
                d["msg"] = m.group(1)
            res.append(d)
    return res


def api_part(ctx, exe):
    evals = 0
    refused = 0

    def one(mode):
        return mode, C.run_harness(exe, ["api", "all", mode], None, timeout=300)
    with concurrent.futures.ThreadPoolExecutor(max_workers=3) as ex:
        results = list(ex.map(one, ["one", "from", "every"]))
    seen = set()
    for mode, (rc, out, err) in results:
        lines = api_lines(out)
        evals += len(lines)
        refused += sum(1 for d in lines if d.get("rc") == "fail")
        if rc != 0 and not lines:
            ctx.problem("impl", "api enumeration (%s) did not run: rc=%s %s" % (mode, rc, err[-300:]), "kind: api\ncase: all\nmode: %s\nk: 0\n" % mode, found_input=False)
        for d in lines:
            v = judge_api(d)
            if v and (d["api"], v[:40]) not in seen:
                seen.add((d["api"], v[:40]))
                k = d.get("k")
                # confirm on a fresh process
                kk = str(int(k) + 1) if isinstance(k, int) else "100000"
                rc2, out2, err2 = C.run_harness(exe, ["api", d["api"], mode, kk], None, timeout=300)
                again = [x for x in api_lines(out2) if x.get("k") == k]
                if again and judge_api(again[-1]) is None:
                    continue
                asig = SIG_GLOB if d["api"] == "glob" else None
                ctx.problem("impl", "API case %s, %s mode, request %s refused: %s" % (d["api"], mode, k, v),
                            "kind: api\ncase: %s\nmode: %s\nk: %s\nline: %s\n# replay: oom_h api %s %s %s  (harness/oom_api.h, function c_%s)\n%s"
                            % (d["api"], mode, k, d["raw"], d["api"], mode, kk, d["api"], err2[-1500:]), found_input=True, sig=asig)
    return evals, refused


# ----------------------------------------------------------------------------- hawk -m N (zone allocator)
TDIR_LOCK = threading.Lock()
CLI_RICH = ["-v", "cliv=7", "-v", "cliname=nm", "-v", "OFS=:", "-F", "[ ]+", "-I", "incdir", "-d", "deparsed.out", "-t", "console.cli",
            "-f", "prog.hawk", "-f", "inc.hawk", "data.txt", "data.txt"]


def cli_cmd(hawk, config, limit):
    """config `plain`: hawk -f prog data;  `rich`: the tool's own option handling (-v, -F, -I, -d, -t, two -f, two inputs).
    limit: ("m", N) zone allocator of N bytes | ("X", p) the tool's built-in failing allocator (every p-th request) | None"""
    lim = [] if limit is None else ["-" + limit[0], str(limit[1])]
    tail = CLI_RICH if config == "rich" else ["-v", config, "-f", "prog.hawk"] if config.startswith("L=") else ["-f", "prog.hawk", "data.txt"]
    return ["timeout", "-s", "KILL", "30", hawk, "--tolerant=off"] + lim + tail


def cli_part(ctx, libdir, cdir, progs):
    hawk = os.path.join(libdir, "hawk")
    evals = 0
    bad = []
    # programs: arithmetic, heavy string growth (realloc in the zone), regex replacement; + the CLI-only program with options
    want = ["p01_arith_str", "p03_array", "p05_printf", "p10_concat", "r01_fs_rs_replace"] if ctx.tier == "quick" else ["p01_arith_str", "p02_maps", "p04_regex", "p10_concat", "p12_gc", "r01_fs_rs_replace", "r03_value_replace"]
    sel = [(n, "plain") for n in want if n in progs]
    if os.path.exists(os.path.join(cdir, "c01_cli.hawk")):
        sel.append(("c01_cli", "rich"))
    for name, config in sel:
        wd = make_workdir(ctx, cdir, "cli_" + name, open(os.path.join(cdir, name + ".hawk")).read())
        env = dict(C.ASAN_ENV)

        tdirs = {}

        def run(limit, wd0=wd, config=config, tdirs=tdirs):
            # programs write files with fixed names: every worker thread runs in its own copy of the directory
            tid = threading.get_ident()
            with TDIR_LOCK:
                if tid not in tdirs:
                    d = "%s.t%d" % (wd0, len(tdirs))
                    shutil.rmtree(d, ignore_errors=True)
                    shutil.copytree(wd0, d)
                    tdirs[tid] = d
            wd = tdirs[tid]
            for f in ("console.cli", "deparsed.out"):
                try:
                    os.unlink(os.path.join(wd, f))
                except OSError:
                    pass
            rc, out, err = C.sh(cli_cmd(hawk, config, limit), timeout=40, cwd=wd, env=env)
            if config == "rich":
                try:
                    out = out + b"|" + open(os.path.join(wd, "console.cli"), "rb").read()
                except OSError:
                    out = out + b"|<none>"
            return rc, out, err
        rc0, out0, err0 = run(None)
        if rc0 != 0:
            bad.append((name, config, ("m", 0), "unconstrained CLI run failed rc=%s %s" % (rc0, err0[-200:])))
            continue
        sizes = set()
        n = 1024
        while n <= 2 * 1024 * 1024:
            sizes.add(int(n)); n *= 1.12 if ctx.tier == "quick" else 1.04
        # smallest size that works (bisect), then every size in a window around it
        lo, hi = 1024, 4 * 1024 * 1024
        while hi - lo > 64:
            mid = (lo + hi) // 2
            r = run(("m", mid)); evals += 1
            if r[0] == 0 and r[1] == out0:
                hi = mid
            else:
                lo = mid
        win = 40 if ctx.tier == "quick" else 400
        for x in range(max(1, hi - win), hi + win):
            sizes.add(x)
        limits = [("m", x) for x in sorted(sizes)]
        # the tool's own failing allocator (HAWK_BUILD_DEBUG): every p-th request refused
        # (with period p the first refusal is request p-1: the option-handling program gets every p up to its request count)
        limits += [("X", p_) for p_ in (range(1, 120) if (ctx.tier == "quick" and config != "rich") else range(1, 700))]

        def one(limit, out0=out0):
            rc, out, err = run(limit)
            e = err.decode(errors="replace")
            st = C.classify_rc(rc, e)
            if rc in (-9, 137):
                return (limit, "hang")
            if st in ("ASAN", "UBSAN") or rc < 0 or rc in (134, 139, 66, 67):
                return (limit, "crash %s: %s" % (st, e[-300:].replace("\n", " ")))
            if rc == 0:
                return None if out == out0 else (limit, "exit 0 with output different from the unconstrained run")
            if b"SOFTERR" in out:
                return None   # the script saw getline return -1 and exited by itself
            if "ERROR" not in e and "error" not in e.lower():
                return (limit, "exit %d without an error message" % rc)
            return None
        with concurrent.futures.ThreadPoolExecutor(max_workers=NPROC) as ex:
            for r in ex.map(one, limits):
                evals += 1
                if r:
                    bad.append((name, config, r[0], r[1]))
        shutil.rmtree(wd, ignore_errors=True)
        for d in tdirs.values():
            shutil.rmtree(d, ignore_errors=True)
    # family m*: a generous zone, the program's buffer sizes swept at the allocator's granule (in-place regrowth over
    # just-released neighbours must hit every size relation: exact fit, one granule more, one less)
    for mname in sorted(f[:-5] for f in os.listdir(cdir) if f.endswith(".hawk") and f[0] == "m"):
        wd = make_workdir(ctx, cdir, "cli_" + mname, open(os.path.join(cdir, mname + ".hawk")).read())
        Ls = list(range(256, 4097, 8)) if ctx.tier == "quick" else list(range(64, 8193, 8))

        def mrun(L, wd=wd):
            base = ["timeout", "-s", "KILL", "30", hawk, "--tolerant=off"]
            tail = ["-v", "L=%d" % L, "-f", "prog.hawk"]
            r0 = C.sh(base + tail, timeout=40, cwd=wd, env=C.ASAN_ENV)
            res = []
            for N in ((2000000,) if ctx.tier == "quick" else (2000000, 3000001)):
                r1 = C.sh(base + ["-m", str(N)] + tail, timeout=40, cwd=wd, env=C.ASAN_ENV)
                if r0[0] != 0:
                    res.append((N, "unconstrained run failed rc=%s" % r0[0]))
                elif r1[0] != r0[0] or r1[1] != r0[1]:
                    e = r1[2].decode(errors="replace")
                    res.append((N, "a run that fits into the zone differs from the unconstrained run (rc=%s): %s" % (r1[0], e[:200].replace("\n", " "))))
            return L, res
        with concurrent.futures.ThreadPoolExecutor(max_workers=NPROC) as ex:
            for L, res in ex.map(mrun, Ls):
                evals += 2
                for N, what in res:
                    bad.append((mname, "L=%d" % L, ("m", N), what))
        shutil.rmtree(wd, ignore_errors=True)
    for name, config, limit, what in bad[:3]:
        ctx.problem("impl", "hawk -%s %d on %s (%s command line): %s" % (limit[0], limit[1], name, config, what),
                    "kind: cli\nprogram: %s\nconfig: %s\nN: %s%d\n# run in a directory holding prog.hawk (= corpus/C10/%s.hawk), data.txt, inc.hawk, incdir/: %s\n"
                    % (name, config, limit[0], limit[1], name, " ".join(cli_cmd("hawk", config, limit)[4:])), found_input=True)
    return evals


# ----------------------------------------------------------------------------- main
def choose_ks(ctx, total, mode, first_prog, open_total, dense=()):
    """request indices to inject at.  The open phase is program independent: only the first program sweeps it."""
    lo = 0 if first_prog else open_total
    ks = list(range(lo, total + 1))
    if ctx.tier == "thorough":
        return ks
    stride = 3 if mode == "one" else 8
    off = ctx.rng.randrange(stride)
    return [k for k in ks if (k < 200 and (first_prog or dense)) or (k - off) % stride == 0 or k >= total - 8 or (dense and dense[0] <= k < dense[1])]


def run(ctx):
    ok_tr, tr = translate(ctx)
    if not ok_tr:
        ctx.problem("corr", "extract/unwind.py refuses the constructor sources (fails closed): %s" % tr,
                    "translator error:\n%s\n" % tr, found_input=False)
    try:
        wide, wide_probs = translate_wide(ctx)
    except Exception as e:   # the wide pass must never take the check down silently
        wide, wide_probs = {}, [("extract/unwind_wide.py failed: %s: %s" % (type(e).__name__, str(e)[:300]), None)]
    proof = C.prove(ctx, "HawkModel.Props.C10", leanchecker=(ctx.tier == "thorough"))
    proofs = [proof]
    if os.path.exists(os.path.join(C.LEAN, "HawkModel", "Props", "C10b.lean")):
        proofs.append(C.prove(ctx, "HawkModel.Props.C10b", leanchecker=(ctx.tier == "thorough")))
    libdir = C.build_libhawk(ctx)
    exe = C.cc_harness(ctx, os.path.join(C.VERIF, "harness", "oom_h.c"), link_lib=libdir)
    cdir, progs = corpus_programs(ctx)
    evaluations = 0
    sites = set()
    dist = {}
    soft = 0
    problems_corr = []
    problems_impl = []
    groups = {}   # (prog-independent signature) -> first (name, mode, d, verdict)
    # reference runs
    refs = {}
    wds = {}
    for name in progs:
        wds[name] = make_workdir(ctx, cdir, name)
    # the unconstrained runs are independent of each other: eight at a time
    with concurrent.futures.ThreadPoolExecutor(max_workers=8) as ex:
        ref_results = dict(zip(progs, ex.map(lambda nm: run_ref(exe, wds[nm], venv(nm)), progs)))
    for name in progs:
        ref, msg = ref_results[name]
        if not ref_clean(ref, open(os.path.join(cdir, name + ".hawk")).read()):
            ctx.problem("impl", "unconstrained run of %s is not clean (memory error, leak, foreign free or unexpected failure): %s" % (name, msg or ref["raw"]),
                        replay_text("lifecycle", name, "none", -1, cdir, open(os.path.join(cdir, name + ".hawk")).read()), found_input=True)
            continue
        refs[name] = ref
    open_total = min((r["reqs"][1] for r in refs.values()), default=0)
    jobs = []
    order = [n for n in progs if n in refs]
    for i, name in enumerate(order):
        total = refs[name]["nreq"]
        for mode in ("one", "from"):
            # the programs whose rtx_open phase is compared with the table model get every k of that phase
            dense = (refs[name]["reqs"][2], refs[name]["reqs"][3]) if i < 4 else ()
            if name[0] in "re":
                # multi-step programs: a defect shows only for the few request indices inside the second (replacing)
                # step, so every index of the execution phase is injected in both modes, also in the quick tier
                dense = (refs[name]["reqs"][2], total + 1)
            jobs.append((wds[name], mode, choose_ks(ctx, total, mode, i == 0, open_total, dense), venv(name)))
        # third fault pattern: every p-th request is refused (k = period) - refusals interleaved with grants
        periods = [2, 3, 5, 7, 11, 16, 23, 32, 47, 64] if ctx.tier == "quick" else list(range(2, 65)) + [80, 100, 128, 160, 200, 256]
        jobs.append((wds[name], "every", periods, venv(name)))
    t0 = time.time()
    res = run_sweeps(exe, jobs)
    ctx.log("fault enumeration: %d cases over %d programs in %.1fs" % (sum(len(r[2]) for r in res), len(order), time.time() - t0))
    symbolize(exe, [d for r in res for d in r[2]])
    by_prog = {}
    for (wd, mode, lines) in res:
        name = os.path.basename(wd)[3:]
        by_prog.setdefault(name, {})[mode] = lines
        for d in lines:
            evaluations += 1
            d["mode"] = mode
            d["_referr"] = ref_err(refs[name])
            oc = d.get("outcome", "?")
            key = "%s/%s" % (d.get("failphase", d.get("phase", "?")), oc.split(":")[0])
            dist[key] = dist.get(key, 0) + 1
            if d.get("hit") and d.get("site", "-") not in ("-", "?"):
                sites.add("<".join(d["site"].split("<")[:5]))
            if oc == "SOFTERR":
                soft += 1
            v = judge(d)
            if v:
                g = (v[0], d.get("failphase", "?"), "<".join(d.get("site", "?").split("<")[:5]), v[1])
                if g not in groups:
                    groups[g] = [name, mode, d, v, 0]
                groups[g][4] += 1
    # thorough: the same enumeration with HAWK_TOLERANT left on (the library default): a failing print/printf then
    # yields -1 by design, so only memory errors, foreign frees and leaks are judged
    if ctx.tier == "thorough":
        jobs_t = [(wds[name], "one", choose_ks(ctx, refs[name]["nreq"], "one", False, open_total), venv(name, dict(OOMH_TOLERANT="1"))) for name in order]
        res_t = run_sweeps(exe, jobs_t)
        symbolize(exe, [d for r in res_t for d in r[2]])
        for (wd, mode, lines) in res_t:
            name = os.path.basename(wd)[3:]
            for d in lines:
                evaluations += 1
                d["_referr"] = ref_err(refs[name])
                v = judge(d)
                if v and v[0].split(":")[0] in ("crash", "leak", "badfree"):
                    g = ("tolerant:" + v[0], d.get("failphase", "?"), "<".join(d.get("site", "?").split("<")[:5]), v[1])
                    if g not in groups:
                        groups[g] = [name, "one", d, (v[0], v[1], "[HAWK_TOLERANT on] " + v[2]), 0]
                    groups[g][4] += 1
    # correspondence with the table model
    if ok_tr and proof["build_ok"] and order:
        first = order[0]
        open_lines = [d for d in by_prog[first].get("one", []) if d.get("failphase") == "open"]
        try:
            e1, costs = ctor_correspondence(ctx, exe, open_lines, problems_corr, problems_impl)
            evaluations += e1
            for name in order[:4] if ctx.tier == "quick" else order:
                evaluations += rtx_correspondence(ctx, by_prog[name], problems_corr)
            ngc = 0
            for name in order:
                ngc += gc_retry_correspondence(by_prog[name].get("one", []), problems_corr, name)
            ctx.coverage["gc_retry_sites_checked"] = ngc
            ctx.coverage["opaque_callee_request_counts"] = costs
        except RuntimeError as e:
            problems_corr.append("lean driver failed: %s" % str(e)[:300])
    # ecs, CLI
    ne, ntriv_ecs = ecs_part(ctx, exe)
    evaluations += ne
    na, api_refused = api_part(ctx, exe)
    evaluations += na
    ctx.coverage["api_cases"] = na
    ctx.coverage["api_refusals"] = api_refused
    evaluations += cli_part(ctx, libdir, cdir, order)
    if os.environ.get("C10_DUMP"):
        with open(os.environ["C10_DUMP"], "w") as f:
            for g, (name, mode, d, v, cnt) in sorted(groups.items(), key=lambda x: x[1][2]["k"]):
                f.write("%s %s k=%d x%d | %s | %s | sig=%s\n" % (name, mode, d["k"], cnt, v[2][:110], d.get("site"), v[1]))
    # report: concrete failing inputs first (smallest k per group), confirm before reporting
    for g, (name, mode, d, v, cnt) in sorted(groups.items(), key=lambda x: (x[1][3][1] is not None, x[1][2]["k"]))[:12]:
        prog_text = open(os.path.join(cdir, name + ".hawk")).read()
        # confirm on a fresh run
        tol = g[0].startswith("tolerant:")
        again, _, _ = sweep_job((exe, wds[name], mode, [d["k"]], "confirm", venv(name, dict(OOMH_TOLERANT="1") if tol else None)))
        symbolize(exe, again)
        for a in again:
            a["_referr"] = ref_err(refs[name])
        if again and judge(again[0]) is None:
            continue
        what = "%s, %s mode, request %d refused (allocation site %s, phase %s): %s [%d case(s) of this kind]" % (
            name, mode, d["k"], d.get("site", "?"), d.get("failphase", "?"), v[2], cnt)
        ctx.problem("impl", what, replay_text("lifecycle", name, mode, d["k"], cdir, prog_text, "%sline: %s\n" % ("tolerant: 1\n" if tol else "", d["raw"])), found_input=True, sig=v[1])
    for (what, rp, found) in problems_impl[:3]:
        ctx.problem("impl", what, rp, found_input=found)
    if problems_corr and not any(p["found_input"] and not p["sig"] for p in ctx.problems):
        for w in problems_corr[:3]:
            ctx.problem("corr", w, "correspondence difference (no property violation found on the real code):\n" + w + "\n", found_input=False)
    for (what, wsig) in wide_probs[:4]:
        ctx.problem("corr", "unwind table: " + what, "unwind-table law violation found by extract/unwind_wide.py (python port of Table.wf; Gen/UnwindWide.lean lists the function under notEstablished):\n%s\n"
                    "# replay: python3 extract/unwind_wide.py --repo <tree> (prints NOT-ESTABLISHED lines)\n" % what, found_input=False, sig=wsig)
    if wide:
        all_lines = [d for m_ in by_prog.values() for ls in m_.values() for d in ls]
        ctx.coverage["wide_tables"] = dict(functions_scanned=wide["functions_scanned"], multi_acquisition_functions=wide["multi_acquisition_functions"],
                                           established=wide["established"], established_wide=wide["established_wide"], established_narrow=wide["established_narrow"],
                                           tables=wide["tables"], paths=wide["paths"], steps=wide["steps"],
                                           not_established=wide["not_established"], unhandled=wide["unhandled"], unhandled_reasons=wide["unhandled_reasons"],
                                           assumed_inert_callees=len(wide["assumed_inert"]), trusted=wide["trusted"])
        ctx.coverage["wide_site_coverage"] = wide_site_coverage(wide, all_lines)
    ctx.coverage["soft_io_errors_seen_by_script"] = soft
    ctx.coverage["outcome_distribution"] = dict(sorted(dist.items()))
    ctx.coverage["programs"] = order
    ctx.coverage["tables"] = [dict(name=t["name"], steps=t["steps"], resources=t["resources"]) for t in tr] if ok_tr else []
    samples = sorted(sites)[:6]
    for p in order:
        shutil.rmtree(wds[p], ignore_errors=True)
    return C.finish(ctx, proofs, evaluations, len(sites),
                    "cases = (program, request index k, mode) for %d corpus programs x {fail exactly the k-th request, fail every request from the k-th on} over open/parse/rtx_open/exec/close "
                    "(quick: k<200 for the first four programs and the r*/e* families + every 3rd (`one`) / every 8th (`from`) at a seeded offset + the last 8, and every k of the rtx_open+exec phases of the r*/e* program families; thorough: every k), + constructor probes (hawk_init, hawk_open, hawk_openstdwithmmgr, every k, both modes) "
                    "+ ecs op streams (exhaustive pairs + random, scripted allocator) + `hawk -m N` sweep (geometric 1 KiB..2 MiB + every size around the smallest working one); "
                    "each case judged on the real code: ENOMEM or identical output, no sanitizer report/signal/hang, zero live blocks, no foreign free; "
                    "distinct_nontrivial = distinct allocation call chains (innermost 5 hawk frames) at which a refusal was actually injected" % len(order),
                    samples, extra_cov=dict(ecs_ops=ne, ecs_refusals=ntriv_ecs),
                    trusted=["constructor bodies -> tables by extract/unwind.py (fails closed; trusts its ALLOC/RELEASE/INERT/LEAF/OPAQUE name lists, printed in Gen/Unwind.lean `trusted`)",
                             "every lib/*.c function with >= 2 acquisition sites -> one table per acyclic path by extract/unwind_wide.py (loops: one or no iteration; trusts name catalogues for "
                             "allocators/constructors/releases, assumes every other callee neither keeps nor frees a tracked object; coverage N of M and every unhandled function by name in coverage.wide_tables; "
                             "baseline extract/unwind_wide.expected: a function that passed the law and no longer does is reported)",
                             "error-number plumbing gem->rtx->hawk, nested retry and the integer chunk cache modelled by hand in HawkModel/OomRetry.lean (theorems in Props/C10b; tied to the code only through the "
                             "observable effect: ENOMEM on the failing API call in the fault enumeration)",
                             "gc_calloc_val/makemapval and ecs-imp.h modelled by hand in HawkModel/Oom.lean (ecs validated line by line against hawk_becs_*; gc retry only through its observable effect)",
                             "the individual `if (!p)` branches outside the extracted constructors are NOT modelled: they are enumerated by fault injection only"],
                    assumptions=["HAWK_TOLERANT is switched off for the enumeration (with it a failing print/printf yields -1 by design)",
                                 "a getline/close that returns -1 to the script counts as a reported error when the script itself notices it (SOFTERR marker)",
                                 "fields tested by `if (x) release(x)` are zero before assignment (translator checks for the HAWK_MEMSET)",
                                 "open_rtx_std's ownership hand-over through the rtx ecb is outside the table language (harness only)"])


# ----------------------------------------------------------------------------- replay
def replay(ctx, path):
    txt = open(path).read()
    hdr = {}
    for l in txt.split("\n"):
        m = re.match(r"(kind|program|mode|k|N|ctor|tolerant|variant|case|config): (.*)$", l)
        if m and m.group(1) not in hdr:
            hdr[m.group(1)] = m.group(2).strip()
    libdir = C.build_libhawk(ctx)
    exe = C.cc_harness(ctx, os.path.join(C.VERIF, "harness", "oom_h.c"), link_lib=libdir)
    cdir, progs = corpus_programs(ctx)
    kind = hdr.get("kind", "lifecycle")
    if kind == "lifecycle":
        m = re.search(r"--- prog\.hawk\n(.*?)--- end\n", txt, re.S)
        text = m.group(1) if m else open(os.path.join(cdir, hdr["program"] + ".hawk")).read()
        wd = make_workdir(ctx, cdir, "replay", text)
        renv = dict(C.ASAN_ENV, OOMH_VARIANT=hdr.get("variant", "0"))
        if hdr.get("tolerant") == "1":
            renv["OOMH_TOLERANT"] = "1"
        ref, msg = run_ref(exe, wd, renv)
        print("reference:", ref["raw"] if ref else msg)
        if hdr.get("mode") == "none":
            return 0 if ref_clean(ref, text) else 1
        lines, rc, err = sweep_job((exe, wd, hdr["mode"], [int(hdr["k"])], "r", renv))
        symbolize(exe, lines)
        for d in lines:
            print(d["raw"])
            print("allocation site:", d.get("site"))
            d["_referr"] = ref_err(ref) if ref else None
            v = judge(d)
            if v and hdr.get("tolerant") == "1" and v[0].split(":")[0] not in ("crash", "leak", "badfree"):
                v = None
            print("verdict:", v[2] if v else "property holds for this case")
            return 1 if v else 0
        print("no output", rc, err[-300:])
        return 1
    if kind == "ecs":
        lines = [l for l in txt.split("\n") if l and not l.startswith(("#", "kind:")) and l.split()[0] in ("new", "ncat", "ncpy", "setcapa", "setlen", "clear", "nrcat", "nccat", "del", "amend")]
        cut = txt.find("# impl:")
        if cut >= 0:
            lines = [l for l in txt[:cut].split("\n") if l and l.split()[0] in ("new", "ncat", "ncpy", "setcapa", "setlen", "clear", "nrcat", "nccat", "del", "amend")]
        rc, cout, cerr = C.run_harness(exe, ["ecs"], lines, timeout=60)
        mout = drv(ctx, lines)
        for l, a, b in zip(lines, cout, mout):
            print("%-22s impl: %-48s model: %s" % (l, a, b))
        hit = ecs_oracle(lines, cout)
        print("oracle:", hit)
        return 1 if (hit or C.classify_rc(rc, cerr) != "ok" or C.diff_streams(cout, mout) is not None) else 0
    if kind == "ctor":
        rc, out, err = C.run_harness(exe, ["ctor", hdr["ctor"], hdr["mode"], hdr["k"], str(int(hdr["k"]) + 1)], None, timeout=60)
        print("\n".join(out), err[-800:])
        bad = C.classify_rc(rc, err) != "ok" or any(kv(l).get("live") != "0" or kv(l).get("badfree") != "0" for l in out if l.startswith("ctor="))
        return 1 if bad else 0
    if kind == "cli":
        hawk = os.path.join(libdir, "hawk")
        wd = make_workdir(ctx, cdir, "replaycli", open(os.path.join(cdir, hdr["program"] + ".hawk")).read())
        n = hdr["N"]
        limit = (n[0], int(n[1:])) if n[0] in "mX" else ("m", int(n))
        cfg = hdr.get("config", "plain")
        rc, out, err = C.sh(cli_cmd(hawk, cfg, limit), timeout=40, cwd=wd, env=C.ASAN_ENV)
        print("rc=%s" % rc, err.decode(errors="replace")[-600:])
        def extra():
            try:
                return open(os.path.join(wd, "console.cli"), "rb").read()
            except OSError:
                return b""
        out += extra()
        if cfg.startswith("L=") or rc == 0:
            try:
                os.unlink(os.path.join(wd, "console.cli"))
            except OSError:
                pass
            rc0, out0, err0 = C.sh(cli_cmd(hawk, cfg, None), timeout=40, cwd=wd, env=C.ASAN_ENV)
            out0 += extra()
            print("unconstrained rc=%s, same output: %s" % (rc0, out0 == out))
            return 1 if (rc != rc0 or out != out0) else 0
        return 1 if (rc < 0 or rc in (66, 67, 134, 137, 139)) else 0
    if kind == "api":
        k = hdr.get("k", "0")
        kk = str(int(k) + 1) if k.isdigit() else "100000"
        rc, out, err = C.run_harness(exe, ["api", hdr["case"], hdr["mode"], kk], None, timeout=300)
        lines = api_lines(out)
        hit = [d for d in lines if str(d.get("k")) == k] or lines[-1:]
        for d in hit:
            print(d["raw"])
            v = judge_api(d)
            print("verdict:", v or "property holds for this case")
            if v:
                print(err[-1500:])
                return 1
        return 0
    print("unknown replay kind")
    return 2
