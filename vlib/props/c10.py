"""C10 — running out of memory is an error, never a crash or a leak.

translate (extract/unwind.py -> Gen/Unwind.lean) -> prove (HawkModel.Props.C10) -> build sanitized lib +
harness/oom_h.c -> (1) PROPERTY ORACLE evaluated directly on the real code: fault enumeration over the whole
life cycle (fail exactly the k-th request / every request from the k-th on) for every corpus program, the
ecs operations, the constructor probes and `hawk -m N`; (2) CORRESPONDENCE with the Lean model: constructor
phases (outcome class, number of requests made before the failing call returns) against `hawkdrv oom sim`,
ecs line protocol against `hawkdrv oom`, collect-then-retry prediction for container values.
A hit of (1) is a concrete failing input (program + k + mode); a difference only in (2), a translator
refusal or a failing proof is reported with found_input=False.
"""
import importlib.util, os, re, shutil, time, concurrent.futures
from .. import common as C

ENOMEM = 5
EOPEN = 26
NPROC = 16
PHASES = ["open", "parse", "rtxopen", "exec", "close", "done"]

# known-finding signatures (KNOWN_FINDINGS.txt decides whether they are accepted)
SIG_EOPEN = "oom:sio-open-reports-EOPEN"
SIG_ARRFREE = "oom:arr-insert-grow-failure-frees-callers-value"
SIG_RETVAL = "oom:fnc-setretval-null-value"


def load_extractor():
    p = os.path.join(C.VERIF, "extract", "unwind.py")
    spec = importlib.util.spec_from_file_location("c10_unwind", p)
    m = importlib.util.module_from_spec(spec)
    spec.loader.exec_module(m)
    return m


def translate(ctx):
    """regenerate Gen/Unwind.lean from the working tree; returns (ok, summary|message)"""
    ux = load_extractor()
    try:
        tables = ux.extract(C.REPO)
    except ux.ExtractError as e:
        return False, str(e)
    text = ux.emit(tables)
    C.write_if_changed(os.path.join(C.LEAN, "HawkModel", "Gen", "Unwind.lean"), text)
    return True, ux.summary(tables)


# ----------------------------------------------------------------------------- harness plumbing
def parse_line(l):
    d = {}
    for tok in l.split():
        if "=" in tok:
            k, v = tok.split("=", 1)
            d[k] = v
    for k in ("k", "hit", "errnum", "live", "badfree", "nreq"):
        if k in d:
            try:
                d[k] = int(d[k])
            except ValueError:
                pass
    if "reqs" in d:
        d["reqs"] = [int(x) for x in d["reqs"].split(",")]
    d["raw"] = l
    return d


def corpus_programs(ctx):
    cdir = os.path.join(C.VERIF, "corpus", "C10")
    # families: p* one subsystem each; r* replace an already populated resource (assign FS/RS/OFS/... again, rebuild
    # containers, reopen streams) and keep using it; e* the unconstrained run ends in a non-memory error
    progs = sorted((f[:-5] for f in os.listdir(cdir) if f.endswith(".hawk") and f != "inc.hawk"),
                   key=lambda n: ("pre".find(n[0]) if n[0] in "pre" else 9, n))
    return cdir, progs


def make_workdir(ctx, cdir, name, text=None):
    wd = os.path.join(ctx.scratch, "wd_" + name)
    shutil.rmtree(wd, ignore_errors=True)
    os.makedirs(wd)
    if text is None:
        shutil.copy(os.path.join(cdir, name + ".hawk"), os.path.join(wd, "prog.hawk"))
    else:
        open(os.path.join(wd, "prog.hawk"), "w").write(text)
    for f in ("data.txt", "inc.hawk"):
        shutil.copy(os.path.join(cdir, f), os.path.join(wd, f))
    return wd


def ref_clean(ref, prog_text):
    """the unconstrained run: no crash, nothing left allocated, nothing foreign freed; it succeeds, or - only for a
    program that announces it with a first line `# expect: error` - fails with a non-memory error"""
    if ref is None or ref.get("live") != 0 or ref.get("badfree") != 0 or ref.get("hit") != 0:
        return False
    oc = ref.get("outcome", "?")
    if oc == "NOHIT":
        return True
    return oc.startswith("ERR") and ref.get("errnum") != ENOMEM and prog_text.startswith("# expect: error")


def ref_err(ref):
    return (ref.get("phase"), ref.get("errnum")) if ref.get("outcome", "").startswith("ERR") else None


def run_ref(exe, wd):
    rc, out, err = C.run_harness(exe, ["ref", wd], None, timeout=120)
    if not out:
        return None, "no output from reference run (rc=%s): %s" % (rc, err[-300:])
    return parse_line(out[-1]), None


def sweep_job(args):
    exe, wd, mode, ks, tag = args[:5]
    env = args[5] if len(args) > 5 else None
    lf = os.path.join(wd, "ks.%s.%s" % (mode, tag))
    with open(lf, "w") as f:
        f.write("\n".join(str(k) for k in ks) + "\n")
    # budget: ~25 ms per case, crashes (symbolised reports) up to 0.5 s, hung cases 30 s each but rare
    rc, out, err = C.run_harness(exe, ["sweepl", wd, mode, lf], None, timeout=120 + len(ks) * 1.0, env=env)
    return [parse_line(l) for l in out if l.startswith("k=")], rc, err


def run_sweeps(exe, jobs, env=None):
    """jobs: list of (wd, mode, [k...]) -> list of (wd, mode, lines); every job is split over NPROC workers"""
    tasks = []
    for ji, (wd, mode, ks) in enumerate(jobs):
        # every harness process loads its symbol tables once (about a second): few, large tasks
        n = max(1, min(NPROC, (len(ks) + 399) // 400))
        for w in range(n):
            part = ks[w::n]
            if part:
                tasks.append((ji, (exe, wd, mode, part, "%d" % w, env)))
    results = {ji: [] for ji in range(len(jobs))}
    with concurrent.futures.ThreadPoolExecutor(max_workers=NPROC) as ex:
        futs = {ex.submit(sweep_job, t[1]): t for t in tasks}
        for fu in concurrent.futures.as_completed(futs):
            ji, targs = futs[fu]
            lines, rc, err = fu.result()
            want = set(targs[3])
            got = {l["k"] for l in lines}
            for k in sorted(want - got):
                # the harness process itself died or timed out: report the case as such
                lines.append(dict(k=k, mode=targs[2], phase="?", hit=1, outcome="HARNESS-DIED" if rc != -9 else "TIMEOUT", errnum=-1,
                                  live=0, badfree=0, nreq=0, site="?", raw="k=%d harness rc=%s %s" % (k, rc, err[-200:].replace("\n", " "))))
            results[ji] += lines
    return [(jobs[ji][0], jobs[ji][1], sorted(results[ji], key=lambda d: d["k"])) for ji in range(len(jobs))]


SITE_SKIP = re.compile(r"^(refuse|i_alloc|i_realloc|i_free|hawk_gem_\w+|hawk_(rtx_)?(c|re)?allocmem|life_cycle|child_run|run_case|main|_start|__\w+|\?\?)$")


def symbolize(exe, all_lines):
    """pcs= (return addresses relative to the load base) -> site= (innermost hawk functions, inlined frames
    included, allocator wrappers and harness frames dropped); one batched addr2line run per 4000 addresses"""
    offs = set()
    for d in all_lines:
        p = d.get("pcs", "-")
        if p not in ("-", "?", ""):
            d["_pcs"] = [int(x, 16) for x in p.split(",") if x]
            offs.update(d["_pcs"])
    names = {}
    offs = sorted(offs)
    for i in range(0, len(offs), 4000):
        chunk = offs[i:i + 4000]
        rc, out, err = C.sh(["addr2line", "-f", "-i", "-a", "-e", exe] + [hex(max(0, o - 1)) for o in chunk], timeout=300)
        cur = None
        idx = -1
        ls = out.decode(errors="replace").split("\n")
        j = 0
        while j < len(ls):
            l = ls[j]
            if l.startswith("0x"):
                idx += 1
                cur = chunk[idx] if idx < len(chunk) else None
                names[cur] = []
                j += 1
                continue
            if cur is not None and l:
                names[cur].append(l.strip())   # function name; the next line is file:line
                j += 2
                continue
            j += 1
    for d in all_lines:
        if "_pcs" not in d:
            d["site"] = "-"
            continue
        chain = []
        for o in d["_pcs"]:
            for fn in names.get(o, []):
                if not SITE_SKIP.match(fn):
                    chain.append(fn)
            if len(chain) >= 8:
                break
        d["site"] = "<".join(chain[:8]) if chain else "?"


# ----------------------------------------------------------------------------- property oracle (real code only)
def judge(d):
    """(None | (class, sig|None, text)) for one harness line — the English property, nothing else"""
    oc = d.get("outcome", "?")
    site = d.get("site", "-")
    leak = d.get("live", 0) != 0
    badfree = d.get("badfree", 0) != 0
    if oc.startswith(("ASAN", "UBSAN", "SIG", "TIMEOUT", "EXIT", "HARNESS")):
        sig = None
        if "hawk_arr_setcapa<hawk_arr_insert" in site:
            sig = SIG_ARRFREE
        ch = site.split("<")
        if len(ch) >= 2 and ch[0].startswith("hawk_rtx_make") and ch[1].startswith(("fnc_", "hawk_fnc_")) and d.get("top") in ("hawk_rtx_refupval", "hawk_rtx_setretval"):
            sig = SIG_RETVAL
        return ("crash:" + oc, sig, "memory error / signal / hang (%s, top frame %s)" % (oc, d.get("top", "?")))
    if badfree:
        return ("badfree", None, "a pointer that is not an outstanding block was freed (%d times)" % d["badfree"])
    if leak:
        return ("leak", None, "%d block(s) still allocated after hawk_close (%s)" % (d["live"], d.get("leak", "")))
    if oc in ("ENOMEM", "OK_SAME", "NOHIT", "SOFTERR"):
        return None
    if oc == "OK_DIFF" or oc == "NOHIT_DIFF":
        return ("diff", None, "every call succeeded but the output differs from the unconstrained run")
    if oc.startswith("ERR"):
        if d.get("_referr") is not None and d["_referr"] == (d.get("phase"), d.get("errnum")):
            return None   # the unconstrained run of this program ends in exactly this (non-memory) error: same result
        sig = None
        if d.get("errnum") == EOPEN and d.get("msg", "").startswith("unable_to_open_") and d.get("msg", "").endswith("insufficient_memory"):
            sig = SIG_EOPEN
        return ("errnum:%s" % oc, sig, "the call in progress failed with error number %s instead of HAWK_ENOMEM (message %s)" % (oc[3:], d.get("msg", "-")))
    return ("odd:" + oc, None, "unexpected outcome class " + oc)


def replay_text(kind, name, mode, k, cdir, prog_text, extra=""):
    t = "kind: %s\nprogram: %s\nmode: %s\nk: %s\n%s" % (kind, name, mode, k, extra)
    t += "--- prog.hawk\n" + prog_text
    if not prog_text.endswith("\n"):
        t += "\n"
    t += "--- end\n"
    t += "# replay: ./check C10 --replay <this file>   (builds harness/oom_h.c against the working tree, runs `oom_h ref` then\n"
    t += "#         `oom_h sweepl <workdir> %s <k>` with corpus/C10/data.txt and inc.hawk next to prog.hawk)\n" % mode
    return t


# ----------------------------------------------------------------------------- model correspondence
def drv(ctx, lines):
    return C.run_driver(ctx, "oom", lines, timeout=120 + len(lines) // 50)


def kv(line):
    return dict(t.split("=", 1) for t in line.split() if "=" in t)


def ctor_correspondence(ctx, exe, open_lines, problems_corr, problems_impl):
    """hawk_init / hawk_open probes and the open phase of the life cycle against `sim`"""
    evals = 0
    # measured request counts of the callees the translator does not look into, from the allocation sites
    def cost(fn):
        return sum(1 for d in open_lines if fn in d.get("site", "").split("<"))
    costs = {fn: cost(fn) for fn in ("hawk_initgbls", "add_globals", "add_functions", "hawk_stdmodstartup")}
    cs = ",".join("%s=%d" % kv_ for kv_ in costs.items())
    for ctor in ("hawk_init", "hawk_open", "hawk_openstdwithmmgr"):
        rc, out, err = C.run_harness(exe, ["ctor", ctor, "none", "0", "1"], None, timeout=60)
        if rc != 0 or not out:
            problems_impl.append(("ctor probe %s did not run (rc=%s): %s" % (ctor, rc, err[-300:]), "kind: ctor\nctor: %s\nmode: none\nk: 0\n" % ctor, C.classify_rc(rc, err) != "ok"))
            continue
        total = int(kv(out[-1])["nreq"])
        for mode in ("one", "from"):
            rc, out, err = C.run_harness(exe, ["ctor", ctor, mode, "0", str(total + 1)], None, timeout=60 + total)
            st = C.classify_rc(rc, err)
            cl = [kv(l) for l in out if l.startswith("ctor=")]
            ml = [kv(l) for l in drv(ctx, ["sim %s %s %d %s" % (ctor, mode, k, cs) for k in range(total + 1)])]
            evals += len(cl)
            if st != "ok" or len(cl) != total + 1:
                k = len(cl)
                problems_impl.append(("%s with request %d (%s) refused: %s" % (ctor, k, mode, st), "kind: ctor\nctor: %s\nmode: %s\nk: %d\n%s" % (ctor, mode, k, err[-1500:]), True))
                continue
            for k, (c, m) in enumerate(zip(cl, ml)):
                # property on the real code: a failing constructor gives everything back, a successful one too after close
                if int(c["live"]) != 0 or int(c["badfree"]) != 0:
                    problems_impl.append(("%s leaks or frees wildly when request %d is refused (%s): live=%s badfree=%s" % (ctor, k, mode, c["live"], c["badfree"]),
                                          "kind: ctor\nctor: %s\nmode: %s\nk: %d\n" % (ctor, mode, k), True))
                    break
                if m["rc"] == "unknown":
                    continue
                if c["rc"] != m["rc"] or (m["nreq"] != "?" and c["nreq"] != m["nreq"]) or m["leaked"] != "0" or m["badrel"] != "0":
                    problems_corr.append("constructor %s, request %d refused (%s): real code rc=%s nreq=%s, table model rc=%s nreq=%s leaked=%s badrel=%s "
                                         "(theorems unwind_balanced/failure_reported speak about the generated table, which no longer describes this function)"
                                         % (ctor, k, mode, c["rc"], c["nreq"], m["rc"], m["nreq"], m["leaked"], m["badrel"]))
                    break
    return evals, costs


def rtx_correspondence(ctx, lines_by_mode, problems_corr):
    """hawk_rtx_open + init_rtx inside the rtxopen phase of a life-cycle sweep"""
    evals = 0
    one = lines_by_mode.get("one", [])
    inphase = [d for d in one if d.get("failphase") == "rtxopen"]
    start = [d["k"] for d in inphase if d.get("site", "").split("<")[0] == "hawk_rtx_open"]
    if not start:
        return 0
    k0 = min(start)
    n_init = sum(1 for d in inphase if "init_rtx" in d.get("site", "").split("<"))
    alias = ""
    if n_init == 15:
        alias = "init_rtx=@init_rtx__skip"
    elif n_init != 16:
        problems_corr.append("init_rtx makes %d allocator requests; the generated table predicts 16 (15 without pattern ranges)" % n_init)
        return 0
    n_glob = sum(1 for d in inphase if "init_globals" in d.get("site", "").split("<"))
    arg = ",".join(x for x in (alias, "init_globals=%d" % n_glob) if x)
    for mode, lines in lines_by_mode.items():
        byk = {d["k"]: d for d in lines}
        ks = [k for k in range(k0, k0 + 1 + n_init) if k in byk]
        ml = [kv(l) for l in drv(ctx, ["sim hawk_rtx_open %s %d %s" % (mode, k - k0, arg) for k in ks])]
        for k, m in zip(ks, ml):
            d = byk[k]
            evals += 1
            if d.get("outcome", "").startswith(("ASAN", "UBSAN", "SIG", "TIMEOUT")):
                continue  # the oracle reports it
            want_nreq = None if m["nreq"] == "?" else k0 + int(m["nreq"])
            # in `from` mode the failing constructor is followed by nothing that allocates successfully; the count still holds
            if m["rc"] != "fail" or d.get("outcome") != "ENOMEM" or d.get("phase") != "rtxopen" or (mode == "one" and want_nreq is not None and d["nreq"] != want_nreq):
                problems_corr.append("hawk_rtx_open/init_rtx, request %d (+%d) refused (%s): real code phase=%s outcome=%s nreq=%s, table model rc=%s nreq=%s"
                                     % (k, k - k0, mode, d.get("phase"), d.get("outcome"), d.get("nreq"), m["rc"], want_nreq))
                break
    return evals


def gc_retry_correspondence(lines, problems_corr, name):
    """gc_calloc_single_refusal: one refused request inside gc_calloc_val is absorbed by the retry"""
    n = 0
    for d in lines:
        s = d.get("site", "").split("<")
        # the value block (gc_calloc_val) or the container's own table (hawk_map_init/hawk_arr_init) of makemapval/makearrval
        if s and (s[0] == "gc_calloc_val" or any(x in ("hawk_rtx_makemapval", "hawk_rtx_makearrval") for x in s[:3])) and d.get("mode") == "one":
            n += 1
            same_as_ref = d.get("outcome") == "OK_SAME" or (d.get("_referr") is not None and d["_referr"] == (d.get("phase"), d.get("errnum")))
            if not same_as_ref and not d.get("outcome", "").startswith(("ASAN", "UBSAN", "SIG", "TIMEOUT")) and d.get("live", 0) == 0:
                problems_corr.append("%s k=%d: a single refused request in %s was not absorbed by collect-and-retry (outcome %s); "
                                     "gc_calloc_retry/gc_calloc_single_refusal describe the model only" % (name, d["k"], s[0], d.get("outcome")))
                break
    return n


# ----------------------------------------------------------------------------- ecs
def gen_ecs(rng, n):
    lines = []
    for _ in range(n):
        lines.append("new %d %s" % (rng.choice([0, 0, 1, 2, 4, 8, 16, 128]), rng.choice(["-", "-", "-", "f"])))
        for _ in range(rng.randrange(2, 14)):
            k = rng.random()
            orc = rng.choice(["-"] * 6 + ["f", "ff", "fff", "sf", "fs", "ffffffffffffffffffffffffffffffffffffffff", "fffffs"])
            if k < 0.45:
                lines.append("ncat %d %s" % (rng.choice([0, 1, 2, 3, 5, 8, 13, 40, 200]), orc))
            elif k < 0.6:
                lines.append("ncpy %d %s" % (rng.choice([0, 1, 2, 7, 30, 100]), orc))
            elif k < 0.75:
                lines.append("setcapa %d %s" % (rng.choice([0, 1, 2, 5, 16, 64, 300]), orc))
            elif k < 0.92:
                lines.append("setlen %d %s" % (rng.choice([0, 1, 3, 9, 20, 70]), orc))
            else:
                lines.append("clear")
    return lines


def ecs_exhaustive():
    alpha = ["ncat 3 -", "ncat 3 f", "ncat 5 ff", "ncat 0 -", "ncpy 2 -", "ncpy 9 f", "setcapa 2 -", "setcapa 0 f", "setlen 6 -", "setlen 6 f", "clear"]
    out = []
    for cap in (0, 1, 4):
        for a in alpha:
            for b in alpha:
                out += ["new %d -" % cap, a, b]
    return out


def ecs_oracle(lines, cout):
    """property on the real code alone: an operation that reports ENOMEM leaves length, capacity and contents
    unchanged; the string stays terminated and within its capacity; a successful ncat appends exactly its input"""
    prev = None
    ctr = 0
    for i, l in enumerate(lines):
        if i >= len(cout):
            return i, "no output (crash)"
        o = kv(cout[i]); o["s"] = o.get("s", "")
        w = l.split()
        # (NOT-TERMINATED is printed by the harness for information only: hawk_becs_setcapa on a string that has no
        #  buffer yet leaves the fresh buffer unterminated until the next write — an API wart unrelated to allocation failure)
        if cout[i] != "bad-op":
            if int(o["len"]) > int(o["capa"]) or len(o["s"]) != int(o["len"]) or (int(o["capa"]) > 0 and o["ptr"] != "1"):
                return i, "length/capacity/buffer inconsistent: " + cout[i]
        n = int(w[1]) if len(w) > 1 and w[0] in ("ncat", "ncpy") else 0
        data = "".join(chr(97 + (ctr + j) % 26) for j in range(n))
        ctr += n
        if w[0] != "new" and prev is not None and cout[i] != "bad-op":
            if o["ret"] == "ENOMEM" and (o["len"], o["capa"], o["s"], o["ptr"]) != (prev["len"], prev["capa"], prev["s"], prev["ptr"]):
                return i, "failed operation changed the string: before %s after %s" % (prev, o)
            if o["ret"] != "ENOMEM" and w[0] == "ncat" and o["s"] != prev["s"] + data:
                return i, "ncat result is not old contents + new characters"
            if o["ret"] != "ENOMEM" and w[0] == "ncpy" and o["s"] != data:
                return i, "ncpy result is not the new characters"
        prev = o if cout[i] != "bad-op" else prev
    return None


def ecs_part(ctx, exe):
    lines = ecs_exhaustive() + gen_ecs(ctx.rng, 150 if ctx.tier == "quick" else 3000)
    rc, cout, cerr = C.run_harness(exe, ["ecs"], lines, timeout=120 + len(lines) // 200)
    st = C.classify_rc(rc, cerr)
    mout = drv(ctx, lines)
    hit = ecs_oracle(lines, cout)
    nontriv = sum(1 for l, o in zip(lines, cout) if "ENOMEM" in o)
    if st != "ok" or hit:
        i = hit[0] if hit else len(cout)
        # shrink to the block
        j = i
        while j > 0 and not lines[j].startswith("new"):
            j -= 1
        block = lines[j:i + 1]
        rc2, co2, ce2 = C.run_harness(exe, ["ecs"], block, timeout=60)
        hit2 = ecs_oracle(block, co2)
        if hit2 or C.classify_rc(rc2, ce2) != "ok":
            use = block
        else:
            use = lines[:i + 1]
        ctx.problem("impl", "ecs: %s (%s)" % (hit[1] if hit else st, st), "kind: ecs\n" + "\n".join(use) + "\n# impl:\n" + "\n".join(co2) + "\n" + cerr[-800:], found_input=True)
    else:
        d = C.diff_streams([x.replace(" NOT-TERMINATED", "") for x in cout], mout)
        if d is not None:
            ctx.problem("corr", "ecs model and hawk_becs_* differ at op %d `%s`: impl `%s` model `%s` (theorems ecs_oom_atomic, ecs_ncat_ok, ecs_growLoop_spec speak about the model)"
                        % (d, lines[min(d, len(lines) - 1)], cout[d] if d < len(cout) else "<none>", mout[d] if d < len(mout) else "<none>"),
                        "kind: ecs\n" + "\n".join(lines[max(0, d - 12):d + 1]) + "\n", found_input=False)
    return len(lines), nontriv


# ----------------------------------------------------------------------------- hawk -m N (zone allocator)
def cli_part(ctx, libdir, cdir, progs):
    hawk = os.path.join(libdir, "hawk")
    evals = 0
    bad = []
    sel = progs[:3] if ctx.tier == "quick" else progs[:6]
    for name in sel:
        wd = make_workdir(ctx, cdir, "cli_" + name, open(os.path.join(cdir, name + ".hawk")).read())
        env = dict(C.ASAN_ENV)

        def run(N):
            cmd = ["timeout", "-s", "KILL", "30", hawk, "--tolerant=off"] + (["-m", str(N)] if N else []) + ["-f", "prog.hawk", "data.txt"]
            return C.sh(cmd, timeout=40, cwd=wd, env=env)
        rc0, out0, err0 = run(0)
        if rc0 != 0:
            bad.append((name, 0, "unconstrained CLI run failed rc=%s %s" % (rc0, err0[-200:])))
            continue
        sizes = set()
        n = 1024
        while n <= 2 * 1024 * 1024:
            sizes.add(int(n)); n *= 1.12 if ctx.tier == "quick" else 1.04
        # smallest size that works (bisect), then every size in a window around it
        lo, hi = 1024, 4 * 1024 * 1024
        while hi - lo > 64:
            mid = (lo + hi) // 2
            r = run(mid); evals += 1
            if r[0] == 0 and r[1] == out0:
                hi = mid
            else:
                lo = mid
        win = 40 if ctx.tier == "quick" else 400
        for x in range(max(1, hi - win), hi + win):
            sizes.add(x)
        sizes = sorted(sizes)

        def one(N):
            rc, out, err = run(N)
            e = err.decode(errors="replace")
            st = C.classify_rc(rc, e)
            if rc in (-9, 137):
                return (N, "hang")
            if st in ("ASAN", "UBSAN") or rc < 0 or rc in (134, 139, 66, 67):
                return (N, "crash %s: %s" % (st, e[-300:].replace("\n", " ")))
            if rc == 0:
                return None if out == out0 else (N, "exit 0 with output different from the unconstrained run")
            if b"SOFTERR" in out:
                return None   # the script saw getline return -1 and exited by itself
            if "ERROR" not in e and "error" not in e.lower():
                return (N, "exit %d without an error message" % rc)
            return None
        with concurrent.futures.ThreadPoolExecutor(max_workers=NPROC) as ex:
            for r in ex.map(one, sizes):
                evals += 1
                if r:
                    bad.append((name, r[0], r[1]))
        shutil.rmtree(wd, ignore_errors=True)
    for name, N, what in bad[:3]:
        ctx.problem("impl", "hawk -m %d on %s: %s" % (N, name, what),
                    "kind: cli\nprogram: %s\nN: %d\n# run: hawk --tolerant=off -m %d -f corpus/C10/%s.hawk corpus/C10/data.txt\n" % (name, N, N, name), found_input=True)
    return evals


# ----------------------------------------------------------------------------- main
def choose_ks(ctx, total, mode, first_prog, open_total, dense=()):
    """request indices to inject at.  The open phase is program independent: only the first program sweeps it."""
    lo = 0 if first_prog else open_total
    ks = list(range(lo, total + 1))
    if ctx.tier == "thorough":
        return ks
    stride = 2 if mode == "one" else 8
    off = ctx.rng.randrange(stride)
    return [k for k in ks if k < 200 or (k - off) % stride == 0 or k >= total - 8 or (dense and dense[0] <= k < dense[1])]


def run(ctx):
    ok_tr, tr = translate(ctx)
    if not ok_tr:
        ctx.problem("corr", "extract/unwind.py refuses the constructor sources (fails closed): %s" % tr,
                    "translator error:\n%s\n" % tr, found_input=False)
    proof = C.prove(ctx, "HawkModel.Props.C10", leanchecker=(ctx.tier == "thorough"))
    libdir = C.build_libhawk(ctx)
    exe = C.cc_harness(ctx, os.path.join(C.VERIF, "harness", "oom_h.c"), link_lib=libdir)
    cdir, progs = corpus_programs(ctx)
    evaluations = 0
    sites = set()
    dist = {}
    soft = 0
    problems_corr = []
    problems_impl = []
    groups = {}   # (prog-independent signature) -> first (name, mode, d, verdict)
    # reference runs
    refs = {}
    wds = {}
    for name in progs:
        wds[name] = make_workdir(ctx, cdir, name)
        ref, msg = run_ref(exe, wds[name])
        if not ref_clean(ref, open(os.path.join(cdir, name + ".hawk")).read()):
            ctx.problem("impl", "unconstrained run of %s is not clean (memory error, leak, foreign free or unexpected failure): %s" % (name, msg or ref["raw"]),
                        replay_text("lifecycle", name, "none", -1, cdir, open(os.path.join(cdir, name + ".hawk")).read()), found_input=True)
            continue
        refs[name] = ref
    open_total = min((r["reqs"][1] for r in refs.values()), default=0)
    jobs = []
    order = [n for n in progs if n in refs]
    for i, name in enumerate(order):
        total = refs[name]["nreq"]
        for mode in ("one", "from"):
            # the programs whose rtx_open phase is compared with the table model get every k of that phase
            dense = (refs[name]["reqs"][2], refs[name]["reqs"][3]) if i < 4 else ()
            if name[0] in "re":
                # multi-step programs: a defect shows only for the few request indices inside the second (replacing)
                # step, so every index of the execution phase is injected in both modes, also in the quick tier
                dense = (refs[name]["reqs"][2], total + 1)
            jobs.append((wds[name], mode, choose_ks(ctx, total, mode, i == 0, open_total, dense)))
    t0 = time.time()
    res = run_sweeps(exe, jobs)
    ctx.log("fault enumeration: %d cases over %d programs in %.1fs" % (sum(len(r[2]) for r in res), len(order), time.time() - t0))
    symbolize(exe, [d for r in res for d in r[2]])
    by_prog = {}
    for (wd, mode, lines) in res:
        name = os.path.basename(wd)[3:]
        by_prog.setdefault(name, {})[mode] = lines
        for d in lines:
            evaluations += 1
            d["mode"] = mode
            d["_referr"] = ref_err(refs[name])
            oc = d.get("outcome", "?")
            key = "%s/%s" % (d.get("failphase", d.get("phase", "?")), oc.split(":")[0])
            dist[key] = dist.get(key, 0) + 1
            if d.get("hit") and d.get("site", "-") not in ("-", "?"):
                sites.add("<".join(d["site"].split("<")[:5]))
            if oc == "SOFTERR":
                soft += 1
            v = judge(d)
            if v:
                g = (v[0], d.get("failphase", "?"), "<".join(d.get("site", "?").split("<")[:5]), v[1])
                if g not in groups:
                    groups[g] = [name, mode, d, v, 0]
                groups[g][4] += 1
    # thorough: the same enumeration with HAWK_TOLERANT left on (the library default): a failing print/printf then
    # yields -1 by design, so only memory errors, foreign frees and leaks are judged
    if ctx.tier == "thorough":
        jobs_t = [(wds[name], "one", choose_ks(ctx, refs[name]["nreq"], "one", False, open_total)) for name in order]
        res_t = run_sweeps(exe, jobs_t, env=dict(C.ASAN_ENV, OOMH_TOLERANT="1"))
        symbolize(exe, [d for r in res_t for d in r[2]])
        for (wd, mode, lines) in res_t:
            name = os.path.basename(wd)[3:]
            for d in lines:
                evaluations += 1
                d["_referr"] = ref_err(refs[name])
                v = judge(d)
                if v and v[0].split(":")[0] in ("crash", "leak", "badfree"):
                    g = ("tolerant:" + v[0], d.get("failphase", "?"), "<".join(d.get("site", "?").split("<")[:5]), v[1])
                    if g not in groups:
                        groups[g] = [name, "one", d, (v[0], v[1], "[HAWK_TOLERANT on] " + v[2]), 0]
                    groups[g][4] += 1
    # correspondence with the table model
    if ok_tr and proof["build_ok"] and order:
        first = order[0]
        open_lines = [d for d in by_prog[first].get("one", []) if d.get("failphase") == "open"]
        try:
            e1, costs = ctor_correspondence(ctx, exe, open_lines, problems_corr, problems_impl)
            evaluations += e1
            for name in order[:4] if ctx.tier == "quick" else order:
                evaluations += rtx_correspondence(ctx, by_prog[name], problems_corr)
            ngc = 0
            for name in order:
                ngc += gc_retry_correspondence(by_prog[name].get("one", []), problems_corr, name)
            ctx.coverage["gc_retry_sites_checked"] = ngc
            ctx.coverage["opaque_callee_request_counts"] = costs
        except RuntimeError as e:
            problems_corr.append("lean driver failed: %s" % str(e)[:300])
    # ecs, CLI
    ne, ntriv_ecs = ecs_part(ctx, exe)
    evaluations += ne
    evaluations += cli_part(ctx, libdir, cdir, order)
    if os.environ.get("C10_DUMP"):
        with open(os.environ["C10_DUMP"], "w") as f:
            for g, (name, mode, d, v, cnt) in sorted(groups.items(), key=lambda x: x[1][2]["k"]):
                f.write("%s %s k=%d x%d | %s | %s | sig=%s\n" % (name, mode, d["k"], cnt, v[2][:110], d.get("site"), v[1]))
    # report: concrete failing inputs first (smallest k per group), confirm before reporting
    for g, (name, mode, d, v, cnt) in sorted(groups.items(), key=lambda x: (x[1][3][1] is not None, x[1][2]["k"]))[:12]:
        prog_text = open(os.path.join(cdir, name + ".hawk")).read()
        # confirm on a fresh run
        tol = g[0].startswith("tolerant:")
        again, _, _ = sweep_job((exe, wds[name], mode, [d["k"]], "confirm", dict(C.ASAN_ENV, OOMH_TOLERANT="1") if tol else None))
        symbolize(exe, again)
        for a in again:
            a["_referr"] = ref_err(refs[name])
        if again and judge(again[0]) is None:
            continue
        what = "%s, %s mode, request %d refused (allocation site %s, phase %s): %s [%d case(s) of this kind]" % (
            name, mode, d["k"], d.get("site", "?"), d.get("failphase", "?"), v[2], cnt)
        ctx.problem("impl", what, replay_text("lifecycle", name, mode, d["k"], cdir, prog_text, "%sline: %s\n" % ("tolerant: 1\n" if tol else "", d["raw"])), found_input=True, sig=v[1])
    for (what, rp, found) in problems_impl[:3]:
        ctx.problem("impl", what, rp, found_input=found)
    if problems_corr and not any(p["found_input"] and not p["sig"] for p in ctx.problems):
        for w in problems_corr[:3]:
            ctx.problem("corr", w, "correspondence difference (no property violation found on the real code):\n" + w + "\n", found_input=False)
    ctx.coverage["soft_io_errors_seen_by_script"] = soft
    ctx.coverage["outcome_distribution"] = dict(sorted(dist.items()))
    ctx.coverage["programs"] = order
    ctx.coverage["tables"] = [dict(name=t["name"], steps=t["steps"], resources=t["resources"]) for t in tr] if ok_tr else []
    samples = sorted(sites)[:6]
    for p in order:
        shutil.rmtree(wds[p], ignore_errors=True)
    return C.finish(ctx, [proof], evaluations, len(sites),
                    "cases = (program, request index k, mode) for %d corpus programs x {fail exactly the k-th request, fail every request from the k-th on} over open/parse/rtx_open/exec/close "
                    "(quick: k<200 + every 2nd (`one`) / every 8th (`from`) at a seeded offset + the last 8, and every k of the rtx_open+exec phases of the r*/e* program families; thorough: every k), + constructor probes (hawk_init, hawk_open, hawk_openstdwithmmgr, every k, both modes) "
                    "+ ecs op streams (exhaustive pairs + random, scripted allocator) + `hawk -m N` sweep (geometric 1 KiB..2 MiB + every size around the smallest working one); "
                    "each case judged on the real code: ENOMEM or identical output, no sanitizer report/signal/hang, zero live blocks, no foreign free; "
                    "distinct_nontrivial = distinct allocation call chains (innermost 5 hawk frames) at which a refusal was actually injected" % len(order),
                    samples, extra_cov=dict(ecs_ops=ne, ecs_refusals=ntriv_ecs),
                    trusted=["constructor bodies -> tables by extract/unwind.py (fails closed; trusts its ALLOC/RELEASE/INERT/LEAF/OPAQUE name lists, printed in Gen/Unwind.lean `trusted`)",
                             "gc_calloc_val/makemapval and ecs-imp.h modelled by hand in HawkModel/Oom.lean (ecs validated line by line against hawk_becs_*; gc retry only through its observable effect)",
                             "the individual `if (!p)` branches outside the extracted constructors are NOT modelled: they are enumerated by fault injection only"],
                    assumptions=["HAWK_TOLERANT is switched off for the enumeration (with it a failing print/printf yields -1 by design)",
                                 "a getline/close that returns -1 to the script counts as a reported error when the script itself notices it (SOFTERR marker)",
                                 "fields tested by `if (x) release(x)` are zero before assignment (translator checks for the HAWK_MEMSET)",
                                 "open_rtx_std's ownership hand-over through the rtx ecb is outside the table language (harness only)"])


# ----------------------------------------------------------------------------- replay
def replay(ctx, path):
    txt = open(path).read()
    hdr = {}
    for l in txt.split("\n"):
        m = re.match(r"(kind|program|mode|k|N|ctor|tolerant): (.*)$", l)
        if m and m.group(1) not in hdr:
            hdr[m.group(1)] = m.group(2).strip()
    libdir = C.build_libhawk(ctx)
    exe = C.cc_harness(ctx, os.path.join(C.VERIF, "harness", "oom_h.c"), link_lib=libdir)
    cdir, progs = corpus_programs(ctx)
    kind = hdr.get("kind", "lifecycle")
    if kind == "lifecycle":
        m = re.search(r"--- prog\.hawk\n(.*?)--- end\n", txt, re.S)
        text = m.group(1) if m else open(os.path.join(cdir, hdr["program"] + ".hawk")).read()
        wd = make_workdir(ctx, cdir, "replay", text)
        ref, msg = run_ref(exe, wd)
        print("reference:", ref["raw"] if ref else msg)
        if hdr.get("mode") == "none":
            return 0 if ref_clean(ref, text) else 1
        lines, rc, err = sweep_job((exe, wd, hdr["mode"], [int(hdr["k"])], "r", dict(C.ASAN_ENV, OOMH_TOLERANT="1") if hdr.get("tolerant") == "1" else None))
        symbolize(exe, lines)
        for d in lines:
            print(d["raw"])
            print("allocation site:", d.get("site"))
            d["_referr"] = ref_err(ref) if ref else None
            v = judge(d)
            if v and hdr.get("tolerant") == "1" and v[0].split(":")[0] not in ("crash", "leak", "badfree"):
                v = None
            print("verdict:", v[2] if v else "property holds for this case")
            return 1 if v else 0
        print("no output", rc, err[-300:])
        return 1
    if kind == "ecs":
        lines = [l for l in txt.split("\n") if l and not l.startswith(("#", "kind:")) and l.split()[0] in ("new", "ncat", "ncpy", "setcapa", "setlen", "clear")]
        cut = txt.find("# impl:")
        if cut >= 0:
            lines = [l for l in txt[:cut].split("\n") if l and l.split()[0] in ("new", "ncat", "ncpy", "setcapa", "setlen", "clear")]
        rc, cout, cerr = C.run_harness(exe, ["ecs"], lines, timeout=60)
        mout = drv(ctx, lines)
        for l, a, b in zip(lines, cout, mout):
            print("%-22s impl: %-48s model: %s" % (l, a, b))
        hit = ecs_oracle(lines, cout)
        print("oracle:", hit)
        return 1 if (hit or C.classify_rc(rc, cerr) != "ok" or C.diff_streams(cout, mout) is not None) else 0
    if kind == "ctor":
        rc, out, err = C.run_harness(exe, ["ctor", hdr["ctor"], hdr["mode"], hdr["k"], str(int(hdr["k"]) + 1)], None, timeout=60)
        print("\n".join(out), err[-800:])
        bad = C.classify_rc(rc, err) != "ok" or any(kv(l).get("live") != "0" or kv(l).get("badfree") != "0" for l in out if l.startswith("ctor="))
        return 1 if bad else 0
    if kind == "cli":
        hawk = os.path.join(libdir, "hawk")
        wd = make_workdir(ctx, cdir, "replaycli", open(os.path.join(cdir, hdr["program"] + ".hawk")).read())
        rc, out, err = C.sh(["timeout", "-s", "KILL", "30", hawk, "--tolerant=off", "-m", hdr["N"], "-f", "prog.hawk", "data.txt"], timeout=40, cwd=wd, env=C.ASAN_ENV)
        print("rc=%s" % rc, err.decode(errors="replace")[-600:])
        return 1 if (rc < 0 or rc in (66, 67, 134, 137, 139)) else 0
    print("unknown replay kind")
    return 2
