"""C01 — no script or input can crash or wedge the embedding process.

proof        : lean/HawkModel/Props/C01.lean over the guard models (HawkModel/Crash.lean) and the tables re-extracted
               from the working tree on every run (extract/fnc_dispatch.py, loops.py, div_sites.py, flag_sites.py, stack_sites.py, arg_sites.py, switch_sites.py, subscript_sites.py, retry_sites.py).
property oracle (independent of the Lean model): generated programs x inputs x trait sets run in-process under
               ASan/UBSan/asserts by harness/crash_h.c; a signal, sanitizer report, assert abort, failure without error
               number or message, or an unanswered halt request is a concrete failing input (shrunk, replayable).
correspondence: the guard models (div/idiv/mod/pow, fold, IGNORECASE store, substr/index/match regions) against the
               real interpreter at language level; a difference without an oracle hit is reported as `corr`.
"""
import os, sys, re, time, random, subprocess, threading, hashlib, json, shutil
from concurrent.futures import ProcessPoolExecutor, as_completed
from .. import common as C
from . import c01_gen as G

C.CACHE = os.environ.get("HAWKVERIF_CACHE", C.CACHE)
EXTRACTORS = ["fnc_dispatch.py", "loops.py", "div_sites.py", "flag_sites.py", "stack_sites.py", "arg_sites.py", "switch_sites.py", "subscript_sites.py", "retry_sites.py"]
SOFT_MS, HARD_MS = 1500, 6000
NCPU = max(2, min(16, os.cpu_count() or 4))
ENV = dict(C.ASAN_ENV)
ENV["ASAN_OPTIONS"] = "detect_leaks=0:abort_on_error=0:exitcode=66:allocator_may_return_null=1:max_allocation_size_mb=1024:soft_rss_limit_mb=2048:handle_segv=1:detect_stack_use_after_return=0"
ENV["UBSAN_OPTIONS"] = "print_stacktrace=1:halt_on_error=1:exitcode=67"
VIOL_CLASSES = ("CRASH", "WEDGE", "VIOL_ERRNUM0", "VIOL_NOMSG")


def is_viol(r):
    """oracle hit: crash / wedge / failure without number or message, or a parse failure after which hawk_close() left blocks of the
    interpreter's allocator unreleased (the counting allocator of the harness: `leak` = blocks outstanding after close)"""
    return r["cls"] in VIOL_CLASSES or (r["cls"] == "PARSE_ERR" and r.get("leak", "0") not in ("0", "", None))


# ------------------------------------------------------------------------------------------------------------------
# cases
# ------------------------------------------------------------------------------------------------------------------
def make_cases(seed, n, prefix):
    """deterministic batch: 45% grammar programs, 30% targeted templates, 25% byte/token mutations of valid programs"""
    rng = random.Random(seed)
    out = []
    for k in range(n):
        q = rng.random()
        if q < 0.45:
            g = G.Gen(rng)
            src = g.program().encode("utf-8")
            kind, feats = "grammar", g.feat
        elif q < 0.75:
            g, s = G.targeted(rng)
            src = s.encode("utf-8", "surrogateescape")
            kind, feats = "targeted", g.feat
        else:
            if rng.random() < 0.4:
                base = rng.choice(G.SEEDS)
                feats = {"mut:seed"}
            else:
                g = G.Gen(rng)
                base = g.program()
                feats = set(g.feat) | {"mut:grammar"}
            src = G.mutate(rng, base)
            kind = "mutation"
        iname, inp = G.console_input(rng)
        tr = rng.choice(G.TRAITS)
        fl = "d" if rng.random() < 0.15 else "-"
        out.append(dict(id="%s_%d" % (prefix, k), traits=tr, flags=fl, src=src, inp=inp, kind=kind,
                        feats=sorted(feats | {"in:" + iname, "tr:" + tr, "k:" + kind} | ({"deparse"} if fl == "d" else set()))))
    return out


def write_casefile(path, cases):
    with open(path, "wb") as f:
        for c in cases:
            f.write(("CASE %s %s %s %d %d\n" % (c["id"], c["traits"], c["flags"], len(c["src"]), len(c["inp"]))).encode())
            f.write(c["src"] + b"\n" + c["inp"] + b"\n")


KV_RE = re.compile(r"(\w+)=(\S+)")


def run_harness(exe, cases, scratch, soft=SOFT_MS, hard=HARD_MS):
    """returns {id: result dict(cls, line, stderr, fields...)}; budget proportional to the batch"""
    os.makedirs(scratch, exist_ok=True)
    cf = os.path.join(scratch, "cases.bin")
    write_casefile(cf, cases)
    budget = 30 + len(cases) * (soft + hard) / 1000.0 * 0.25 + len(cases) * 0.5
    for attempt in range(20):
        try:
            rc, out, err = C.sh([exe, cf, str(soft), str(hard), os.path.join(scratch, "w")], timeout=budget, env=ENV, cwd=scratch)
            break
        except OSError as e:
            # ETXTBSY: a child forked by another thread (lake, gcc) still holds the descriptor through which our copy of the
            # harness was written, for the instant between its fork and exec
            if e.errno != 26 or attempt == 19:
                raise
            time.sleep(0.25)
    res = {}
    for line in out.decode(errors="replace").split("\n"):
        w = line.split(" ", 3)
        if len(w) >= 3 and w[0] == "RESULT":
            d = dict(KV_RE.findall(line))
            d["cls"] = w[2]
            d["line"] = line
            d["stderr"] = ""
            res[w[1]] = d
        elif len(w) >= 3 and w[0] == "STDERR" and w[1] in res:
            try:
                res[w[1]]["stderr"] = bytes.fromhex(w[2]).decode(errors="replace") if w[2] != "-" else ""
            except ValueError:
                pass
    shutil.rmtree(os.path.join(scratch, "w"), ignore_errors=True)
    return res, rc, err.decode(errors="replace")[-2000:]


LEAF_RE = re.compile(r"^(hawk_clrpt|make_\w+_val|hawk_rtx_make\w*val\w*|hawk_copy_\w+|hawk_comp_\w+|hawk_\w?ecs_\w+|hawk_rtx_refupval|hawk_rtx_refdownval|hawk_rtx_freeval\w*|hawk_rtx_getval\w+|hawk_rtx_valto\w+|hawk_rtx_freemem|hawk_gem_\w+)$")
FRAME_RE = re.compile(r"#\d+ 0x[0-9a-f]+ in (\S+) (\S+?):(\d+)")


def signature(r):
    """dedupe key: top hawk frame of the sanitizer stack, else the kind of failure"""
    cls = r["cls"]
    if cls == "CRASH":
        se = r.get("stderr", "")
        m = re.search(r"assertion failure|Assertion.*failed|ASSERTION", se)
        if "AddressSanitizer: stack-overflow" in se:
            return "crash:stack-overflow"        # unbounded native recursion (nesting limits, property C14): top frames vary
        first = None
        for fn, path, ln in FRAME_RE.findall(se):
            if "/lib/" in path or "/bin/" in path or "/mod/" in path:
                if "libsanitizer" in path or "crash_h.c" in path:
                    continue
                first = first or fn
                base = os.path.basename(path)
                # leaf utilities (string copy/compare, buffer append, value constructors) say nothing about the site: take their caller
                if base.startswith("utl") or base.endswith(".h") or base in ("ecs.c", "mem.c", "gem.c") or LEAF_RE.match(fn):
                    continue
                return "crash:" + fn
        if first:
            return "crash:" + first
        if "stack-overflow" in se:
            return "crash:stack-overflow"
        if m:
            m2 = re.search(r"(\w[\w-]*\.c):(\d+)", se)
            return "crash:assert:" + (m2.group(1) if m2 else "?")
        return "crash:" + (r.get("sig") and "sig" + r["sig"] or "exit" + r.get("exit", "?"))
    if cls == "WEDGE":
        # the site: first frame of the sampled stack that belongs to the interpreter proper (not to a library layer below it)
        for fn, path, ln in FRAME_RE.findall(r.get("stderr", "")):
            base = os.path.basename(path)
            if ("/lib/" in path or "/bin/" in path) and (base in ("run.c", "fnc.c", "misc.c", "rec.c", "rio.c", "val.c", "std.c", "parse.c", "hawk.c", "arr.c")
                                                         or base.startswith("mod-")) and not LEAF_RE.match(fn) and fn != "on_usr2":
                return "wedge:" + fn
        return "wedge:" + r.get("phase", "?")
    if cls == "PARSE_ERR" and r.get("leak", "0") not in ("0", "", None):
        return "leak:parse:e" + r.get("errnum", "?")
    if cls == "VIOL_ERRNUM0":
        return "errnum0:" + r.get("stage", "?")
    if cls == "VIOL_NOMSG":
        return "nomsg:" + r.get("stage", "?")
    return None


def describe(r):
    se = r.get("stderr", "")
    head = [l.strip() for l in se.split("\n") if ("ERROR: AddressSanitizer" in l or "runtime error:" in l or "ssertion" in l)][:1]
    frames = ["%s (%s:%s)" % (fn, os.path.basename(p), ln) for fn, p, ln in FRAME_RE.findall(se) if "libsanitizer" not in p][:4]
    return (r["line"][:160] + (" | " + head[0][:200] if head else "") + (" | " + " <- ".join(frames) if frames else ""))


# ------------------------------------------------------------------------------------------------------------------
# campaign jobs (process pool)
# ------------------------------------------------------------------------------------------------------------------
def job(args):
    exe, seed, n, prefix, scratch = args
    t = time.time()
    cases = make_cases(seed, n, prefix)
    res, rc, err = run_harness(exe, cases, scratch)
    classes, feats, viol, nontriv = {}, {}, [], set()
    lost = 0
    for c in cases:
        r = res.get(c["id"])
        if r is None:
            lost += 1
            continue
        classes[r["cls"]] = classes.get(r["cls"], 0) + 1
        ran = r.get("stage") in ("run", "done")
        for ft in c["feats"]:
            a = feats.setdefault(ft, [0, 0])
            a[0] += 1
            a[1] += 1 if ran else 0
        if ran and int(r.get("stmts", "0")) >= 3:
            nontriv.add(hashlib.sha1(c["src"] + c["traits"].encode() + c["inp"][:64]).hexdigest()[:12])
        if is_viol(r):
            viol.append((signature(r), c, r))
    shutil.rmtree(scratch, ignore_errors=True)
    return dict(n=len(cases), classes=classes, feats=feats, viol=viol, nontriv=nontriv, lost=lost, rc=rc, err=err if lost else "",
                secs=time.time() - t, sample=cases[0]["src"][:300].decode(errors="replace"))


def one(exe, case, scratch):
    res, rc, err = run_harness(exe, [case], scratch)
    shutil.rmtree(scratch, ignore_errors=True)
    return res.get(case["id"])


def ddmin_batch(items, test_batch, deadline, width=24):
    """delta debugging where all complements of one granularity level are tried in one harness run"""
    cur, n = list(items), 2
    while len(cur) >= 2 and time.time() < deadline:
        chunk = max(1, len(cur) // n)
        subsets = [cur[i:i + chunk] for i in range(0, len(cur), chunk)]
        comps = [[x for j, sub in enumerate(subsets) if j != i for x in sub] for i in range(len(subsets))]
        comps = [c for c in comps if c]
        hit = None
        for k in range(0, len(comps), width):
            res = test_batch(comps[k:k + width])
            hit = next((k + i for i, ok in enumerate(res) if ok), None)
            if hit is not None or time.time() > deadline:
                break
        if hit is not None:
            cur, n = comps[hit], max(n - 1, 2)
        else:
            if n >= len(cur):
                break
            n = min(len(cur), n * 2)
    return cur


def structural_reduce(toks, test_batch, deadline, width=24):
    """syntax-aware reduction: empty a block, delete a statement / rule / function, replace a bracketed group by 1.
    Larger spans first; all candidates of a round go through one harness run; first success is applied."""
    OPEN, CLOSE = {"(": ")", "[": "]", "{": "}"}, {")", "]", "}"}
    cur = list(toks)
    while time.time() < deadline:
        stack, pairs = [], []
        depth_at = []
        for i, t in enumerate(cur):
            k = t.strip()
            depth_at.append(len(stack))
            if k in OPEN:
                stack.append(i)
            elif k in CLOSE and stack:
                pairs.append((stack.pop(), i))
        cands = []
        for i, j in pairs:
            k = cur[i].strip()
            if k == "{" and j > i + 1:
                cands.append((j - i, cur[:i + 1] + cur[j:]))
            if k in ("(", "[") and j > i + 1:
                cands.append((j - i, cur[:i] + ([cur[i], "1", cur[j]] if k == "[" else ["1 "]) + cur[j + 1:]))
        # statements: from after the previous ; { } at the same depth up to and including this ;
        for kx, t in enumerate(cur):
            if t.strip() in (";", "}"):
                d = depth_at[kx] - (1 if t.strip() == "}" else 0) if t.strip() == "}" else depth_at[kx]
                a = kx - 1
                while a >= 0 and not (cur[a].strip() in (";", "{", "}") and depth_at[a] <= depth_at[kx]):
                    a -= 1
                if t.strip() == ";" and kx - a >= 1:
                    cands.append((kx - a, cur[:a + 1] + cur[kx + 1:]))
        # top-level items: text between top-level closing braces
        prev = -1
        for kx, t in enumerate(cur):
            if t.strip() == "}" and depth_at[kx] == 1:
                cands.append((kx - prev, cur[:prev + 1] + cur[kx + 1:]))
                prev = kx
        cands = [c for c in cands if c[1] and len(c[1]) < len(cur)]
        cands.sort(key=lambda c: -c[0])
        seen, uniq = set(), []
        for sz, c in cands:
            key = "".join(c)
            if key not in seen:
                seen.add(key)
                uniq.append(c)
        hit = None
        for k in range(0, len(uniq), width):
            res = test_batch(uniq[k:k + width])
            hit = next((k + i for i, ok in enumerate(res) if ok), None)
            if hit is not None or time.time() > deadline:
                break
        if hit is None:
            break
        cur = uniq[hit]
    return cur


def shrink_job(args):
    """confirm a violation on a single case (up to three candidates), then minimise traits, input and source
    (token-level delta debugging, complements batched into one harness run)"""
    exe, sig, cands, scratch, secs = args
    t_end = time.time() + secs
    wedge = sig.startswith("wedge")
    best = rbest = None
    for case in cands:
        case = dict(case, id="v")
        for attempt in range(2):
            r0 = one(exe, case, scratch)
            if r0 is not None and signature(r0) == sig:
                best, rbest = case, r0
                break
        if best:
            break
    if not best:
        return dict(sig=sig, confirmed=False, case=dict(cands[0], id="v"), res=None)
    if wedge and secs < 60:
        return dict(sig=sig, confirmed=True, case=best, res=rbest)

    def batch(cases):
        cs = [dict(c, id="v%d" % i) for i, c in enumerate(cases)]
        res, rc, err = run_harness(exe, cs, scratch, soft=(400 if wedge else SOFT_MS), hard=(2500 if wedge else HARD_MS))
        shutil.rmtree(scratch, ignore_errors=True)
        return [(res.get(c["id"]) is not None and signature(res[c["id"]]) == sig, res.get(c["id"])) for c in cs]
    trials = []
    if best["traits"] != "m":
        trials.append(dict(best, traits="m"))
    for inp in (b"", b"a b c\n", best["inp"][:200]):
        if len(inp) < len(best["inp"]):
            trials.append(dict(best, inp=inp))
    if trials:
        out = batch(trials)
        for t, (ok, r) in zip(trials, out):
            if ok and t.get("traits") == "m" and best["traits"] != "m":
                best, rbest = dict(best, traits="m"), r
        for t, (ok, r) in zip(trials, out):
            if ok and len(t["inp"]) < len(best["inp"]):
                ok2, r2 = batch([dict(best, inp=t["inp"])])[0]
                if ok2:
                    best, rbest = dict(best, inp=t["inp"]), r2
                    break
    toks = []
    for t in G.tokens(best["src"].decode("utf-8", "surrogateescape")):
        if t.isspace() and toks:
            toks[-1] += t
        else:
            toks.append(t)

    def tb(cands_):
        return [ok for ok, r in batch([dict(best, src="".join(c).encode("utf-8", "surrogateescape")) for c in cands_])]
    toks = structural_reduce(toks, tb, t_end - secs * 0.35, width=(4 if wedge else 24))
    small = ddmin_batch(toks, tb, t_end, width=(4 if wedge else 24))
    src = "".join(small).encode("utf-8", "surrogateescape")
    ok, r = batch([dict(best, src=src)])[0]
    if ok:
        best, rbest = dict(best, src=src), r
    return dict(sig=sig, confirmed=True, case=best, res=rbest)


def replay_text(case, res, note=""):
    hdr = "# C01 replay: ./check C01 --replay <this file>   (last line: HEXCASE <traits> <hex of source> <hex of console input>)\n"
    hdr += "# %s\n" % note if note else ""
    hdr += "# source (repr): %r\n# input (repr, first 200 bytes): %r\n" % (case["src"][:1500], case["inp"][:200])
    if res is not None:
        hdr += "# result: %s\n" % res["line"][:300]
        for l in res.get("stderr", "").split("\n")[:40]:
            hdr += "#   " + l[:220] + "\n"
    return hdr + "---8<--- case\nHEXCASE %s %s %s\n" % (case["traits"], case["src"].hex() or "-", case["inp"].hex() or "-")


# ------------------------------------------------------------------------------------------------------------------
# correspondence of the guard models with the interpreter (language level)
# ------------------------------------------------------------------------------------------------------------------
def lit(v):
    if v == -2 ** 63:
        return "(-9223372036854775807-1)"
    return str(v) if v >= 0 else "(%d)" % v


def corr_ops(rng, tier):
    E = [0, 1, -1, 2, -2, 3, 7, -7, 10, 63, 64, 2 ** 31, 2 ** 62, 2 ** 63 - 1, -2 ** 63, -2 ** 63 + 1, 6, -6, 100, 12345678901]
    ops = []
    pairs = [(a, b) for a in E for b in E]
    rng.shuffle(pairs)
    take = 60 if tier == "quick" else len(pairs)
    for a, b in pairs[:take] + [(-2 ** 63, -1), (5, 0), (-2 ** 63, 0), (0, -1), (7, -1)]:
        for op in ("div", "idiv", "mod", "fdiv", "fidiv", "fmod"):
            ops.append((op, a, b))
    for b in [0, 1, -1, 2, -2, 3, 10, 2 ** 32 + 1, -3, 7]:
        for e in [0, 1, 2, 3, 10, 31, 40, 63, 64, 65, 1000, 2 ** 40, 2 ** 62]:
            ops.append(("pow", b, e))
    for v in ["int 0", "int 1", "int -1", "int 5", "int -5", "int 9223372036854775807", "int -9223372036854775808",
              "flt zero", "flt pos", "flt neg", "flt nan"]:
        ops.append(("ic",) + tuple(v.split()))
    for ln in (0, 1, 5, 10):
        for i in [-2 ** 63, -5, -1, 0, 1, 2, ln, ln + 1, ln + 5, 2 ** 63 - 1]:
            for c in ["-", -2 ** 63, -1, 0, 1, 3, ln, 100, 2 ** 63 - 1]:
                ops.append(("substr", ln, i, c))
    for ln in (0, 1, 6, 9):
        for b in ["-", -2 ** 63, -ln - 2, -ln - 1, -ln, -2, -1, 0, 1, 2, ln - 1, ln, ln + 1, ln + 2, 2 ** 63 - 1]:
            for rx in (0, 1):
                ops.append(("index", ln, b, rx))
            if b != "-":
                ops.append(("match", ln, b))
    return ops


SUBJ = "abcabcabcabc"


def corr_program(op):
    k = op[0]
    if k in ("div", "idiv", "mod"):
        sym = {"div": "/", "idiv": "\\", "mod": "%"}[k]
        return "BEGIN { a = %s; b = %s; r = a %s b; print hawk::typename(r), r; }" % (lit(op[1]), lit(op[2]), sym)
    if k in ("fdiv", "fidiv", "fmod"):
        sym = {"fdiv": "/", "fidiv": "\\", "fmod": "%"}[k]
        return "BEGIN { r = %s %s %s; print hawk::typename(r), r; }" % (lit(op[1]), sym, lit(op[2]))
    if k == "pow":
        return "BEGIN { a = %s; b = %s; r = a ** b; print hawk::typename(r), r; }" % (lit(op[1]), lit(op[2]))
    if k == "ic":
        if op[1] == "int":
            v = lit(int(op[2]))
        else:
            v = {"zero": "0.0", "pos": "2.5", "neg": "(-2.5)", "nan": "log(-1)"}[op[2]]
        return "BEGIN { IGNORECASE = %s; }" % v
    if k == "substr":
        s = SUBJ[:op[1]]
        return 'BEGIN { s = "%s"; print "[" substr(s, %s%s) "]"; }' % (s, lit(op[2]), "" if op[3] == "-" else ", " + lit(op[3]))
    if k == "index":
        s = SUBJ[:op[1]]
        fn = "str::rindex" if op[3] else "str::index"
        return 'BEGIN { s = "%s"; print %s(s, "c"%s); }' % (s, fn, "" if op[2] == "-" else ", " + lit(op[2]))
    if k == "match":
        s = SUBJ[:op[1]]
        return 'BEGIN { s = "%s"; print str::match(s, /c/, %s); }' % (s, lit(op[2]))
    raise ValueError(k)


def expected(op, model, edivby0):
    """what the interpreter must print / how it must end, given the model's answer.  ('out', text) | ('err', stage, errnum) | ('ic', v)"""
    k = op[0]
    w = model.split()
    if k in ("div", "idiv", "mod", "fdiv", "fidiv", "fmod", "pow"):
        if w[0] == "int":
            return ("out", "int %s" % w[1])
        if w[0] == "flt":
            return ("flt", int(w[1]) / int(w[2]))
        if w[0] == "err":
            return ("err", "parse" if k.startswith("f") else "run", edivby0)
        return ("bad", model)
    if k == "ic":
        return ("ic", int(w[0])) if re.fullmatch(r"-?\d+", w[0]) else ("bad", model)
    if k == "substr":
        off, cnt = int(w[0]), int(w[1])
        return ("out", "[" + SUBJ[:op[1]][off:off + cnt] + "]")
    if k in ("index", "match"):
        s = SUBJ[:op[1]]
        if w[0] == "none":
            return ("out", "0")
        off, n = int(w[0]), int(w[1])
        reg = s[off:off + n]
        p = reg.rfind("c") if (k == "index" and op[3]) else reg.find("c")
        return ("out", str(off + p + 1) if p >= 0 else "0")
    return ("bad", model)


def correspondence(ctx, exe):
    ops = corr_ops(ctx.rng, ctx.tier)
    lines = [" ".join(str(x) for x in op) for op in ops]
    model = C.run_driver(ctx, "crash", lines, timeout=120 + len(lines) // 50)
    cases = [dict(id="cal", traits="m", flags="o", src=b"BEGIN { a = 1; b = 0; r = a / b; }", inp=b"")]
    for i, op in enumerate(ops):
        cases.append(dict(id="k%d" % i, traits="m", flags="o", src=corr_program(op).encode(), inp=b""))
    res = {}
    chunks = [cases[i::NCPU] for i in range(NCPU)]
    with ProcessPoolExecutor(NCPU) as ex:
        futs = [ex.submit(run_harness, exe, ch, os.path.join(ctx.scratch, "corr%d" % j)) for j, ch in enumerate(chunks) if ch]
        for f in futs:
            r, rc, err = f.result()
            res.update(r)
    cal = res.get("cal")
    edivby0 = int(cal["errnum"]) if cal and cal["cls"] == "RUN_ERR" else None
    diffs, oracle_hits = [], []
    dist = {}
    for i, op in enumerate(ops):
        r = res.get("k%d" % i)
        dist[op[0]] = dist.get(op[0], 0) + 1
        prog = corr_program(op)
        if r is None:
            oracle_hits.append((op, prog, None, "no result from the harness"))
            continue
        if is_viol(r):
            oracle_hits.append((op, prog, r, describe(r)))
            continue
        exp = expected(op, model[i], edivby0)
        out = bytes.fromhex(r["out"]).decode(errors="replace").strip() if r.get("out", "-") != "-" else ""
        ok = True
        if exp[0] == "out":
            ok = r["cls"] == "OK" and out == exp[1]
        elif exp[0] == "flt":
            m = re.fullmatch(r"flt (\S+)", out)
            try:
                ok = r["cls"] == "OK" and m is not None and abs(float(m.group(1)) - exp[1]) <= 1e-5 * abs(exp[1]) + 1e-300
            except ValueError:
                ok = False
        elif exp[0] == "err":
            ok = r["cls"] == ("PARSE_ERR" if exp[1] == "parse" else "RUN_ERR") and (exp[2] is None or int(r["errnum"]) == exp[2])
        elif exp[0] == "ic":
            ok = r["cls"] == "OK" and int(r["ic"]) == exp[1]
        else:
            ok = False
        if not ok:
            diffs.append((op, prog, "model `%s` -> expected %r; interpreter: %s out=%r errnum=%s ic=%s" % (model[i], exp, r["cls"], out[:80], r.get("errnum"), r.get("ic"))))
    return len(ops), dist, diffs, oracle_hits


# ------------------------------------------------------------------------------------------------------------------
GEN_OUT = {"fnc_dispatch.py": "FncDispatch.lean", "loops.py": "Loops.lean", "div_sites.py": "DivSites.lean", "flag_sites.py": "FlagSites.lean", "stack_sites.py": "StackSites.lean",
           "arg_sites.py": "ArgSites.lean", "switch_sites.py": "SwitchSites.lean", "subscript_sites.py": "SubscriptSites.lean", "retry_sites.py": "RetrySites.lean"}


def extract_key(e):
    """the translators are deterministic functions of (their own text, lib/*.[ch]); their output is cached under that key"""
    h = hashlib.sha1()
    for f in [os.path.join(C.VERIF, "extract", e), os.path.join(C.VERIF, "extract", "c01_clang.py"), os.path.join(C.VERIF, "extract", "c01_paths.py"), os.path.join(C.VERIF, "extract", "switch_sites.py")] + \
            sorted(os.path.join(C.REPO, "lib", x) for x in os.listdir(os.path.join(C.REPO, "lib")) if x.endswith((".c", ".h"))):
        h.update(f.encode() if not f.startswith(C.REPO) else os.path.basename(f).encode())
        h.update(open(f, "rb").read())
    h.update(" ".join(C.CDEFS).encode())
    return h.hexdigest()[:20]


def start_extractors(ctx):
    xdir = os.path.join(C.CACHE, "c01x")     # one cache entry (directory) for all translator outputs
    os.makedirs(xdir, exist_ok=True)
    try:
        os.utime(xdir)
        for f in os.listdir(xdir):
            if time.time() - os.path.getmtime(os.path.join(xdir, f)) > 86400:
                os.unlink(os.path.join(xdir, f))
    except OSError:
        pass
    procs = []
    for e in EXTRACTORS:
        key = os.path.join(xdir, "%s-%s" % (e[:-3], extract_key(e)))
        out = os.path.join(C.LEAN, "HawkModel", "Gen", GEN_OUT[e])
        if os.path.exists(key) and os.environ.get("C01_NO_EXTRACT_CACHE") != "1":
            C.write_if_changed(out, open(key).read())
            os.utime(key)
            ctx.log("T: %s: table reused (sources and translator unchanged)" % e)
            continue
        procs.append((e, key, out, subprocess.Popen([sys.executable, os.path.join(C.VERIF, "extract", e)], stdout=subprocess.PIPE, stderr=subprocess.PIPE,
                                                    env=dict(os.environ, HAWK_REPO=C.REPO))))
    return procs


def finish_extractors(ctx, procs):
    """returns list of failures"""
    fails = []
    for e, key, outp, p in procs:
        try:
            out, err = p.communicate(timeout=300)
        except subprocess.TimeoutExpired:
            p.kill()
            out, err = p.communicate()
        if p.returncode != 0:
            fails.append("%s: %s" % (e, err.decode(errors="replace").strip().split("\n")[-1][:300]))
        else:
            ctx.log("T: " + out.decode(errors="replace").strip().split("\n")[0][:200])
            try:
                shutil.copyfile(outp, key + ".tmp%d" % os.getpid())
                os.replace(key + ".tmp%d" % os.getpid(), key)
            except OSError:
                pass
    return fails


def table_findings(ctx):
    """translate a failing table theorem into a concrete statement (which rows), read from the generated files"""
    notes = []
    p = os.path.join(C.LEAN, "HawkModel", "Gen")
    try:
        tags_ok = {"nil": "nil_", "flt": "flt_", "str": "str_", "mbs": "mbs_", "fun": "fun_", "map": "map_", "arr": "arr_", "rex": "rex_", "ref": "ref_"}
        for m in re.finditer(r'⟨"([^"]+)", "([^"]+)", (\d+), \.(\w+), "((?:[^"\\]|\\.)*)", "([^"]*)", \[([^\]]*)\]⟩', open(os.path.join(p, "FncDispatch.lean")).read()):
            tags = [t.strip().lstrip(".") for t in m.group(7).split(",") if t.strip()]
            bad = [t for t in tags if tags_ok.get(m.group(4)) != t]
            if bad:
                notes.append("cast-site %s:%s %s: (hawk_val_%s_t*)%s reached under tags %s" % (m.group(1), m.group(3), m.group(2), m.group(4), m.group(5), ",".join(bad)))
        for m in re.finditer(r'⟨"([^"]+)", "([^"]+)", (\d+), "(\w+)", \.(\w+), (true|false), "((?:[^"\\]|\\.)*)"⟩', open(os.path.join(p, "Loops.lean")).read()):
            if m.group(5) in ("script", "count") and m.group(6) == "false":
                notes.append("loop-site %s:%s %s: %s loop `%s` (%s) has no halt poll" % (m.group(1), m.group(3), m.group(2), m.group(4), m.group(7), m.group(5)))
        fl = open(os.path.join(p, "FlagSites.lean")).read()
        for m in re.finditer(r'⟨"([^"]+)", "([^"]+)", (\d+), \.(intSign|fltSign)⟩', fl):
            notes.append("flag-site %s:%s %s stores -1/0/1 into gbl.ignorecase, which indexes two-element arrays" % (m.group(1), m.group(3), m.group(2)))
        for m in re.finditer(r'⟨"(\w+)", (\d+), "([^"]*)", \d+, "([^"]*)", \[(.*?)\], (\d+), \[(.*?)\]⟩$', open(os.path.join(p, "StackSites.lean")).read(), re.M):
            if m.group(1) == "hawk_rtx_evalcall" and ('"!' in m.group(5) or m.group(5).count("⟨") != 1):
                notes.append("stack-site run.c:%s %s: the padding for omitted arguments is reserved under %s but pushed whenever fun->nargs > call->nargs" % (m.group(2), m.group(1), m.group(5)))
            elif m.group(3) == "":
                notes.append("stack-site run.c:%s %s: push without a preceding availability test" % (m.group(2), m.group(1)))
        for m in re.finditer(r'⟨"([^"]+)", "([^"]+)", (\d+), "((?:[^"\\]|\\.)*)", (\d+), "(\w*)", (\d+), (\d+)⟩', open(os.path.join(p, "ArgSites.lean")).read()):
            idx, sym, smin, pmin = int(m.group(5)), m.group(6), int(m.group(7)), int(m.group(8))
            if not idx < (max(smin, pmin) if sym == "" else pmin):
                notes.append("arg-site %s:%s %s: hawk_rtx_getarg(rtx, %s) but only %d argument(s) are guaranteed there (function table minimum %d, dominating count check %d)" % (
                    m.group(1), m.group(3), m.group(2), m.group(4), max(smin, pmin) if sym == "" else pmin, smin, pmin))
        for m in re.finditer(r'⟨"([^"]+)", "([^"]+)", (\d+), "((?:[^"\\]|\\.)*)", "([^"]+)", (\d+), (\d+), (\d+), (\d+), (true|false), \.(\w+), \.(\w+)⟩', open(os.path.join(p, "SwitchSites.lean")).read()):
            ok = (m.group(9) == "0" and m.group(8) == "0") or m.group(10) == "true" or m.group(12) == "error"
            if not ok and (m.group(1), m.group(2), m.group(5)) != ("run.c", "set_global", "hawk_gbl_id_t"):
                notes.append("switch-site %s:%s %s: switch (%s) over %s has no label for %s of its %s values and no default" % (
                    m.group(1), m.group(3), m.group(2), m.group(4), m.group(5), m.group(8), m.group(6)))
        openf = set(re.findall(r'\("([^"]+)", "([^"]+)"\)', open(os.path.join(C.LEAN, "HawkModel", "Props", "C01.lean")).read().split("def openSubscriptFunctions", 1)[-1].split("]", 1)[0]))
        for m in re.finditer(r'⟨"([^"]+)", "([^"]+)", (\d+), "((?:[^"\\]|\\.)*)", (\d+), "((?:[^"\\]|\\.)*)", \.(\w+), (\d+)⟩', open(os.path.join(p, "SubscriptSites.lean")).read()):
            n, cls, h = int(m.group(5)), m.group(7), int(m.group(8))
            ok = {"lit": h < n, "bool": 2 <= n, "below": h <= n, "enumT": h <= n, "open": (m.group(1), m.group(2)) in openf}[cls]
            if not ok or (cls == "enumT" and h != n):
                notes.append("subscript-site %s:%s %s: %s[%s] with %s (array length %d)" % (m.group(1), m.group(3), m.group(2), m.group(4), m.group(6),
                             {"lit": "constant index %d" % h, "below": "index only known to be below %d" % h, "enumT": "an enum index with %d values" % h,
                              "open": "an index without a recognised bound, in a function not listed in openSubscriptFunctions", "bool": "a 0/1 index"}[cls], n))
        for m in re.finditer(r'⟨"([^"]+)", "([^"]+)", (\d+), "([^"]*)", "([^"]*)", "([^"]*)", "([^"]*)", "([^"]*)", \.(\w+)⟩', open(os.path.join(p, "RetrySites.lean")).read()):
            if m.group(9) == "other" or m.group(7) != "(%s<=%s)" % (m.group(5), m.group(6)):
                notes.append("retry-site %s:%s %s: the loop retrying %s() steps `%s = %s` with give-up test `%s`: no known decreasing measure (the loop may never give up)" % (
                    m.group(1), m.group(3), m.group(2), m.group(4), m.group(5), m.group(8), m.group(7)))
    except OSError:
        pass
    return notes


def cli_family(ctx, libdir):
    """the command-line front end (bin/hawk.c) is input too: option values reach hawk_addgbl*/hawk_rtx_setgbl/FS/RS set-up
    before any script runs. Every combination below must end in a normal exit (0, or an error message and 255) —
    never a signal, a sanitizer report or a hang. Deterministic core + seeded random combinations."""
    hawk = os.path.join(ctx.scratch, "hawk.cli")
    shutil.copy2(os.path.join(libdir, "hawk"), hawk)
    names = ["OFS", "NF", "FS", "RS", "ORS", "NR", "FNR", "SUBSEP", "CONVFMT", "OFMT", "RSTART", "RLENGTH", "FILENAME", "IGNORECASE",
             "STRIPRECSPC", "STRIPSTRSPC", "NUMSTRDETECT", "ENVIRON", "ARGV", "ARGC", "x", "x", "_y1", "1x", "", "length", "BEGIN", "function",
             "getline", "sys::x", "a b", "\u00e9", "SCRIPTNAME", "OFILENAME", "substr", "x" * 300]
    values = ["", ":", "3", "-1", "0", "1e3", "abc", " ", "\\", "a(", "[", "99999999999999999999", "2.5", "\n", "x" * 70, "\u00e9"]
    progs = ["BEGIN { print 1, 2 }", "{ print $1, NF; $2 = 1; print }", "BEGIN { x[1] = 1; print length(x) }", "END { print NR, x }",
             "BEGIN { print ENVIRON[1]; print ARGV[0] }", "function f(a) { return a } BEGIN { print f(x) }"]
    cases = []
    for n in names:
        for v in (":", "3", "-1", "a("):
            cases.append((["-v", "%s=%s" % (n, v)], progs[names.index(n) % len(progs)]))
    for n in ("OFS", "NF", "x"):
        cases.append((["-v", n], progs[0]))                       # no '='
        cases.append((["-v", "%s=1" % n, "-v", "%s=2" % n], progs[3]))   # the same name twice
    for f in ("", " ", ",", "ab+", "a(", "[", "\\t", "?", "?a", "t", "\u00e9"):
        cases.append((["-F", f], progs[1]))
        cases.append((["-F", f, "-v", "FS=:"], progs[1]))
    rng = ctx.rng
    for _ in range(120 if ctx.tier == "quick" else 1500):
        opts = []
        for _ in range(rng.randrange(1, 4)):
            k = rng.random()
            if k < 0.7:
                opts += ["-v", "%s=%s" % (rng.choice(names), rng.choice(values))]
            elif k < 0.9:
                opts += ["-F", rng.choice(values)]
            else:
                opts += [rng.choice(["--numstrdetect=off", "--flexmap=on", "--tolerant=on", "--strictnaming=on", "-t", "-n"])]
        cases.append((opts, rng.choice(progs)))
    # more of the front end: script files (-f, twice, missing, empty), --, operands (files, var=value assignments, empty, "-"),
    # -c entry function, -d deparse file, -t console output, -m memory limit, -I include dirs, encodings, --modlibdirs garbage
    sdir = os.path.join(ctx.scratch, "cli")
    os.makedirs(sdir, exist_ok=True)
    files = {"p1.hawk": "BEGIN { x = 1 } { n++ } END { print n, x, y }\n", "p2.hawk": "function main(a, b) { print a, b, @argc; return 3; }\nfunction g() { return 1 }\n",
             "p3.hawk": "@include \"p2.hawk\";\nBEGIN { print g() }\n", "empty.hawk": "", "bad.hawk": "BEGIN { print 1 +", "in1.txt": "a b\nc d\n", "in2.txt": "no newline at end"}
    for fn, txt in files.items():
        with open(os.path.join(sdir, fn), "w") as f:
            f.write(txt)
    P = lambda x: os.path.join(sdir, x)    # noqa: E731
    operands = [P("in1.txt"), P("in2.txt"), P("nofile"), "", "-", "y=5", "NF=-1", "FS=a(", "=", "y=", "9=1", "y=1=2", "--", "-v", "OFS=:", "\u00e9=1", P("in1.txt") + "=x", sdir]
    extra = []
    for o in operands:
        extra.append(([], "{ print FILENAME, NR, y, $1 } END { print NR, y }", [o]))
        extra.append((["-f", P("p1.hawk")], None, [o, P("in1.txt")]))
        extra.append((["-f", P("p1.hawk"), "--"], None, [P("in1.txt"), o]))
    for fl in (["-f", P("p1.hawk"), "-f", P("p2.hawk")], ["-f", P("nofile")], ["-f", P("empty.hawk")], ["-f", P("bad.hawk")], ["-f", P("p3.hawk")], ["-f", P("p3.hawk"), "-I", sdir],
               ["-f", P("p2.hawk"), "-c", "main"], ["-f", P("p2.hawk"), "-c", "nosuch"], ["-f", P("p2.hawk"), "--call=g"], ["-f", ""], ["-f"], ["-f", sdir],
               ["-d", P("out.hawk"), "-f", P("p1.hawk")], ["-d", "/nonexistent/x", "-f", P("p2.hawk")], ["-d", "-", "-f", P("p3.hawk"), "-I", sdir], ["-t", P("con.out"), "-f", P("p1.hawk")],
               ["-t", "/nonexistent/x", "-f", P("p1.hawk")], ["-m", "1", "-f", P("p1.hawk")], ["-m", "100000", "-f", P("p1.hawk")], ["-m", "abc", "-f", P("p1.hawk")], ["-m", "-5", "-f", P("p1.hawk")],
               ["--modlibdirs=/nonexistent:\u00e9::", "-f", P("p1.hawk")], ["--modlibdirs=", "-f", P("p2.hawk")], ["--script-encoding=nosuch", "-f", P("p1.hawk")],
               ["--console-encoding=utf8", "-f", P("p1.hawk")], ["--console-encoding=", "-f", P("p1.hawk")], ["--script-encoding=utf8", "-f", P("p3.hawk"), "--includedirs=" + sdir + ":/x"],
               ["--classic", "-f", P("p2.hawk")], ["--modern", "--classic", "-f", P("p1.hawk")], ["--version"], ["-h"], ["--nosuchoption"], ["--flexmap=maybe", "-f", P("p1.hawk")],
               ["--flexmap", "-f", P("p1.hawk")], ["-F"], ["-v"], ["--"], []):
        extra.append((fl, None, [P("in1.txt"), "y=2", P("in2.txt")]))
        extra.append((fl, None, []))
    # a memory limit (-m) turns ordinary sizes into failing allocations: the back-off / retry paths of arrays, strings and format buffers
    for mem in ("1000000", "300000", "5000000"):
        for prog in ('BEGIN { x = hawk::array(); x[0] = 1; x[70000000000000] = 2; print "not reached"; }', 'BEGIN { x = hawk::array(1, 2); x[200000] = 2; x[3000000] = 3; print length(x); }',
                     'BEGIN { x = sprintf("%300000d", 1); printf @b"%200000d|\n", 7 > "/dev/null"; print "alive"; }', 'BEGIN { s = sprintf("%400000s", "a"); t = s s s s; gsub(/ /, "xy", t); print length(t); }',
                     'BEGIN { for (i = 0; i < 100000; i++) m[i] = i "x"; print length(m); }', '{ $100000 = "x"; print NF; $0 = $0 $0; }', 'BEGIN { x = hawk::array(); x[4611686018427387904] = 1; x[2305843009213693951] = 1; print 1 }'):
            extra.append((["-m", mem], prog, []))
    for prog in ('BEGIN { x = hawk::array(); x[0] = 1; x[70000000000000] = 2; print "not reached"; }', 'BEGIN { x = hawk::array(); x[1099511627776] = 2; x[36028797018963968] = 1; }'):
        extra.append(([], prog, []))
    extra.append((["-f", P("p2.hawk"), "-c", "main"], None, ["a1", "", "\u00e9", "x" * 5000]))
    extra.append((["-c", "main"], "function main(...) { return @argc }", ["1"] * 300))
    for _ in range(40 if ctx.tier == "quick" else 600):
        fl = []
        for _ in range(rng.randrange(1, 4)):
            fl += rng.choice([["-f", P(rng.choice(list(files)))], ["-c", rng.choice(["main", "g", "x", ""])], ["-d", P("o%d" % rng.randrange(3))], ["-m", rng.choice(["0", "1", "4096", "999999999999"])],
                              ["-I", rng.choice([sdir, "", "/x:" + sdir])], ["--"], ["-v", "y=%s" % rng.choice(values)], ["-F", rng.choice(values)], ["-t", P("t%d" % rng.randrange(2))]])
        extra.append((fl, rng.choice([None, progs[3]]), [rng.choice(operands) for _ in range(rng.randrange(0, 4))]))
    cases += extra
    inp = b"a,b c\n1:2:3\n\n"

    def one_cli(c):
        opts, prog = c[0], c[1]
        ops = list(c[2]) if len(c) > 2 else []
        rc, out, err = C.sh(["timeout", "-s", "KILL", "20", hawk] + opts + ([prog] if prog is not None else []) + ops, timeout=30, input_=inp, env=ENV, cwd=ctx.scratch)
        e = err.decode(errors="replace")
        bad = None
        if rc in (-9, 137):
            bad = "wedge:cli (no exit within 20 s)"
        elif "ERROR: AddressSanitizer" in e or "runtime error:" in e:      # (a refused huge allocation only prints a WARNING and returns null)
            m = re.search(r"in (\w+) ", e)
            bad = "crash:cli:" + (m.group(1) if m else "sanitizer")
        elif rc < 0 or 128 <= rc < 255:      # 255 is hawk's own error exit (after printing the error)
            bad = "crash:cli:signal rc=%d" % rc
        return c, bad, e
    from concurrent.futures import ThreadPoolExecutor
    with ThreadPoolExecutor(NCPU) as ex:
        res = list(ex.map(one_cli, cases))
    hits = {}
    for c, bad, e in res:
        if bad:
            hits.setdefault(bad, []).append((c, e))
    for sig, lst in sorted(hits.items()):
        cc, e = min(lst, key=lambda x: len(" ".join(x[0][0]) + " ".join(x[0][2] if len(x[0]) > 2 else [])))
        opts, prog = cc[0], cc[1]
        cmdline = "hawk " + " ".join("'%s'" % o for o in opts) + (" '%s'" % prog if prog is not None else "") + "".join(" '%s'" % o for o in (cc[2] if len(cc) > 2 else []))
        ctx.problem("impl", "[%s] the command-line front end fails on %d option combination(s); smallest: %s" % (sig, len(lst), cmdline),
                    "# run the sanitized CLI built from /repo (vlib.common.build_libhawk) with stdin 'a,b c\\n1:2:3\\n\\n':\n%s\n# stderr:\n%s\n" % (cmdline, e[-3000:]),
                    found_input=True, sig=sig)
    return len(cases), len({(tuple(c[0]), c[1], tuple(c[2]) if len(c) > 2 else ()) for c in cases})


def run(ctx):
    t0 = time.time()
    xprocs = start_extractors(ctx)
    proof_box = {}

    def prove_thread():
        try:
            proof_box["p"] = C.prove(ctx, "HawkModel.Props.C01", leanchecker=(ctx.tier == "thorough"))
        except Exception as e:     # noqa
            proof_box["e"] = e
    th = threading.Thread(target=prove_thread)
    libdir = C.build_libhawk(ctx)
    exe = C.cc_harness(ctx, os.path.join(C.VERIF, "harness", "crash_h.c"), link_lib=libdir)
    exfails = finish_extractors(ctx, xprocs)
    th.start()
    # keep our own copy: the shared build cache may be pruned by other checks while we run
    own = os.path.join(ctx.scratch, "crash_h.run")
    shutil.copy2(exe, own)
    exe = own

    # ---- corpus first ----
    viol = {}      # sig -> list of (case, res)
    corpus_cases = []
    cdir = os.path.join(C.VERIF, "corpus", "C01")
    if os.path.isdir(cdir):
        for fn in sorted(os.listdir(cdir)):
            c = parse_replay(os.path.join(cdir, fn))
            if c:
                c["id"] = "corpus_" + re.sub(r"\W", "_", fn)
                c["flags"] = "-"
                corpus_cases.append(c)
    classes, feats, nontriv = {}, {}, set()
    evaluations = 0
    if corpus_cases:
        res, rc, err = run_harness(exe, corpus_cases, os.path.join(ctx.scratch, "corpus"))
        for c in corpus_cases:
            r = res.get(c["id"])
            evaluations += 1
            if r is not None:
                classes[r["cls"]] = classes.get(r["cls"], 0) + 1
                if is_viol(r):
                    viol.setdefault(signature(r), []).append((c, r))
        ctx.log("corpus: %d cases" % len(corpus_cases))

    # ---- campaign ----
    per = 120
    deadline = max(time.time() + 25, t0 + 44) if ctx.tier == "quick" else t0 + 17 * 60     # a fresh tree costs a long build first: still give the campaign 25 s
    nbatch_cap = 520 if ctx.tier == "quick" else 6000
    samples, lost_total, secs = [], 0, []
    submitted = 0
    with ProcessPoolExecutor(NCPU) as ex:
        pending = set()

        def submit():
            nonlocal submitted
            seed = (ctx.seed * 1000003 + submitted * 7919) ^ 0xC01
            f = ex.submit(job, (exe, seed, per, "s%db%d" % (ctx.seed, submitted), os.path.join(ctx.scratch, "b%d" % submitted)))
            pending.add(f)
            submitted += 1
        for _ in range(NCPU):
            submit()
        while pending:
            done = next(as_completed(pending))
            pending.discard(done)
            s = done.result()
            evaluations += s["n"] - s["lost"]
            lost_total += s["lost"]
            secs.append(s["secs"])
            for k, v in s["classes"].items():
                classes[k] = classes.get(k, 0) + v
            for k, v in s["feats"].items():
                a = feats.setdefault(k, [0, 0])
                a[0] += v[0]; a[1] += v[1]
            nontriv |= s["nontriv"]
            if len(samples) < 3:
                samples.append(s["sample"].replace("\n", " ")[:200])
            for sig, c, r in s["viol"]:
                viol.setdefault(sig, []).append((c, r))
            if s["lost"]:
                ctx.log("batch lost %d results (harness rc=%s): %s" % (s["lost"], s["rc"], s["err"][-300:]))
            avg = sum(secs) / len(secs)
            # a violating tree must not cost unbounded time: every unanswered halt is waited for HARD_MS; a dozen of them is enough evidence
            if time.time() + avg * 1.3 < deadline and submitted < nbatch_cap and classes.get("WEDGE", 0) < 12:
                submit()
    ctx.log("campaign: %d programs in %d batches, classes %s, %d distinct violation signatures (%.0fs)" % (
        evaluations, submitted, dict(sorted(classes.items())), len(viol), time.time() - t0))
    if lost_total > evaluations * 0.02 + 5:
        ctx.problem("corr", "the campaign harness lost %d results (crashed or timed out outside a case)" % lost_total, "", found_input=False)

    # ---- confirm + shrink one representative per signature ----
    kf = dict(C.known_findings(ctx.id))
    order = sorted(viol.items(), key=lambda kv: (kv[0] in kf, -len(kv[1])))
    picks = []
    for sig, lst in order[:(12 if ctx.tier == "quick" else 40)]:
        lst = sorted(lst, key=lambda cr: len(cr[0]["src"]))
        picks.append((exe, sig, [cr[0] for cr in lst[:3]], os.path.join(ctx.scratch, "shr_" + re.sub(r"\W", "_", sig or "none")), 14 if ctx.tier == "quick" else 150))
    shrunk = []
    if picks:
        with ProcessPoolExecutor(min(NCPU, len(picks))) as ex:
            shrunk = list(ex.map(shrink_job, picks))
    for s in shrunk:
        sig = s["sig"]
        if not s["confirmed"]:
            # not reproducible on its own: report the original with what we have (still a found input, but flaky)
            c, r = viol[sig][0]
            if (sig or "").startswith("wedge"):
                # a wedge verdict rests on wall-clock deadlines inside a loaded batch; when the same program answers the halt
                # request in isolation (with generous deadlines) there is no failing input: keep it in the evidence only
                ctx.coverage.setdefault("unconfirmed_wedges", []).append(dict(sig=sig, occurrences=len(viol[sig]), src=c["src"][:200].decode(errors="replace")))
                ctx.log("unconfirmed %s (%d occurrence(s)): answered the halt request when run alone; not reported" % (sig, len(viol[sig])))
                continue
            ctx.problem("impl", "[%s] (not reproduced when run alone; %d occurrence(s) in the campaign) %s" % (sig, len(viol[sig]), describe(r)),
                        replay_text(c, r, "not reproduced in isolation"), found_input=True, sig=sig)
            continue
        c, r = s["case"], s["res"]
        if (sig or "").startswith("wedge") and re.search(rb'"(cat|sort)[^"]*"\s*\|\|\s*get[b]?line', c["src"]):
            # reading from a two-way pipe to a command that answers only after its input has ended blocks in read(2) by
            # construction (any awk does); the generator avoids it (RWCMDS) but byte/token mutation can produce it
            ctx.coverage.setdefault("blocking_by_construction", []).append(dict(sig=sig, src=c["src"][:200].decode(errors="replace")))
            ctx.log("not reported: %s on a read from a two-way pipe to cat/sort (blocks by construction)" % sig)
            continue
        ctx.problem("impl", "[%s] %d program(s); minimal: %r traits=%s input=%r -> %s" % (
            sig, len(viol[sig]), c["src"][:300].decode(errors="replace"), c["traits"], c["inp"][:40], describe(r)),
            replay_text(c, r, "signature %s" % sig), found_input=True, sig=sig)

    # ---- the command-line front end ----
    ncli, ncli_distinct = cli_family(ctx, libdir)
    evaluations += ncli

    # ---- correspondence of the guard models ----
    th.join()
    if "e" in proof_box:
        raise proof_box["e"]
    proof = proof_box["p"]
    ncorr, cdist, diffs, ohits = 0, {}, [], []
    try:
        ncorr, cdist, diffs, ohits = correspondence(ctx, exe)
        evaluations += ncorr
    except RuntimeError as e:
        ctx.problem("corr", "the Lean driver for the guard models could not be run: %s" % str(e)[:300], str(e), found_input=False)
    seen_sigs = {s["sig"] for s in shrunk}
    for op, prog, r, what in ohits[:6]:
        sig = signature(r) if r else "harness:no-result"
        if sig in seen_sigs:
            continue
        seen_sigs.add(sig)
        c = dict(id="v", traits="m", flags="o", src=prog.encode(), inp=b"")
        ctx.problem("impl", "[%s] guard probe `%s` -> %s" % (sig, prog, what), replay_text(c, r, "guard probe " + " ".join(map(str, op))), found_input=True, sig=sig)
    if diffs and not ohits:
        op, prog, msg = diffs[0]
        ctx.problem("corr", "guard model and interpreter differ on %d of %d probes; first: `%s`: %s  (theorems div_guards / flag_index_range / index_bounds / pow_loop_bounded are about the model)" % (
            len(diffs), ncorr, prog, msg), "# hawkdrv crash < op ; program below through harness/crash_h.c\n# op: %s\n%s\n# %s\n" % (" ".join(map(str, op)), prog, msg), found_input=False)
    elif diffs:
        ctx.log("guard-model differences (explained by the violations above): %d, first: %s: %s" % (len(diffs), diffs[0][1], diffs[0][2][:200]))

    # ---- translators / proof ----
    if exfails:
        ctx.problem("corr", "translator failed (source shape not understood): " + "; ".join(exfails), "\n".join(exfails), found_input=False)
    if (not proof["build_ok"] or proof["failed"]):
        notes = table_findings(ctx)
        if notes:
            proof["failed"] = list(proof["failed"]) + notes
            proof["detail"] = "\n".join(notes) + "\n\n" + proof.get("detail", "")

    fdist = {k: v for k, v in sorted(feats.items())}
    groups = {}
    for k, v in feats.items():
        g = k.split(":")[0]
        a = groups.setdefault(g, [0, 0, 0])
        a[0] += 1; a[1] += v[0]; a[2] += v[1]
    cov = dict(outcome_classes=classes, feature_groups={g: dict(distinct=a[0], uses=a[1], uses_in_programs_that_ran=a[2]) for g, a in sorted(groups.items())},
               features_never_run=sorted(k for k, v in feats.items() if v[1] == 0)[:40], builtins_covered=len([k for k in feats if k.startswith("fn:") and feats[k][1] > 0]),
               builtins_total=len(G.BUILTINS), guard_probes=cdist, guard_probe_differences=len(diffs), violation_signatures={k: len(v) for k, v in viol.items()},
               batches=submitted, lost_results=lost_total, cli_option_cases=ncli, cli_option_distinct=ncli_distinct, feature_uses=fdist if ctx.tier == "thorough" else "(thorough tier only)")
    return C.finish(ctx, [proof], evaluations, len(nontriv),
                    "programs = corpus + seeded batches of 120 (45%% grammar programs over every statement/operator/value type/builtin/side-effect-free module "
                    "function with mismatched argument types, 30%% templates aimed at the anchored sites with edge operands (incl. stack-pressure and failing write-back families), 25%% byte/token mutations) x 10 console "
                    "input shapes x 5 trait sets, run in-process under ASan+UBSan+asserts with a statement heartbeat and halt-then-SIGKILL watchdog; oracle = "
                    "signal / sanitizer report / abort / failure with errnum 0 or empty message / halt unanswered for %d ms; plus guard-model probes compared "
                    "with the Lean driver; plus the CLI front end run with -v/-F/option combinations (built-in, duplicate, reserved and malformed names; regex and empty separators). distinct_nontrivial = distinct (program, traits, input) that parsed and executed >= 3 statements" % HARD_MS,
                    samples, extra_cov=cov,
                    trusted=["memory safety of the unmodelled interpreter is exhibited only by the sanitizer campaign (sampling); the theorems cover the guards",
                             "translators extract/{fnc_dispatch,loops,div_sites,flag_sites,stack_sites,arg_sites,switch_sites,subscript_sites,retry_sites}.py + clang-14 AST (fail closed)",
                             "arg_index_below_arity: a builtin is never entered with fewer arguments than its function-table minimum (parse.c parse_fncall / run.c eval_fncall check the spec); facts about the count are syntactic dominators (extract/c01_paths.py)",
                             "argument spec r/R => HAWK_VAL_REF (run.c __eval_call), valtoint/valtonum results in range",
                             "pipes restricted to an allow-list, files to the scratch directory, sys::/ffi::/sed:: excluded (harness safety)"],
                    assumptions=["string lengths < 2^63", "halt requests are repeated (as a user pressing ^C again): hawk_rtx_loop clears a request made before it starts"])


def parse_replay(path):
    data = open(path, "rb").read()
    k = data.find(b"---8<--- case\n")
    if k >= 0:
        data = data[k + len(b"---8<--- case\n"):]
    m = re.search(rb"^HEXCASE (\S+) (\S+) (\S+)\s*$", data, re.M)
    if m:
        try:
            return dict(id="replay", traits=m.group(1).decode(), flags="o", src=b"" if m.group(2) == b"-" else bytes.fromhex(m.group(2).decode()),
                        inp=b"" if m.group(3) == b"-" else bytes.fromhex(m.group(3).decode()), kind="replay", feats=[])
        except ValueError:
            return None
    m = re.match(rb"CASE (\S+) (\S+) (\S+) (\d+) (\d+)\n", data)
    if not m:
        return None
    sl, il = int(m.group(4)), int(m.group(5))
    body = data[m.end():]
    src = body[:sl]
    inp = body[sl + 1:sl + 1 + il]
    return dict(id="replay", traits=m.group(2).decode(), flags="o", src=src, inp=inp, kind="replay", feats=[])


def replay(ctx, path):
    libdir = C.build_libhawk(ctx)
    exe = C.cc_harness(ctx, os.path.join(C.VERIF, "harness", "crash_h.c"), link_lib=libdir)
    c = parse_replay(path)
    if not c:
        print("not a C01 replay file (no CASE header)")
        return 2
    r = one(exe, c, os.path.join(ctx.scratch, "replay"))
    print("source:", c["src"][:2000].decode(errors="replace"))
    print("traits:", c["traits"], "input bytes:", len(c["inp"]))
    if r is None:
        print("no result from the harness")
        return 1
    print(r["line"])
    if r.get("out", "-") != "-":
        print("output:", bytes.fromhex(r["out"])[:500])
    if r.get("stderr"):
        print(r["stderr"][:3000])
    print("signature:", signature(r))
    return 1 if is_viol(r) else 0
