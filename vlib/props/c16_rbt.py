"""C16, red-black tree half (lib/rbt.c): proof on HawkModel.Rbt + correspondence with the real code.

stage(ctx, libdir) -> dict(proofs, evaluations, distinct_nontrivial, samples, dist, rule, trusted, assumptions)
registers problems with ctx.problem(...).

Ops of the line protocol (harness/rbt_h.c = lean/HawkModel/Drv/Rbt.lean): new S (S=0..3 predefined styles, 4 = user style
with key copier/freeer, value freeer, keeper, comparator) | insert/upsert/update/ensert k v | cbsert k v m (hawk_rbt_cbsert, callback
kind m: 0 re-allocate, 1 keep, 2 fail, 3 accumulate, 4 change in place) | delete k | search k | clear | walk [n] | rwalk [n] |
iter d n | zip n (two live iterators of opposite direction in lockstep, re-initialisation, restart by getfirstpair).

Three independent judges look at every line the real code prints:
  1. the C harness' own invariant flags (inv=BAD:...: black height, red-red, order, parent links,
     size, sentinel, height bound 2^((h+1)/2) <= n+1)           -> property violated by the real code
  2. a Python reference dictionary (return class of every call, walk order) -> property violated
  3. the Lean model's line (full preorder dump with colours, values, parent keys) -> correspondence
"""
import os, re, itertools, time
from .. import common as C

AREA = "rbt"
HARNESS = "rbt_h.c"
NODE_RE = re.compile(r"\(([RB])(-?\d+)=(-?\d+)\^(-|nil|-?\d+)")


# ----------------------------------------------------------------------------
# generators
# ----------------------------------------------------------------------------
def val(i, k):
    return (i * 37 + k * 11 + 5) % 256


def exhaustive_effective(nkeys, length):
    """every sequence of `length` shape-changing ops over `nkeys` keys: at each step each key has exactly
    one effective op (insert if absent, delete if present) -> nkeys^length histories"""
    blocks = []
    for n, seq in enumerate(itertools.product(range(nkeys), repeat=length)):
        present = set()
        b = ["new %d" % (n % 5)]
        for i, k in enumerate(seq):
            if k in present:
                present.discard(k); b.append("delete %d" % k)
            else:
                present.add(k); b.append("insert %d %d" % (k, val(i, k)))
        b.append("walk" if n % 2 == 0 else "rwalk")
        blocks.append(b)
    return blocks


def exhaustive_allops(nkeys, length):
    """every sequence over the full alphabet {insert,upsert,update,ensert,delete} x keys + clear"""
    alpha = []
    for k in range(nkeys):
        alpha += [("insert", k), ("upsert", k), ("update", k), ("ensert", k), ("delete", k)]
    alpha.append(("clear", None))
    blocks = []
    for n, seq in enumerate(itertools.product(alpha, repeat=length)):
        b = ["new %d" % (n % 5)]
        for i, (op, k) in enumerate(seq):
            if op == "clear":
                b.append("clear")
            elif op == "delete":
                b.append("delete %d" % k)
            else:
                b.append("%s %d %d" % (op, k, val(i + n, k)))
        b.append("iter %d %d" % (n % 2, n % 5))
        blocks.append(b)
    return blocks


def exhaustive_cbsert(nkeys, length):
    """every sequence over {insert k, delete k, cbsert k with each of the five callback kinds}"""
    alpha = []
    for k in range(nkeys):
        alpha += [("insert", k, 0), ("delete", k, 0)] + [("cbsert", k, m) for m in range(5)]
    blocks = []
    for n, seq in enumerate(itertools.product(alpha, repeat=length)):
        b = ["new %d" % (n % 5)]
        for i, (op, k, m) in enumerate(seq):
            if op == "delete":
                b.append("delete %d" % k)
            elif op == "insert":
                b.append("insert %d %d" % (k, val(i + n, k)))
            else:
                b.append("cbsert %d %d %d" % (k, val(i + n + 1, k), m))
        b.append("zip %d" % (n % 4))
        blocks.append(b)
    return blocks


def vlen_matrix():
    """every style x position of the pair in the tree (root with two children / inner / leaf) x stored length x new length
    (shorter, equal, longer; also the very same value) x way of changing the value (upsert, update, cbsert re-allocating,
    cbsert in place): the stored length and bytes are read back by the dump, the next search and both walks"""
    blocks = []
    for style in range(5):
        for target in (3, 1, 0):
            for ol in (1, 2, 3):
                for nl in (0, 1, 2, 3):          # 0 = the same value again (same pointer and length)
                    for how in ("upsert", "update", "cbsert0", "cbsert4", "cbsert3"):
                        old = 90 + (ol - 1)
                        new = old if nl == 0 else 150 + (nl - 1)
                        b = ["new %d" % style]
                        for k in (3, 1, 5, 0, 2, 4, 6):
                            b.append("insert %d %d" % (k, old if k == target else 60 + k))
                        if how.startswith("cbsert"):
                            m = int(how[-1])
                            b.append("cbsert %d %d %d" % (target, (new - old) % 256 if m == 3 else new, m))
                        else:
                            b.append("%s %d %d" % (how, target, new))
                        b += ["search %d" % target, "walk", "rwalk", "delete %d" % target, "walk"]
                        blocks.append(b)
    return blocks


def gen_churn(rng, maxops):
    """fill-up phase, mixed phase, delete-heavy tail; 8..64 keys; all entry points; lookups and walks sprinkled in"""
    nk = rng.choice([8, 8, 12, 16, 24, 32, 48, 64])
    n = rng.randrange(20, maxops)
    b = ["new %d" % rng.randrange(5)]
    ascending = rng.random() < 0.15
    for i in range(n):
        frac = i / float(n)
        pdel = 0.10 if frac < 0.3 else (0.40 if frac < 0.6 else 0.75)
        k = rng.randrange(nk)
        if ascending and frac < 0.3:
            k = int(frac / 0.3 * nk)
        v = rng.randrange(256)
        r = rng.random()
        if r < pdel:
            b.append("delete %d" % k)
        elif r < pdel + 0.05:
            b.append("upsert %d %d" % (k, v))
        elif r < pdel + 0.08:
            b.append("update %d %d" % (k, v))
        elif r < pdel + 0.11:
            b.append("ensert %d %d" % (k, v))
        elif r < pdel + 0.125:
            b.append("cbsert %d %d %d" % (k, v, rng.randrange(5)))
        elif r < pdel + 0.14:
            b.append("search %d" % k)
        elif r < pdel + 0.145:
            b.append(rng.choice(["walk", "rwalk", "walk %d" % rng.randrange(1, 9), "rwalk %d" % rng.randrange(1, 9)]))
        elif r < pdel + 0.148:
            b.append("iter %d %d" % (rng.randrange(2), rng.randrange(0, nk + 2)))
        elif r < pdel + 0.15:
            b.append("zip %d" % rng.randrange(0, nk + 2))
        elif r < pdel + 0.151:
            b.append("clear")
        else:
            b.append("insert %d %d" % (k, v))
    b.append("walk"); b.append("rwalk")
    return b


def corpus_blocks():
    out = []
    cdir = os.path.join(C.VERIF, "corpus", "C16")
    if os.path.isdir(cdir):
        for f in sorted(os.listdir(cdir)):
            if not f.startswith("rbt"):
                continue
            lines = [l.strip() for l in open(os.path.join(cdir, f)) if l.strip() and not l.startswith("#")]
            out += split_blocks(lines)
    return out


def split_blocks(lines):
    blocks, cur = [], []
    for l in lines:
        if l.startswith("new") and cur:
            blocks.append(cur); cur = []
        cur.append(l)
    if cur:
        blocks.append(cur)
    return blocks


# ----------------------------------------------------------------------------
# judge 2: the ideal dictionary in Python
# ----------------------------------------------------------------------------
def pyref_expect(block):
    """for every line of a block according to a plain dict: (expected `r=`/`w=` prefix | None = don't care,
    expected ` ev=` suffix of the user style 4 | None)"""
    d = None
    style = 0
    exp = []
    for l in block:
        w = l.split()
        op = w[0]
        ev = None
        if op == "new":
            d = {}; style = int(w[1]); exp.append(("ok", None)); continue
        if d is None:
            exp.append(("bad-op", None)); continue
        kf = vf = kp = 0          # key frees, value frees, keeper calls a user style must see
        if op in ("insert", "upsert", "update", "ensert"):
            k, v = int(w[1]), int(w[2])
            if op == "insert":
                if k in d: e = "r=EEXIST "
                else: d[k] = v; e = "r=%d:%d " % (k, v)
            elif op in ("upsert", "update"):
                if k in d:
                    if d[k] == v: kp = 1      # same pointer and length: the keeper is told, nothing is freed
                    else: vf = 1              # the old value is released
                    d[k] = v; e = "r=%d:%d " % (k, v)
                elif op == "upsert":
                    d[k] = v; e = "r=%d:%d " % (k, v)
                else:
                    e = "r=ENOENT "
            else:
                if k not in d: d[k] = v
                e = "r=%d:%d " % (k, d[k])
        elif op == "cbsert":
            k, v, m = int(w[1]), int(w[2]), int(w[3])
            if m == 2:
                e = "r=CBFAIL "
            elif k not in d:
                d[k] = v; e = "r=%d:%d " % (k, v)
            else:
                if m == 1: pass
                elif m == 3: d[k] = (d[k] + v) % 256; kf = vf = 1
                elif m == 0: d[k] = v; kf = vf = 1
                else: d[k] = v            # style 4 keeps the value pointer: changed in place, nothing released
                e = "r=%d:%d " % (k, d[k])
        elif op == "delete":
            k = int(w[1])
            if k in d: del d[k]; e = "r=0 "; kf = vf = 1
            else: e = "r=ENOENT "
        elif op == "search":
            k = int(w[1])
            exp.append(("r=%d:%d" % (k, d[k]) if k in d else "r=ENOENT", None)); continue
        elif op == "clear":
            kf = vf = len(d)
            d.clear(); e = "r=ok "
        elif op in ("walk", "rwalk"):
            ks = sorted(d, reverse=(op == "rwalk"))
            if len(w) > 1 and int(w[1]) > 0:
                ks = ks[:int(w[1])]
            exp.append(("w=" + ",".join("%d:%d" % (k, d[k]) for k in ks), None)); continue
        elif op == "zip":
            n = int(w[1])
            up = sorted(d); dn = up[::-1]
            f = lambda ks: ",".join("%d:%d" % (k, d[k]) for k in ks)
            exp.append(("w=%s|%s|%s|%s" % (f(up[:n + 1]), f(dn[:n + 1]), f(dn[:2]), f(dn[:2])), None)); continue
        elif op == "iter":
            ks = sorted(d, reverse=(w[1] == "1"))
            n = int(w[2])
            end = 1 if len(ks) <= n else 0
            ks = ks[:n + 1]
            exp.append(("w=" + ",".join("%d:%d" % (k, d[k]) for k in ks) + " end=%d" % end, None)); continue
        else:
            exp.append((None, None)); continue
        # size is part of the dictionary's answer for mutating ops
        e += "n=%d " % len(d)
        if style == 4:
            ev = " ev=K%dV%dP%d" % (kf, vf, kp)
        exp.append((e, ev))
    return exp


def judge_impl(block, cout):
    """(index, reason) of the first line where the real code itself breaks the property, else None"""
    exp = pyref_expect(block)
    for i, l in enumerate(block):
        if i >= len(cout):
            return i, "no output (crash/hang)"
        o = cout[i]
        if o == "HANG":
            return i, "call never returned (HANG)"
        if "inv=BAD" in o:
            m = re.search(r"inv=(BAD:[a-z,]*)", o)
            return i, "red-black invariant broken in the real tree: %s" % (m.group(1) if m else "BAD")
        e, ev = exp[i]
        if e is not None:
            exact = l.split()[0] in ("search", "walk", "rwalk", "iter", "zip", "new")
            if (o != e) if exact else (not o.startswith(e)):
                return i, "result differs from the ideal dictionary: got %r expected %r" % (o[:80], e)
        if ev is not None and not o.endswith(ev):
            return i, "user style callbacks (key frees, value frees, keeper calls) %r, expected %r" % (o[o.rfind(" ev="):][:40], ev)
    return None


def strip_ev(cout):
    """the model has no user callbacks: drop the ` ev=` report of style 4 before the line-by-line comparison"""
    return [o[:o.rfind(" ev=")] if " ev=K" in o else o for o in cout]


# ----------------------------------------------------------------------------
# branch statistics from the dumps (judge-independent; used for coverage only)
# ----------------------------------------------------------------------------
def parse_dump(line):
    """key -> (colour, parent, val) from a dump line"""
    i = line.find(" t=")
    if i < 0:
        return None
    return {int(k): (c, p, int(v)) for c, k, v, p in NODE_RE.findall(line[i:])}


def classify_block(block, out, dist):
    """returns the set of non-trivial tags hit by this history (from the real code's dumps)"""
    tags = set()
    prev = {}
    for l, o in zip(block, out):
        w = l.split()
        op = w[0]
        if op == "new":
            prev = {}; continue
        if op not in ("insert", "upsert", "update", "ensert", "cbsert", "delete", "clear"):
            continue
        cur = parse_dump(o)
        if cur is None:
            continue
        rc = o.split(" ", 1)[0]
        if op == "delete" and rc == "r=0":
            k = int(w[1])
            kids = {}
            for kk, (c, p, v) in prev.items():
                if p not in ("-", "nil"):
                    kids.setdefault(int(p), []).append(kk)
            ch = kids.get(k, [])
            two = len(ch) == 2
            y = k
            if two:
                # y = leftmost pair of the right subtree
                y = max(ch)
                while True:
                    ls = [x for x in kids.get(y, []) if x < y]
                    if not ls:
                        break
                    y = ls[0]
            ycol = prev[y][0]
            xnil = len(kids.get(y, [])) == 0
            cat = "del:%s:%s:%s" % ("succ" if two else "self", "yR" if ycol == "R" else "yB", "xnil" if xnil else "xred")
            # structural changes among the survivors beyond the re-parenting every unlink does
            moved = sum(1 for kk in cur if kk in prev and kk != y and prev[kk][1] not in (str(k), str(y)) and prev[kk][1] != cur[kk][1])
            recol = sum(1 for kk in cur if kk in prev and kk != y and prev[kk][0] != cur[kk][0])
            if ycol == "B" and xnil:
                tags.add("fixup-from-sentinel")
                if moved >= 1:
                    cat += ":rot"; tags.add("delete-rotation")
                elif recol >= 1:
                    cat += ":recolour"
            dist[cat] = dist.get(cat, 0) + 1
        elif op in ("insert", "upsert", "ensert", "cbsert") and len(cur) == len(prev) + 1:
            moved = sum(1 for kk in cur if kk in prev and prev[kk][1] != cur[kk][1])
            recol = sum(1 for kk in cur if kk in prev and prev[kk][0] != cur[kk][0])
            cat = "ins:" + ("rot" if moved else ("recolour" if recol else "plain"))
            if moved:
                tags.add("insert-rotation")
            dist[cat] = dist.get(cat, 0) + 1
        elif op in ("upsert", "update", "cbsert") and rc not in ("r=ENOENT", "r=EEXIST", "r=CBFAIL"):
            key = "setval" if op != "cbsert" else "cbsert-existing:kind%s" % w[3]
            dist[key] = dist.get(key, 0) + 1
        elif op == "cbsert" and rc == "r=CBFAIL":
            dist["cbsert-fail"] = dist.get("cbsert-fail", 0) + 1
        prev = cur
    return tags


# ----------------------------------------------------------------------------
# running
# ----------------------------------------------------------------------------
THEOREMS_ABOUT_MODEL = ("insert_inv, delete_inv, reachable_inv, height_bound, reachable_refines, *_spec, walk_forward/backward, "
                        "iterator_enumerates (lean/HawkModel/Props/C16.lean) speak about HawkModel/Rbt.lean")


def budget(nlines):
    return 120 + nlines // 200


def run_impl(exe, lines, wd=10):
    """the real code under ASan/UBSan with leak detection (every pair must be freed by delete/clear/close)"""
    rc, cout, cerr = C.run_harness(exe, [str(wd)], lines, timeout=budget(len(lines)), env=C.ASAN_LEAK_ENV)
    if rc != 0 and "LeakSanitizer" in cerr and ("fatal error" in cerr or "does not work" in cerr):
        # leak checking is not available in this environment (ptrace restrictions): run without it
        rc, cout, cerr = C.run_harness(exe, [str(wd)], lines, timeout=budget(len(lines)))
    status = C.classify_rc(rc, cerr)
    if "LeakSanitizer: detected memory leaks" in cerr:
        status = "LEAK"
    if cout and cout[-1] == "HANG":
        status = "HANG"
    return cout, status, cerr


def run_both(ctx, exe, lines, wd=10):
    cout, status, cerr = run_impl(exe, lines, wd)
    mout = C.run_driver(ctx, AREA, lines, timeout=budget(len(lines)))
    return cout, mout, status, cerr


def norm_block(b):
    if not b or not b[0].startswith("new"):
        b = ["new 0"] + [x for x in b if not x.startswith("new")]
    return b


def impl_verdict(exe, sub, wd=5):
    """property oracle only (no model involved): (index, reason) | None"""
    sub = norm_block(sub)
    cout, st, cerr = run_impl(exe, sub, wd)
    j = judge_impl(sub, cout)
    if st != "ok" and j is None:
        j = (max(0, len(cout) - 1), "sanitizer report / crash: " + st)
    return j


def verdict(ctx, exe, sub, wd=5):
    """(oracle hit | None, first differing line vs model | None, cout, mout, status, cerr) for one history"""
    sub = norm_block(sub)
    cout, mout, st, cerr = run_both(ctx, exe, sub, wd=wd)
    j = judge_impl(sub, cout)
    if st != "ok" and j is None:
        j = (max(0, len(cout) - 1), "sanitizer report / crash: " + st)
    return j, C.diff_streams(strip_ev(cout), mout), cout, mout, st, cerr


def replay_text(small, cout, mout, cerr):
    return ("# feed to harness/rbt_h.c (built against the repo) and to `hawkdrv rbt`\n" + "\n".join(small) +
            "\n# impl:\n" + "\n".join(cout) + "\n# model:\n" + "\n".join(mout) + "\n" + cerr[-1500:])


SHRINK_SECONDS = 45     # a violating tree must not cost much more than this, hangs included (watchdog 3 s per run)


def bounded(pred, seconds=SHRINK_SECONDS, max_hangs=6):
    """a shrinking predicate that gives up (answers 'does not fail') once the time budget or the number of
    watchdog expiries it may wait for is used up, so that ddmin stops reducing and the current candidate is kept"""
    t_end = time.time() + seconds
    hangs = [0]

    def f(sub):
        if time.time() > t_end or hangs[0] >= max_hangs:
            return False
        t0 = time.time()
        r = pred(sub)
        if time.time() - t0 > 2.5:
            hangs[0] += 1
        return r
    return f


def report_impl(ctx, exe, block):
    """(1) the property itself fails on the real code: shrink with the oracle only, confirm, report"""
    small = norm_block(C.ddmin(block, bounded(lambda sub: impl_verdict(exe, sub, wd=3) is not None), max_tests=250))
    j, d, cout, mout, st, cerr = verdict(ctx, exe, small)
    if j is None:                       # shrinking lost it: fall back to the unshrunk history
        small = norm_block(block)
        j, d, cout, mout, st, cerr = verdict(ctx, exe, small, wd=20)
    if j is None:
        return False
    i, why = j
    what = "rbt.c violates C16 on a %d-op history (status %s) at op %r: %s" % (len(small) - 1, st, small[min(i, len(small) - 1)], why)
    ctx.problem("impl", what, replay_text(small, cout, mout, cerr), found_input=True)
    return True


def report_corr(ctx, exe, block):
    """(2) only the correspondence with the Lean model breaks (the oracle is clean): no failing input"""
    def fails(sub):
        j, d, *_ = verdict(ctx, exe, sub)
        return j is None and d is not None
    small = norm_block(C.ddmin(block, bounded(fails), max_tests=250))
    j, d, cout, mout, st, cerr = verdict(ctx, exe, small)
    if d is None:
        small = norm_block(block)
        j, d, cout, mout, st, cerr = verdict(ctx, exe, small, wd=20)
    if d is None:
        return False
    what = ("rbt.c and the Lean model disagree (the real code's own invariants and dictionary answers are intact) on a %d-op history "
            "at line %d, op %r: impl %r vs model %r; %s" % (
                len(small) - 1, d + 1, small[min(d, len(small) - 1)], cout[d][:160] if d < len(cout) else "<none>",
                mout[d][:160] if d < len(mout) else "<none>", THEOREMS_ABOUT_MODEL))
    ctx.problem("corr", what, replay_text(small, cout, mout, cerr), found_input=False)
    return True


def stage(ctx, libdir):
    proof = C.prove(ctx, "HawkModel.Props.C16", leanchecker=(ctx.tier == "thorough"))
    exe = C.cc_harness(ctx, os.path.join(C.VERIF, "harness", HARNESS), link_lib=libdir)
    rng = ctx.rng
    quick = ctx.tier == "quick"
    blocks = corpus_blocks()
    ncorpus = len(blocks)
    blocks += vlen_matrix()
    blocks += exhaustive_allops(3, 3 if quick else 4)
    blocks += exhaustive_cbsert(3, 3 if quick else 4)
    blocks += exhaustive_effective(5, 6 if quick else 8)
    nexh = len(blocks) - ncorpus
    nchurn = 120 if quick else 5000
    for _ in range(nchurn):
        blocks.append(gen_churn(rng, 2000))
    nlines = sum(len(b) for b in blocks)
    ctx.log("rbt: %d histories, %d op lines (corpus %d, exhaustive %d, churn %d)" % (len(blocks), nlines, ncorpus, nexh, nchurn))
    # batches of whole histories run in parallel, each with a time budget proportional to its size
    per = max(20000, nlines // 48)
    batches, cur, n = [], [], 0
    for b in blocks:
        cur.append(b); n += len(b)
        if n >= per:
            batches.append(cur); cur, n = [], 0
    if cur:
        batches.append(cur)
    C.driver_exe(ctx)     # build once before fanning out
    # branch statistics are taken from the dumps of the leading histories of every batch (~600k lines in total)
    stat_budget = max(2000, 600000 // max(1, len(batches)))

    def run_batch(arg):
        bi, bs = arg
        ls = [l for b in bs for l in b]
        cout, mout, st, cerr = run_both(ctx, exe, ls)
        first_impl = first_corr = None
        upto = 0
        dist = {}
        nontriv = set()
        stat_left = stat_budget
        for b in bs:
            co = cout[upto:upto + len(b)]
            mo = mout[upto:upto + len(b)]
            if first_impl is None and judge_impl(b, co) is not None:
                first_impl = b
            if first_corr is None and strip_ev(co) != mo:
                first_corr = b
            if stat_left > 0:
                stat_left -= len(b)
                try:
                    tags = classify_block(b, co, dist)
                except Exception:
                    tags = set()        # statistics only: a broken dump is the oracle's business, not theirs
                if "fixup-from-sentinel" in tags and "insert-rotation" in tags:
                    nontriv.add(tuple(b))
            upto += len(b)
        for o in cout:
            if o.startswith("r="):
                k = o.split(" ", 1)[0]
                k = k if k in ("r=EEXIST", "r=ENOENT", "r=0", "r=ok", "r=CBFAIL") else "r=pair"
                dist[k] = dist.get(k, 0) + 1
        if st != "ok" and first_impl is None:
            first_impl = bs[-1] if len(cout) >= len(ls) else next((b for b in bs), None)
            # the history during which the harness died
            upto = 0
            for b in bs:
                if upto + len(b) > len(cout):
                    first_impl = b; break
                upto += len(b)
        return first_impl, first_corr, st, dist, nontriv, len(cout), len(mout)

    from concurrent.futures import ThreadPoolExecutor
    with ThreadPoolExecutor(max_workers=min(12, os.cpu_count() or 4)) as ex:
        results = list(ex.map(run_batch, list(enumerate(batches))))
    dist = {}
    for b in blocks:
        for l in b:
            o = l.split()[0]
            dist[o] = dist.get(o, 0) + 1
    nontriv = set()
    status = "ok"
    for fi, fc, st, dd, nt, nc, nm in results:
        for k, v in dd.items():
            dist[k] = dist.get(k, 0) + v
        nontriv |= nt
        if st != "ok":
            status = st
    ctx.log("rbt: impl status %s, %d batches" % (status, len(batches)))
    # (1) property oracle on the real code's own output: invariant flags, ideal dictionary, sanitizer/hang
    reported = False
    for fi, fc, st, dd, nt, nc, nm in results:
        if fi is not None:
            reported = report_impl(ctx, exe, fi)
            if reported:
                break
    if not reported and status != "ok":
        ctx.problem("impl", "rbt harness ended with %s but no single history reproduces it" % status, "(batch run)", found_input=False)
        reported = True
    # (2) correspondence with the Lean model, only if the oracle is clean on every generated case
    if not reported:
        for fi, fc, st, dd, nt, nc, nm in results:
            if fc is not None:
                if report_corr(ctx, exe, fc):
                    break
    samples = [" ; ".join(b[:9]) for b in (blocks[ncorpus:ncorpus + 1] + blocks[ncorpus + nexh - 1:ncorpus + nexh] + blocks[-1:])]
    rule = ("rbt: histories = corpus + value-length matrix (5 styles x pair position x stored length x shorter/equal/longer/same new value x "
            "upsert/update/cbsert) + every sequence over the 16-op alphabet {insert,upsert,update,ensert,delete}x3 keys+clear "
            "(length %d) + every sequence over {insert,delete,cbsert with 5 callback kinds}x3 keys (same length) + every sequence of %d "
            "shape-changing insert/delete ops over 5 keys + seeded churn histories (<=2000 ops, 8..64 keys, "
            "fill / mixed / delete-heavy tail; the four predefined styles and a user style with key copier/freeer, value freeer, keeper, comparator; "
            "keys are byte strings of 1..10 bytes, many of them prefixes of others); oracle on the real code: C-side red-black invariant flags "
            "(black height, red-red, order, parent links, size, sentinel, height bound) + a Python dict for every return value / stored value bytes and length / walk / "
            "iterator step / user-callback count; "
            "correspondence: after every mutating call the full preorder dump (colour,key,value,parent key), size and height equals the Lean model's; "
            "distinct_nontrivial = distinct histories (among the ~600k analysed lines, taken from the head of every batch) whose dumps show both an insert that rotated and a delete "
            "of a black pair whose replacing child is the sentinel (the repaired fix-up path)" % ((3 if quick else 4), (6 if quick else 8)))
    return dict(proofs=[proof], evaluations=nlines, distinct_nontrivial=len(nontriv), samples=samples, dist=dist, rule=rule,
                impl_status=status, histories=len(blocks),
                trusted=["rbt.c modelled by hand in HawkModel/Rbt.lean (pair identity / re-allocation by change_pair_val or a cbsert callback, "
                         "user copier/freeer/keeper calls, iterator protection not modelled; cbsert callbacks abstracted to Option V -> Option V); "
                         "comparator abstracted to < on Nat",
                         "patches/rbt-delete-fixup.diff: the model follows the repaired delete_pair"],
                assumptions=["no allocation failure inside hawk_rbt_* (not injected by the rbt harness)",
                             "the tree is not mutated while an iterator is live (iterator protection is compiled out)"])


def replay(ctx, path, libdir=None):
    libdir = libdir or C.build_libhawk(ctx)
    exe = C.cc_harness(ctx, os.path.join(C.VERIF, "harness", HARNESS), link_lib=libdir)
    lines = []
    for l in open(path):
        l = l.strip()
        if l.startswith("# impl:"):
            break
        if l and not l.startswith("#"):
            lines.append(l)
    j, d, cout, mout, st, cerr = verdict(ctx, exe, lines)
    for i, l in enumerate(lines):
        print("%-16s impl:  %s\n%-16s model: %s" % (l, cout[i] if i < len(cout) else "<none>", "", mout[i] if i < len(mout) else "<none>"))
    print("status:", st, "| property oracle on impl:", j[1] if j else "ok", "| model agrees:", d is None)
    return 1 if (j is not None or d is not None or st != "ok") else 0
