"""C16, red-black tree half (lib/rbt.c): proof on HawkModel.Rbt + correspondence with the real code.

stage(ctx, libdir) -> dict(proofs, evaluations, distinct_nontrivial, samples, dist, rule, trusted, assumptions)
registers problems with ctx.problem(...).

Three independent judges look at every line the real code prints:
  1. the C harness' own invariant flags (inv=BAD:...: black height, red-red, order, parent links,
     size, sentinel, height bound 2^((h+1)/2) <= n+1)           -> property violated by the real code
  2. a Python reference dictionary (return class of every call, walk order) -> property violated
  3. the Lean model's line (full preorder dump with colours, values, parent keys) -> correspondence
"""
import os, re, itertools, time
from .. import common as C

AREA = "rbt"
HARNESS = "rbt_h.c"
NODE_RE = re.compile(r"\(([RB])(-?\d+)=(-?\d+)\^(-|nil|-?\d+)")


# ----------------------------------------------------------------------------
# generators
# ----------------------------------------------------------------------------
def val(i, k):
    return (i * 37 + k * 11 + 5) % 256


def exhaustive_effective(nkeys, length):
    """every sequence of `length` shape-changing ops over `nkeys` keys: at each step each key has exactly
    one effective op (insert if absent, delete if present) -> nkeys^length histories"""
    blocks = []
    for n, seq in enumerate(itertools.product(range(nkeys), repeat=length)):
        present = set()
        b = ["new %d" % (n % 4)]
        for i, k in enumerate(seq):
            if k in present:
                present.discard(k); b.append("delete %d" % k)
            else:
                present.add(k); b.append("insert %d %d" % (k, val(i, k)))
        b.append("walk" if n % 2 == 0 else "rwalk")
        blocks.append(b)
    return blocks


def exhaustive_allops(nkeys, length):
    """every sequence over the full alphabet {insert,upsert,update,ensert,delete} x keys + clear"""
    alpha = []
    for k in range(nkeys):
        alpha += [("insert", k), ("upsert", k), ("update", k), ("ensert", k), ("delete", k)]
    alpha.append(("clear", None))
    blocks = []
    for n, seq in enumerate(itertools.product(alpha, repeat=length)):
        b = ["new %d" % (n % 4)]
        for i, (op, k) in enumerate(seq):
            if op == "clear":
                b.append("clear")
            elif op == "delete":
                b.append("delete %d" % k)
            else:
                b.append("%s %d %d" % (op, k, val(i + n, k)))
        b.append("iter %d %d" % (n % 2, n % 5))
        blocks.append(b)
    return blocks


def gen_churn(rng, maxops):
    """fill-up phase, mixed phase, delete-heavy tail; 8..64 keys; all entry points; lookups and walks sprinkled in"""
    nk = rng.choice([8, 8, 12, 16, 24, 32, 48, 64])
    n = rng.randrange(20, maxops)
    b = ["new %d" % rng.randrange(4)]
    ascending = rng.random() < 0.15
    for i in range(n):
        frac = i / float(n)
        pdel = 0.10 if frac < 0.3 else (0.40 if frac < 0.6 else 0.75)
        k = rng.randrange(nk)
        if ascending and frac < 0.3:
            k = int(frac / 0.3 * nk)
        v = rng.randrange(256)
        r = rng.random()
        if r < pdel:
            b.append("delete %d" % k)
        elif r < pdel + 0.05:
            b.append("upsert %d %d" % (k, v))
        elif r < pdel + 0.08:
            b.append("update %d %d" % (k, v))
        elif r < pdel + 0.11:
            b.append("ensert %d %d" % (k, v))
        elif r < pdel + 0.13:
            b.append("search %d" % k)
        elif r < pdel + 0.135:
            b.append(rng.choice(["walk", "rwalk", "walk %d" % rng.randrange(1, 9), "rwalk %d" % rng.randrange(1, 9)]))
        elif r < pdel + 0.14:
            b.append("iter %d %d" % (rng.randrange(2), rng.randrange(0, nk + 2)))
        elif r < pdel + 0.141:
            b.append("clear")
        else:
            b.append("insert %d %d" % (k, v))
    b.append("walk"); b.append("rwalk")
    return b


def corpus_blocks():
    out = []
    cdir = os.path.join(C.VERIF, "corpus", "C16")
    if os.path.isdir(cdir):
        for f in sorted(os.listdir(cdir)):
            if not f.startswith("rbt"):
                continue
            lines = [l.strip() for l in open(os.path.join(cdir, f)) if l.strip() and not l.startswith("#")]
            out += split_blocks(lines)
    return out


def split_blocks(lines):
    blocks, cur = [], []
    for l in lines:
        if l.startswith("new") and cur:
            blocks.append(cur); cur = []
        cur.append(l)
    if cur:
        blocks.append(cur)
    return blocks


# ----------------------------------------------------------------------------
# judge 2: the ideal dictionary in Python
# ----------------------------------------------------------------------------
def pyref_expect(block):
    """expected `r=`/`w=` prefix for every line of a block according to a plain dict; None = don't care"""
    d = None
    exp = []
    for l in block:
        w = l.split()
        op = w[0]
        if op == "new":
            d = {}; exp.append("ok"); continue
        if d is None:
            exp.append("bad-op"); continue
        if op in ("insert", "upsert", "update", "ensert"):
            k, v = int(w[1]), int(w[2])
            if op == "insert":
                if k in d: exp.append("r=EEXIST ")
                else: d[k] = v; exp.append("r=%d:%d " % (k, v))
            elif op == "upsert":
                d[k] = v; exp.append("r=%d:%d " % (k, v))
            elif op == "update":
                if k in d: d[k] = v; exp.append("r=%d:%d " % (k, v))
                else: exp.append("r=ENOENT ")
            else:
                if k not in d: d[k] = v
                exp.append("r=%d:%d " % (k, d[k]))
        elif op == "delete":
            k = int(w[1])
            if k in d: del d[k]; exp.append("r=0 ")
            else: exp.append("r=ENOENT ")
        elif op == "search":
            k = int(w[1])
            exp.append("r=%d:%d" % (k, d[k]) if k in d else "r=ENOENT")
        elif op == "clear":
            d.clear(); exp.append("r=ok n=0 ")
        elif op in ("walk", "rwalk"):
            ks = sorted(d, reverse=(op == "rwalk"))
            if len(w) > 1 and int(w[1]) > 0:
                ks = ks[:int(w[1])]
            exp.append("w=" + ",".join("%d:%d" % (k, d[k]) for k in ks))
        elif op == "iter":
            ks = sorted(d, reverse=(w[1] == "1"))
            n = int(w[2])
            end = 1 if len(ks) <= n else 0
            ks = ks[:n + 1]
            exp.append("w=" + ",".join("%d:%d" % (k, d[k]) for k in ks) + " end=%d" % end)
        else:
            exp.append(None)
        # size is part of the dictionary's answer for mutating ops
        if op in ("insert", "upsert", "update", "ensert", "delete") and exp[-1] is not None:
            exp[-1] += "n=%d " % len(d)
    return exp


def judge_impl(block, cout):
    """(index, reason) of the first line where the real code itself breaks the property, else None"""
    exp = pyref_expect(block)
    for i, l in enumerate(block):
        if i >= len(cout):
            return i, "no output (crash/hang)"
        o = cout[i]
        if o == "HANG":
            return i, "call never returned (HANG)"
        if "inv=BAD" in o:
            m = re.search(r"inv=(BAD:[a-z,]*)", o)
            return i, "red-black invariant broken in the real tree: %s" % (m.group(1) if m else "BAD")
        e = exp[i]
        if e is not None:
            exact = l.split()[0] in ("search", "walk", "rwalk", "iter", "new")
            if (o != e) if exact else (not o.startswith(e)):
                return i, "result differs from the ideal dictionary: got %r expected %r" % (o[:80], e)
    return None


# ----------------------------------------------------------------------------
# branch statistics from the dumps (judge-independent; used for coverage only)
# ----------------------------------------------------------------------------
def parse_dump(line):
    """key -> (colour, parent, val) from a dump line"""
    i = line.find(" t=")
    if i < 0:
        return None
    return {int(k): (c, p, int(v)) for c, k, v, p in NODE_RE.findall(line[i:])}


def classify_block(block, out, dist):
    """returns the set of non-trivial tags hit by this history (from the real code's dumps)"""
    tags = set()
    prev = {}
    for l, o in zip(block, out):
        w = l.split()
        op = w[0]
        if op == "new":
            prev = {}; continue
        if op not in ("insert", "upsert", "update", "ensert", "delete", "clear"):
            continue
        cur = parse_dump(o)
        if cur is None:
            continue
        rc = o.split(" ", 1)[0]
        if op == "delete" and rc == "r=0":
            k = int(w[1])
            kids = {}
            for kk, (c, p, v) in prev.items():
                if p not in ("-", "nil"):
                    kids.setdefault(int(p), []).append(kk)
            ch = kids.get(k, [])
            two = len(ch) == 2
            y = k
            if two:
                # y = leftmost pair of the right subtree
                y = max(ch)
                while True:
                    ls = [x for x in kids.get(y, []) if x < y]
                    if not ls:
                        break
                    y = ls[0]
            ycol = prev[y][0]
            xnil = len(kids.get(y, [])) == 0
            cat = "del:%s:%s:%s" % ("succ" if two else "self", "yR" if ycol == "R" else "yB", "xnil" if xnil else "xred")
            # structural changes among the survivors beyond the re-parenting every unlink does
            moved = sum(1 for kk in cur if kk in prev and kk != y and prev[kk][1] not in (str(k), str(y)) and prev[kk][1] != cur[kk][1])
            recol = sum(1 for kk in cur if kk in prev and kk != y and prev[kk][0] != cur[kk][0])
            if ycol == "B" and xnil:
                tags.add("fixup-from-sentinel")
                if moved >= 1:
                    cat += ":rot"; tags.add("delete-rotation")
                elif recol >= 1:
                    cat += ":recolour"
            dist[cat] = dist.get(cat, 0) + 1
        elif op in ("insert", "upsert", "ensert") and len(cur) == len(prev) + 1:
            moved = sum(1 for kk in cur if kk in prev and prev[kk][1] != cur[kk][1])
            recol = sum(1 for kk in cur if kk in prev and prev[kk][0] != cur[kk][0])
            cat = "ins:" + ("rot" if moved else ("recolour" if recol else "plain"))
            if moved:
                tags.add("insert-rotation")
            dist[cat] = dist.get(cat, 0) + 1
        elif op in ("upsert", "update") and rc not in ("r=ENOENT", "r=EEXIST"):
            dist["setval"] = dist.get("setval", 0) + 1
        prev = cur
    return tags


# ----------------------------------------------------------------------------
# running
# ----------------------------------------------------------------------------
THEOREMS_ABOUT_MODEL = ("insert_inv, delete_inv, reachable_inv, height_bound, reachable_refines, *_spec, walk_forward/backward, "
                        "iterator_enumerates (lean/HawkModel/Props/C16.lean) speak about HawkModel/Rbt.lean")


def budget(nlines):
    return 120 + nlines // 200


def run_impl(exe, lines, wd=20):
    """the real code under ASan/UBSan with leak detection (every pair must be freed by delete/clear/close)"""
    rc, cout, cerr = C.run_harness(exe, [str(wd)], lines, timeout=budget(len(lines)), env=C.ASAN_LEAK_ENV)
    if rc != 0 and "LeakSanitizer" in cerr and ("fatal error" in cerr or "does not work" in cerr):
        # leak checking is not available in this environment (ptrace restrictions): run without it
        rc, cout, cerr = C.run_harness(exe, [str(wd)], lines, timeout=budget(len(lines)))
    status = C.classify_rc(rc, cerr)
    if "LeakSanitizer: detected memory leaks" in cerr:
        status = "LEAK"
    if cout and cout[-1] == "HANG":
        status = "HANG"
    return cout, status, cerr


def run_both(ctx, exe, lines, wd=20):
    cout, status, cerr = run_impl(exe, lines, wd)
    mout = C.run_driver(ctx, AREA, lines, timeout=budget(len(lines)))
    return cout, mout, status, cerr


def norm_block(b):
    if not b or not b[0].startswith("new"):
        b = ["new 0"] + [x for x in b if not x.startswith("new")]
    return b


def impl_verdict(exe, sub, wd=5):
    """property oracle only (no model involved): (index, reason) | None"""
    sub = norm_block(sub)
    cout, st, cerr = run_impl(exe, sub, wd)
    j = judge_impl(sub, cout)
    if st != "ok" and j is None:
        j = (max(0, len(cout) - 1), "sanitizer report / crash: " + st)
    return j


def verdict(ctx, exe, sub, wd=5):
    """(oracle hit | None, first differing line vs model | None, cout, mout, status, cerr) for one history"""
    sub = norm_block(sub)
    cout, mout, st, cerr = run_both(ctx, exe, sub, wd=wd)
    j = judge_impl(sub, cout)
    if st != "ok" and j is None:
        j = (max(0, len(cout) - 1), "sanitizer report / crash: " + st)
    return j, C.diff_streams(cout, mout), cout, mout, st, cerr


def replay_text(small, cout, mout, cerr):
    return ("# feed to harness/rbt_h.c (built against the repo) and to `hawkdrv rbt`\n" + "\n".join(small) +
            "\n# impl:\n" + "\n".join(cout) + "\n# model:\n" + "\n".join(mout) + "\n" + cerr[-1500:])


def report_impl(ctx, exe, block):
    """(1) the property itself fails on the real code: shrink with the oracle only, confirm, report"""
    small = norm_block(C.ddmin(block, lambda sub: impl_verdict(exe, sub) is not None, max_tests=250))
    j, d, cout, mout, st, cerr = verdict(ctx, exe, small)
    if j is None:                       # shrinking lost it: fall back to the unshrunk history
        small = norm_block(block)
        j, d, cout, mout, st, cerr = verdict(ctx, exe, small, wd=20)
    if j is None:
        return False
    i, why = j
    what = "rbt.c violates C16 on a %d-op history (status %s) at op %r: %s" % (len(small) - 1, st, small[min(i, len(small) - 1)], why)
    ctx.problem("impl", what, replay_text(small, cout, mout, cerr), found_input=True)
    return True


def report_corr(ctx, exe, block):
    """(2) only the correspondence with the Lean model breaks (the oracle is clean): no failing input"""
    def fails(sub):
        j, d, *_ = verdict(ctx, exe, sub)
        return j is None and d is not None
    small = norm_block(C.ddmin(block, fails, max_tests=250))
    j, d, cout, mout, st, cerr = verdict(ctx, exe, small)
    if d is None:
        small = norm_block(block)
        j, d, cout, mout, st, cerr = verdict(ctx, exe, small, wd=20)
    if d is None:
        return False
    what = ("rbt.c and the Lean model disagree (the real code's own invariants and dictionary answers are intact) on a %d-op history "
            "at line %d, op %r: impl %r vs model %r; %s" % (
                len(small) - 1, d + 1, small[min(d, len(small) - 1)], cout[d][:160] if d < len(cout) else "<none>",
                mout[d][:160] if d < len(mout) else "<none>", THEOREMS_ABOUT_MODEL))
    ctx.problem("corr", what, replay_text(small, cout, mout, cerr), found_input=False)
    return True


def stage(ctx, libdir):
    proof = C.prove(ctx, "HawkModel.Props.C16", leanchecker=(ctx.tier == "thorough"))
    exe = C.cc_harness(ctx, os.path.join(C.VERIF, "harness", HARNESS), link_lib=libdir)
    rng = ctx.rng
    quick = ctx.tier == "quick"
    blocks = corpus_blocks()
    ncorpus = len(blocks)
    blocks += exhaustive_allops(3, 3 if quick else 4)
    blocks += exhaustive_effective(5, 6 if quick else 8)
    nexh = len(blocks) - ncorpus
    nchurn = 120 if quick else 5000
    for _ in range(nchurn):
        blocks.append(gen_churn(rng, 2000))
    nlines = sum(len(b) for b in blocks)
    ctx.log("rbt: %d histories, %d op lines (corpus %d, exhaustive %d, churn %d)" % (len(blocks), nlines, ncorpus, nexh, nchurn))
    # batches of whole histories run in parallel, each with a time budget proportional to its size
    per = max(20000, nlines // 48)
    batches, cur, n = [], [], 0
    for b in blocks:
        cur.append(b); n += len(b)
        if n >= per:
            batches.append(cur); cur, n = [], 0
    if cur:
        batches.append(cur)
    C.driver_exe(ctx)     # build once before fanning out
    # branch statistics are taken from the dumps of the leading histories of every batch (~600k lines in total)
    stat_budget = max(2000, 600000 // max(1, len(batches)))

    def run_batch(arg):
        bi, bs = arg
        ls = [l for b in bs for l in b]
        cout, mout, st, cerr = run_both(ctx, exe, ls)
        first_impl = first_corr = None
        upto = 0
        dist = {}
        nontriv = set()
        stat_left = stat_budget
        for b in bs:
            co = cout[upto:upto + len(b)]
            mo = mout[upto:upto + len(b)]
            if first_impl is None and judge_impl(b, co) is not None:
                first_impl = b
            if first_corr is None and co != mo:
                first_corr = b
            if stat_left > 0:
                stat_left -= len(b)
                tags = classify_block(b, co, dist)
                if "fixup-from-sentinel" in tags and "insert-rotation" in tags:
                    nontriv.add(tuple(b))
            upto += len(b)
        for o in cout:
            if o.startswith("r="):
                k = o.split(" ", 1)[0]
                k = k if k in ("r=EEXIST", "r=ENOENT", "r=0", "r=ok") else "r=pair"
                dist[k] = dist.get(k, 0) + 1
        if st != "ok" and first_impl is None:
            first_impl = bs[-1] if len(cout) >= len(ls) else next((b for b in bs), None)
            # the history during which the harness died
            upto = 0
            for b in bs:
                if upto + len(b) > len(cout):
                    first_impl = b; break
                upto += len(b)
        return first_impl, first_corr, st, dist, nontriv, len(cout), len(mout)

    from concurrent.futures import ThreadPoolExecutor
    with ThreadPoolExecutor(max_workers=min(12, os.cpu_count() or 4)) as ex:
        results = list(ex.map(run_batch, list(enumerate(batches))))
    dist = {}
    for b in blocks:
        for l in b:
            o = l.split()[0]
            dist[o] = dist.get(o, 0) + 1
    nontriv = set()
    status = "ok"
    for fi, fc, st, dd, nt, nc, nm in results:
        for k, v in dd.items():
            dist[k] = dist.get(k, 0) + v
        nontriv |= nt
        if st != "ok":
            status = st
    ctx.log("rbt: impl status %s, %d batches" % (status, len(batches)))
    # (1) property oracle on the real code's own output: invariant flags, ideal dictionary, sanitizer/hang
    reported = False
    for fi, fc, st, dd, nt, nc, nm in results:
        if fi is not None:
            reported = report_impl(ctx, exe, fi)
            if reported:
                break
    if not reported and status != "ok":
        ctx.problem("impl", "rbt harness ended with %s but no single history reproduces it" % status, "(batch run)", found_input=False)
        reported = True
    # (2) correspondence with the Lean model, only if the oracle is clean on every generated case
    if not reported:
        for fi, fc, st, dd, nt, nc, nm in results:
            if fc is not None:
                if report_corr(ctx, exe, fc):
                    break
    samples = [" ; ".join(b[:9]) for b in (blocks[ncorpus:ncorpus + 1] + blocks[ncorpus + nexh - 1:ncorpus + nexh] + blocks[-1:])]
    rule = ("rbt: histories = corpus + every sequence over the 16-op alphabet {insert,upsert,update,ensert,delete}x3 keys+clear "
            "(length %d) + every sequence of %d shape-changing insert/delete ops over 5 keys + seeded churn histories (<=2000 ops, 8..64 keys, "
            "fill / mixed / delete-heavy tail, all four predefined styles); oracle on the real code: C-side red-black invariant flags "
            "(black height, red-red, order, parent links, size, sentinel, height bound) + a Python dict for every return value / walk / iterator step; "
            "correspondence: after every mutating call the full preorder dump (colour,key,value,parent key), size and height equals the Lean model's; "
            "distinct_nontrivial = distinct histories (among the ~600k analysed lines, taken from the head of every batch) whose dumps show both an insert that rotated and a delete "
            "of a black pair whose replacing child is the sentinel (the repaired fix-up path)" % ((3 if quick else 4), (6 if quick else 8)))
    return dict(proofs=[proof], evaluations=nlines, distinct_nontrivial=len(nontriv), samples=samples, dist=dist, rule=rule,
                impl_status=status, histories=len(blocks),
                trusted=["rbt.c modelled by hand in HawkModel/Rbt.lean (pair identity / re-allocation by change_pair_val, custom copiers, "
                         "hawk_rbt_cbsert, iterator protection not modelled); comparator abstracted to < on Nat",
                         "patches/rbt-delete-fixup.diff: the model follows the repaired delete_pair"],
                assumptions=["no allocation failure inside hawk_rbt_* (not injected by the rbt harness)",
                             "the tree is not mutated while an iterator is live (iterator protection is compiled out)"])


def replay(ctx, path, libdir=None):
    libdir = libdir or C.build_libhawk(ctx)
    exe = C.cc_harness(ctx, os.path.join(C.VERIF, "harness", HARNESS), link_lib=libdir)
    lines = []
    for l in open(path):
        l = l.strip()
        if l.startswith("# impl:"):
            break
        if l and not l.startswith("#"):
            lines.append(l)
    j, d, cout, mout, st, cerr = verdict(ctx, exe, lines)
    for i, l in enumerate(lines):
        print("%-16s impl:  %s\n%-16s model: %s" % (l, cout[i] if i < len(cout) else "<none>", "", mout[i] if i < len(mout) else "<none>"))
    print("status:", st, "| property oracle on impl:", j[1] if j else "ok", "| model agrees:", d is None)
    return 1 if (j is not None or d is not None or st != "ok") else 0
