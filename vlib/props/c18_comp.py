"""C18, compiler half: hawk_sed_comp() (lib/sed.c, script text -> hawk_sed_cmd_t chain) against the Lean transcription
HawkModel/SedParse.lean (`parseScript` + `compile`).

  harness/sedc_h.c  dumps the command chain of the real compiler (type, addresses with the regex source, negation,
                    arguments, branch targets as indices) or the error number,
  hawkdrv sedc      prints the same dump from the model,
  hawkdrv sedt      executes the model on what the model's compiler makes of the script TEXT (compared with the run on the
                    structure the generator rendered the text from).

Oracle on the implementation alone (no model): no sanitizer report / signal; the dump does not depend on how the script
stream is chunked (1 / 7 / 1024 characters per read); every branch target is the end of the script or a NOOP command
(label or `}`) inside it."""
import os
from .. import common as C

TRAITS = ["-"] * 12 + ["a", "a", "x", "x", "y", "xy", "ax", "axy"]
RES = ["a", "b", "ab", ".", "a*", "^a", "a$", "[ab]", "[^a]", "\\(a\\)b", "a\\nb", "\\n", "é", ".*", "x\\.y", "\\t", "\\f*",
       "[/]", "[]/]", "[^]/]x", "[[:alpha:]/]", "[a\\]b]", "[[:digit:]]*", "[a[:space:]/]x", "[[]", "[[:]]", "a\\/b", "\\x41", "\\x4", "\\xg",
       "\\X00e9z", "\\X41g", "\\x26", "\\x5b", "\\\\", "\\\\n", "a\\\nb", "\\&", "\\x", "[\\n]", "[\\]]", "[a-z]\\{2\\}", "世", ""]
RPLS = ["x", "", "&", "\\&", "\\1", "\\2\\1", "a&b", "\\n", "a\\\nb", "\\t", "\\x26", "\\x41", "\\X0026", "[", "]", "\\\\", "é&", "\\/", "x\\9", "\\xg"]
TEXTS = ["X", "Y Z", "  T", "p\\q", "a\\\nb", "X\\", "", "\\ta", "é", "a;b", "a}b", "\\\\"]
FILES = ["f1", "f 2", "f3  ", "a\\nb", "x\\;y", "f\\ ", "é", "w/x"]
LABS = ["a", "b", "L1", "end", "x.y", "é"]
SIMPLE = list("qdDpPlhHgGxnN=") + ["Q", "z"]
DELIMS = list("/|,#%@:!_") + ["a", "1", " ", "é", "[", "]", "&", "."]


def enc(s):
    return "_" if s == "" else ".".join(str(ord(ch)) for ch in s)


def esc_delim(s, d):
    """escape the delimiter where it stands outside a backslash pair"""
    out, i = "", 0
    while i < len(s):
        if s[i] == "\\" and i + 1 < len(s):
            out += s[i:i + 2]; i += 2
        elif s[i] == d:
            out += "\\" + d; i += 1
        else:
            out += s[i]; i += 1
    return out


def g_addr(rng):
    k = rng.random()
    if k < 0.3:
        return rng.choice(["1", "2", "3", "10", "007", "4294967296", "18446744073709551617"] if rng.random() < 0.97 else ["0"])
    if k < 0.45:
        return "$"
    r = rng.choice(RES)
    if rng.random() < 0.7:
        s = "/" + (esc_delim(r, "/") if rng.random() < (0.5 if "[" in r else 0.9) else r) + "/"
    else:
        d = rng.choice(DELIMS)
        s = "\\" + d + (esc_delim(r, d) if rng.random() < 0.9 else r) + d
    if rng.random() < 0.15:
        s += "I"
    return s


def g_cmd(rng, depth, st):
    sp = lambda: rng.choice(["", "", "", " ", "  ", "\t"])
    pre = sp()
    if rng.random() < 0.55:
        pre += g_addr(rng)
        if rng.random() < 0.4:
            pre += sp() + "," + sp() + (g_addr(rng) if rng.random() < 0.95 else "")
        pre += sp()
    if rng.random() < 0.2:
        pre += "!" * rng.choice([1, 1, 1, 2, 3]) + sp()
    k = rng.random()
    term = lambda: sp() + rng.choice([";", "\n", "\n", " # c\n", ";;", "\n\n", "}"] if rng.random() < 0.9 else ["x", ""])
    if k < 0.22:
        return pre + rng.choice(SIMPLE) + term()
    if k < 0.34:
        c = rng.choice("aic")
        t = rng.choice(TEXTS)
        form = rng.random()
        if form < 0.6:
            return pre + c + sp() + "\\" + sp() + "\n" + t + "\n"
        if form < 0.8:
            return pre + c + sp() + "\\" + sp() + t + "\n"          # needs -x
        if form < 0.95:
            return pre + c + sp() + t + "\n"                        # needs -x
        return pre + c + "\\\n" + t                                  # text ended by the end of the script
    if k < 0.42:
        return pre + rng.choice("rRwW") + sp() + rng.choice(FILES + [""]) + rng.choice(["\n", "\n", ";", "}", " # c\n", ""])
    if k < 0.52:
        c = rng.choice("bt")
        return pre + c + sp() + rng.choice(LABS + ["", "", "nolabel"]) + term()
    if k < 0.60:
        l = rng.choice(LABS + [""])
        return sp() + ":" + sp() + l + sp() + rng.choice(["\n", "\n", ";", "", "}", "{", "p\n"])
    if k < 0.68 and depth < 4:
        n = rng.choice([0, 1, 1, 2, 3])
        return pre + "{" + sp() + rng.choice(["\n", "", ";"]) + "".join(g_cmd(rng, depth + 1, st) for _ in range(n)) + sp() + "}" + rng.choice(["\n", ";", "", " "])
    if k < 0.90:
        d = rng.choice(DELIMS[:9]) if rng.random() < 0.8 else rng.choice(DELIMS)
        r, p = rng.choice(RES), rng.choice(RPLS)
        fl = "".join(rng.sample(["g", "p", "i", "I", "k", str(rng.choice([1, 2, 3, 10, 65535, 65536, 0, 99999999999])), "2"], rng.choice([0, 0, 1, 1, 2, 3])))
        s = pre + "s" + d + (esc_delim(r, d) if rng.random() < (0.6 if "[" in r else 0.95) else r) + d + esc_delim(p, d) + d + sp() + fl
        if rng.random() < 0.15:
            return s + "w" + sp() + rng.choice(FILES) + "\n"
        return s + term()
    d = rng.choice(DELIMS[:9])
    a = rng.choice(["abc", "a", "", "a\\nb", "\\t\\\\x", "\\x41b", d + "b", "é世", "a\\" + d])
    b = rng.choice(["xyz", "x", "", "x\\ny", "\\\\\\tq", "c\\x42", "y" + d, "世é", "\\" + d + "b", "xy"])
    return pre + "y" + d + a + d + b + d + term()


def g_script(rng):
    st = {}
    n = rng.choice([1, 1, 2, 2, 3, 4, 6])
    s = rng.choice(["", "", "", "#n\n", "# comment\n", "\n ;"]) + "".join(g_cmd(rng, 0, st) for _ in range(n))
    k = rng.random()
    if k < 0.15 and s:
        s = s[:rng.randrange(len(s))]            # a prefix: end of script inside a token
    return s


def boundary_scripts():
    out = [("-", "p;" * 255 + "ba;p;:a\n" + "p\n" * 3), ("-", "p\n" * 256 + "{p;}"), ("-", "{" * 128 + "p" + "}" * 128), ("-", "{" * 129 + "p" + "}" * 129),
           ("-", "1{2{p}}"), ("-", "}"), ("-", "{p"), ("-", ":a;:a"), ("-", "ba"), ("-", "b;t"), ("a", ":"), ("-", ":;p"), ("-", "1,2:a"), ("-", "1}"),
           ("-", "$!{$!N;P;D}"), ("-", "s/a/b/w f1 ;p"), ("-", "w  f1  \n"), ("x", "a hello"), ("x", "a\\ hello"), ("xy", "$a\\\nX"), ("y", "a\\\nX"), ("-", "a\\"),
           ("-", "a\\\n"), ("a", "1,2a\\\nX\n"), ("a", "1,2=;"), ("a", "1,2q"), ("-", "/a/I,/b/Ip"), ("-", "\\,a,p"), ("-", "//p"), ("-", "//Ip"), ("-", "0p"), ("-", "0,/a/p"),
           ("-", "1,p"), ("-", "1,+2p"), ("-", "1~2p"), ("-", "s/a/b/gg2pw f"), ("-", "s/a/b/2 3"), ("-", "s/a/b/0"), ("-", "s/a/b/65536"), ("-", "s\\a\\b\\"), ("-", "y\\a\\b\\"),
           ("-", "y/abc/ab/"), ("-", "y/ab/abc/"), ("-", "y/a\\/b/xyz/"), ("-", "y/a/\\"), ("-", "s/a/\\"), ("-", "s/[/]/x/"), ("-", "s/[[:alpha:]/]/x/"), ("-", "p x"), ("-", "p}"),
           ("-", "p{p}"), ("-", "p#c"), ("-", "C"), ("-", "r"), ("-", "r a\\"), ("-", "r a\\\n"), ("-", "p;\r\n p"), ("-", "1 , 2 ! p"), ("-", "#n"), ("-", "#n\np"),
           ("-", "s/\\x26/\\x26/"), ("-", "s/\\x5cn/\\x5c/"), ("-", "s/a\\\nb/c\\\nd/"), ("-", "s/a\nb/c/"), ("-", "/a\nb/p"), ("-", "\\\np"), ("-", "\\"), ("-", "1\\"), ("-", "b a b"),
           ("-", "b a;p;: a ;p"), ("-", "ta}"), ("-", "{ta}\n:a"), ("-", ":a b"), ("-", "18446744073709551617p")]
    return out


def parse_dump(l):
    if not l.startswith("ok"):
        return None
    return [c.split(",") for c in l.split(" ")[1:]]


def model_regexes(m):
    out = set()
    for c in m.split(" ")[1:]:
        f = c.split(",")
        for a in f[2:4]:
            if a.startswith("R"):
                out.add(a.split(":", 1)[1])
        if f[0] == "115":
            out.add(f[4])
    return out


def impl_oracle(l):
    """what the English property's safety half / compiler sanity says about one dump of the real compiler"""
    cs = parse_dump(l)
    if cs is None:
        return None
    n = len(cs)
    for i, c in enumerate(cs):
        if c[0] in ("98", "116"):
            t = c[4]
            if not t.startswith("T") or not t[1:].lstrip("-").isdigit():
                return "command %d: branch target not dumped (%s)" % (i, t)
            j = int(t[1:])
            if j < 0 or j > n:
                return "command %d: branch target %d outside the script of %d commands" % (i, j, n)
            if j < n and cs[j][0] != "0":
                return "command %d: branch target %d is not a label or `}` command" % (i, j)
    return None


def run(ctx, libdir, case_results, mutate, henv):
    """returns (evaluations, stats); reports through ctx.problem"""
    rng = ctx.rng
    quick = ctx.tier == "quick"
    exe = C.cc_harness(ctx, os.path.join(C.VERIF, "harness", "sedc_h.c"), link_lib=libdir)
    pool = []
    cdir = os.path.join(C.VERIF, "corpus", "C18")
    for f in sorted(os.listdir(cdir)) if os.path.isdir(cdir) else []:
        for l in open(os.path.join(cdir, f), encoding="utf-8"):
            if l.startswith("COMPILE "):
                tr, _, sc = l[8:].rstrip("\n").partition(" ")
                pool.append((tr, "".join(chr(int(x)) for x in sc.split(".")) if sc not in ("", "_") else ""))
    pool += boundary_scripts()
    texts = [r["script"] for r in case_results]
    pool += [("-", t) for t in texts]
    nsyn = 4500 if quick else 120000
    for _ in range(nsyn):
        pool.append((rng.choice(TRAITS), g_script(rng)))
    nmut = 2000 if quick else 60000
    seeds = [t for _, t in pool if t]
    for _ in range(nmut):
        s = rng.choice(seeds)
        pool.append((rng.choice(TRAITS), mutate(rng, s.encode("utf-8")).decode("utf-8", "replace").replace("�", "?")))
    pool = [(tr, "".join(ch for ch in t if ord(ch) < 0xd800)) for tr, t in pool]
    lines = ["%s %s" % (tr, enc(t)) for tr, t in pool]
    tmo = 120 + len(lines) // 50

    def harness(chunk, ls):
        rc, out, err = C.run_harness(exe, [str(chunk)], ls, timeout=tmo, env=henv)
        return rc, out, err
    rc, out, err = harness(7, lines)
    if rc != 0 or len(out) != len(lines):
        i = min(len(out), len(lines) - 1)
        st = C.classify_rc(rc, err)
        ctx.problem("impl", "hawk_sed_comp ends with %s on the script %r (traits %s)" % (st, pool[i][1][:120], pool[i][0]),
                    "# harness/sedc_h.c, line protocol\nCOMPILE %s %s\n# stderr:\n%s\n" % (pool[i][0], enc(pool[i][1]), err[-2500:]), found_input=True)
        return len(out), dict(compile_cases=len(lines))
    evals = len(lines)
    # ---- oracle on the implementation alone -------------------------------------------------
    sub = list(range(len(lines))) if not quick else list(range(0, len(lines), 3))
    for chunk in (1, 1024):
        rc2, out2, err2 = harness(chunk, [lines[i] for i in sub])
        evals += len(sub)
        bad = [k for k, i in enumerate(sub) if k >= len(out2) or out2[k] != out[i]]
        if bad:
            i = sub[bad[0]]
            ctx.problem("impl", "hawk_sed_comp compiles the script %r differently when the script stream delivers %d characters per read than with 7: %s vs %s" % (
                pool[i][1][:120], chunk, (out2[bad[0]] if bad[0] < len(out2) else C.classify_rc(rc2, err2))[:120], out[i][:120]),
                "COMPILE %s %s\n" % (pool[i][0], enc(pool[i][1])), found_input=True)
            break
    for i, l in enumerate(out):
        why = impl_oracle(l)
        if why:
            ctx.problem("impl", "hawk_sed_comp accepted the script %r but %s" % (pool[i][1][:120], why), "COMPILE %s %s\n" % (pool[i][0], enc(pool[i][1])), found_input=True)
            break
    # ---- correspondence with the model's compiler ---------------------------------------------
    model = C.run_driver(ctx, "sedc", lines, timeout=tmo)
    stats = dict(compile_cases=len(lines), accepted=0, rejected={}, regex_rejected_by_engine=0, cut_command=0, differ=0, commands=0, types={})
    first = None
    for i, (h, m) in enumerate(zip(out, model)):
        if h.startswith("rexfail"):
            # the regex compiler (C06's business) rejected a pattern: the pattern it was handed must be one the model extracted too
            stats["regex_rejected_by_engine"] += 1
            if m.startswith("ok") and h.split(" ")[1] not in model_regexes(m):
                stats["differ"] += 1
                if first is None:
                    first = i
            continue
        if m == "err unsupported":
            stats["cut_command"] += 1
            continue
        if h.startswith("ok"):
            stats["accepted"] += 1
            for c in h.split(" ")[1:]:
                stats["commands"] += 1
                ty = c.split(",")[0]
                stats["types"][ty] = stats["types"].get(ty, 0) + 1
        else:
            stats["rejected"][h[4:]] = stats["rejected"].get(h[4:], 0) + 1
        if h != m:
            stats["differ"] += 1
            if first is None:
                first = i
    stats["types"] = dict(("noop" if k == "0" else chr(int(k)), v) for k, v in sorted(stats["types"].items(), key=lambda kv: -kv[1]))
    if first is not None and not any(p["kind"] == "impl" and p["sig"] is None for p in ctx.problems):
        tr, t = pool[first]

        def differs(chars):
            ln = ["%s %s" % (tr, enc("".join(chars)))]
            h = harness(7, ln)[1]
            m = C.run_driver(ctx, "sedc", ln, timeout=60)
            if not h or m[0] == "err unsupported":
                return False
            if h[0].startswith("rexfail"):
                return m[0].startswith("ok") and h[0].split(" ")[1] not in model_regexes(m[0])
            return h[0] != m[0]
        small = "".join(C.ddmin(list(t), differs, max_tests=200))
        if not differs(list(small)):
            small = t
        ln = ["%s %s" % (tr, enc(small))]
        h, m = harness(7, ln)[1][0], C.run_driver(ctx, "sedc", ln, timeout=60)[0]
        ctx.problem("corr", "the Lean transcription of the script compiler (HawkModel/SedParse.lean parseScript, about which parse_balanced, "
                    "compile_targets_inside, compileText_total are proved) no longer corresponds to hawk_sed_comp: script %r traits %s: real %s | model %s (%d scripts differ)" % (
                        small[:160], tr, h[:200], m[:200], stats["differ"]),
                    "COMPILE %s %s\n# real : %s\n# model: %s\n" % (tr, enc(small), h, m), found_input=False)
    return evals + len(lines), stats


def text_vs_structure(ctx, case_results, rfiles, fuel):
    """the model run on ITS OWN compilation of the script text must equal the model run on the structure the text was rendered from"""
    lines = []
    for r in case_results:
        case = r["case"]
        rf = ["%s=%s" % (enc(n), "-" if c is None else enc(c)) for n, c in rfiles.items()]
        lines.append(" ".join(["1" if case["n"] else "0", str(fuel), enc(case["input"]), "-", "/".join(enc(fr) for fr in r["frags"])] + rf))
    out = C.run_driver(ctx, "sedt", lines, timeout=300 + len(lines) // 10)
    return out


def replay_line(ctx, libdir, line, henv):
    """`COMPILE <traits> <script>`: print both dumps; returns True if the oracle or the correspondence fails"""
    exe = C.cc_harness(ctx, os.path.join(C.VERIF, "harness", "sedc_h.c"), link_lib=libdir)
    outs = {}
    for chunk in (7, 1, 1024):
        rc, out, err = C.run_harness(exe, [str(chunk)], [line], timeout=120, env=henv)
        outs[chunk] = out[0] if out else C.classify_rc(rc, err) + " " + err[-1500:]
    m = C.run_driver(ctx, "sedc", [line], timeout=60)[0]
    tr, _, sc = line.partition(" ")
    text = "".join(chr(int(x)) for x in sc.split(".")) if sc not in ("", "_") else ""
    print("script %r traits %s\n  hawk_sed_comp: %s\n  model        : %s" % (text, tr, outs[7], m))
    bad = len(set(outs.values())) != 1 or impl_oracle(outs[7]) is not None or not outs[7].startswith(("ok", "err", "rexfail"))
    if outs[7].startswith("rexfail"):
        bad = bad or (m.startswith("ok") and outs[7].split(" ")[1] not in model_regexes(m))
    elif m != "err unsupported":
        bad = bad or outs[7] != m
    if len(set(outs.values())) != 1:
        print("  chunkings differ: %s" % outs)
    return bad
