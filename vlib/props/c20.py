"""C20 - the zone allocator (lib/xma.c): proof on HawkModel.Xma + property oracle on the real code + correspondence.

Pipeline: extract constants (extract/xma_const.py -> lean/HawkModel/Gen/XmaConst.lean) -> prove -> build the sanitized
harness (harness/xma_h.c, includes the real xma.c, zone between ASan-poisoned guard bands) -> histories:
corpus, exhaustive breadth-first exploration *by heap state* of a 1 KiB zone, seeded random histories in several
profiles on zones up to 1 MiB, a few `hawk -m N` runs.
Decision (two comparisons):
 (1) property oracle evaluated on the IMPLEMENTATION's own dumps (python, independent of the Lean model) together with
     the harness' own invariant flags, its content patterns, the sanitizer, signals and hangs  -> a hit is a concrete
     failing input (shrunk, re-confirmed) -> ctx.problem("impl", found_input=True);
 (2) line-by-line correspondence with the Lean driver -> if only this breaks: ctx.problem("corr", found_input=False).
"""
import os, re, sys, time, importlib.util
from concurrent.futures import ThreadPoolExecutor
from .. import common as C
from .. import ctie

HARNESS = os.path.join(C.VERIF, "harness", "xma_h.c")
GEN = os.path.join(C.LEAN, "HawkModel", "Gen", "XmaConst.lean")
K = dict(ALIGN=16, HDR=16, MINALLOC=16, FIXED=32, NCLS=96, BITS=64)   # replaced by the extracted values in run()

BFS_SIZES = [1, 16, 17, 32, 496, 512, 513, 528]
BFS_ZONE = 1024


def load_extract():
    spec = importlib.util.spec_from_file_location("xma_const", os.path.join(C.VERIF, "extract", "xma_const.py"))
    m = importlib.util.module_from_spec(spec)
    spec.loader.exec_module(m)
    return m


# ----------------------------------------------------------------------------------------------------------------
# parsing of a dump line
# ----------------------------------------------------------------------------------------------------------------
LINE_RE = re.compile(r"^(?P<pre>(?:![A-Z]+)*)r=(?P<r>\S+)(?: z=(?P<z>\d+))?(?: blocks=(?P<db>\d+) alloc=(?P<da>\d+) avail=(?P<dv>\d+))?(?: B=(?P<B>\S*) F=(?P<F>\S*) S=(?P<S>\S+)| n=(?P<n>\d+) H=(?P<H>\d+))(?P<rest>.*)$")
BLK_RE = re.compile(r"\((\d+),(\d+),(\d+),(\d+)\)")


class Parsed:
    __slots__ = ("r", "z", "blks", "fl", "stat", "digest", "markers", "raw", "dsum")


def parse_line(o):
    m = LINE_RE.match(o)
    if not m:
        return None
    p = Parsed()
    p.raw = o
    p.r = m.group("r")
    p.z = int(m.group("z")) if m.group("z") else None
    p.dsum = (int(m.group("db")), int(m.group("da")), int(m.group("dv"))) if m.group("db") else None
    p.markers = m.group("pre") + m.group("rest")
    if m.group("B") is not None:
        b = m.group("B")
        p.blks = [tuple(int(x) for x in t) for t in BLK_RE.findall(b)]
        if BLK_RE.sub("", b):
            p.markers += " " + BLK_RE.sub("", b)
        p.fl = {}
        f = m.group("F")
        if f:
            for part in f.split(";"):
                i, body = part.split(":", 1)
                if "!" in body:
                    p.markers += " " + body
                    body = re.sub(r"![A-Z]+", "", body)
                p.fl[int(i)] = [int(x) for x in body.strip("[]").split(",") if x]
        p.stat = m.group("S")
        p.digest = None
    else:
        p.blks = None
        p.fl = None
        p.stat = None
        p.digest = (m.group("n"), m.group("H"))
    return p


def size_class(size):
    """getxfi re-derived from the header comment of xma.c: FIXED exact classes, then one per power of two, last = huge"""
    x = size // K["ALIGN"] - 1
    if x >= K["FIXED"]:
        x = (size.bit_length() - 1) - ((K["FIXED"] * K["ALIGN"]).bit_length() - 1) + K["FIXED"]
    return min(x, K["NCLS"] - 1)


class Oracle:
    """The English property evaluated on the implementation's own output for one history.
    feed(op_line, out_line) -> None | message"""

    def __init__(self):
        self.zone = None
        self.h = []          # handle -> (user offset, requested n) | None
        self.prev_state = None

    def state_key(self, p):
        return p.digest if p.blks is None else (tuple(p.blks), tuple(sorted((k, tuple(v)) for k, v in p.fl.items())))

    def feed(self, l, o):
        w = l.split()
        if w[0] == "limit":
            return None if o == "ok" else "unexpected answer to limit"
        if o == "bad-op":
            if w[0] in ("init", "initx"):
                return "init answered bad-op"
            return None if self.zone is None or (w[0] in ("realloc", "free") and int(w[1]) >= len(self.h)) else "bad-op on a valid op"
        p = parse_line(o)
        if p is None:
            return "unparsable output %r" % o[:120]
        if "!" in p.markers or "CORRUPT" in p.markers:
            return "harness flag:%s" % p.markers.strip()
        A, HDR = K["ALIGN"], K["HDR"]
        if w[0] in ("init", "initx"):
            z = int(w[1])
            self.h = []
            self.prev_state = None
            if p.r == "-1":
                self.zone = None
                if w[0] == "initx" and z >= HDR + K["MINALLOC"]:
                    return "init refused a zone of %d bytes" % z
                return None
            want = z if w[0] == "initx" else max(((z + A - 1) // A) * A, HDR + K["MINALLOC"])
            if p.z != want:
                return "zone size %s, expected %d" % (p.z, want)
            self.zone = p.z
        else:
            if self.zone is None:
                return "op answered without a zone"
            if w[0] == "dump":
                if p.r != "dump" or p.dsum is None:
                    return "dump answered %s" % p.r
                if self.prev_state is not None and self.state_key(p) != self.prev_state:
                    return "hawk_xma_dump changed the heap"
                if p.blks is not None:
                    want = (len(p.blks), sum(b[1] for b in p.blks if not b[2]), sum(b[1] for b in p.blks if b[2]))
                    if p.dsum != want:
                        return "hawk_xma_dump reports %s, the walk gives %s" % (p.dsum, want)
                return None
            n = int(w[-1]) if w[0] != "free" else None
            slot = None
            if w[0] in ("alloc", "calloc"):
                self.h.append(None)
                slot = len(self.h) - 1
                old = None
            else:
                slot = int(w[1])
                old = self.h[slot]
            if w[0] == "free":
                if old is None:
                    if p.r != "skip":
                        return "free of an empty slot answered %s" % p.r
                else:
                    if p.r != "ok":
                        return "free answered %s" % p.r
                    self.h[slot] = None
            else:
                if p.r == "NULL":
                    if self.prev_state is not None and self.state_key(p) != self.prev_state:
                        return "a call that returned NULL changed the heap"
                else:
                    try:
                        r = int(p.r)
                    except ValueError:
                        return "bad return value %s" % p.r
                    if r % A != 0:
                        return "returned pointer %d is not aligned" % r
                    if r < HDR or r + n > self.zone:
                        return "returned block [%d,%d) is not inside the zone [0,%d)" % (r, r + n, self.zone)
                    self.h[slot] = (r, n)
        # structural checks on the full dump
        self.prev_state = self.state_key(p)
        if p.blks is None:
            return None
        live = {}
        for i, e in enumerate(self.h):
            if e is not None:
                if e[0] - HDR in live:
                    return "handles %d and %d share the block at %d" % (live[e[0] - HDR][0], i, e[0] - HDR)
                live[e[0] - HDR] = (i, e[1])
        off, prevsz, prevfree = 0, 0, 0
        free_blocks = {}
        nalloc = 0
        asum = fsum = 0
        for (bo, bs, bf, bp) in p.blks:
            if bo != off:
                return "block chain does not tile the zone: block at %d, expected %d" % (bo, off)
            if bp != prevsz:
                return "prev_size of the block at %d is %d, predecessor has %d" % (bo, bp, prevsz)
            # every header at a multiple of ALIGN (all blocks but the last of the zone have aligned sizes)
            if bo % A != 0 or bs < K["MINALLOC"]:
                return "block at offset %d has size %d" % (bo, bs)
            if bf and prevfree:
                return "two adjacent free blocks at %d" % bo
            if bf:
                free_blocks[bo] = bs
                fsum += bs
                if bo in live:
                    return "live handle %d points to a free block" % live[bo][0]
            else:
                nalloc += 1
                asum += bs
                if bo not in live:
                    return "allocated block at %d belongs to no live handle (leak)" % bo
                if bs < live[bo][1]:
                    return "block at %d has %d bytes, %d were requested" % (bo, bs, live[bo][1])
            off = bo + HDR + bs
            prevsz, prevfree = bs, bf
        if off != self.zone:
            return "block chain ends at %d, zone is %d" % (off, self.zone)
        if nalloc != len(live):
            return "%d live handles but %d allocated blocks" % (len(live), nalloc)
        seen = set()
        for i, lst in p.fl.items():
            for fo in lst:
                if fo in seen:
                    return "block %d is in the free lists twice" % fo
                seen.add(fo)
                if fo not in free_blocks:
                    return "free list %d holds %d which is not a free block" % (i, fo)
                if size_class(free_blocks[fo]) != i:
                    return "free block %d of size %d sits in list %d, its class is %d" % (fo, free_blocks[fo], i, size_class(free_blocks[fo]))
        if seen != set(free_blocks):
            return "free blocks %s are in no free list" % sorted(set(free_blocks) - seen)[:4]
        if p.stat != "-" and p.stat != "%d,%d,%d,%d" % (asum, fsum, nalloc, len(free_blocks)):
            return "statistics %s differ from the walk %d,%d,%d,%d" % (p.stat, asum, fsum, nalloc, len(free_blocks))
        if not live and p.blks != [(0, self.zone - HDR, 1, 0)]:
            return "everything is freed but the zone is not one free block: %s" % p.blks[:4]
        return None


def oracle(lines, cout):
    """first (index, message) at which the implementation's output breaks the property, or None"""
    orc = Oracle()
    for i, l in enumerate(lines):
        if i >= len(cout):
            return (i, "no output for this op (crash, sanitizer abort or hang)")
        msg = orc.feed(l, cout[i])
        if msg:
            return (i, msg)
    if len(cout) > len(lines):
        return (len(lines) - 1, "trailing output: %s" % " | ".join(cout[len(lines):])[:200])
    return None


# ----------------------------------------------------------------------------------------------------------------
# generators
# ----------------------------------------------------------------------------------------------------------------
def boundary_sizes(rng, zone):
    """request sizes around every class boundary that fits the zone"""
    r = rng.random()
    if r < 0.30:
        k = rng.randrange(1, 36)
        return max(0, k * 16 + rng.choice([-1, 0, 1]))
    if r < 0.50:
        return 512 + rng.choice([-17, -16, -15, -1, 0, 1, 15, 16, 17, 32])
    if r < 0.80:
        j = rng.randrange(4, max(5, zone.bit_length()))
        return max(0, (1 << j) + rng.choice([-17, -16, -15, -1, 0, 1, 15, 16, 17]))
    if r < 0.97:
        return rng.randrange(0, max(2, zone // rng.choice([1, 2, 4, 16, 64])))
    return max(0, rng.choice([0, (1 << 64) - 1, (1 << 64) - 15, (1 << 64) - 16, (1 << 64) - 17, 1 << 63, (1 << 63) - 1, (1 << 62) + 5, zone, zone - 16, zone - 32]))


PROFILES = {
    #            alloc realloc free   max live
    "balanced": (0.40, 0.25, 0.35, 120),
    "freeheavy": (0.38, 0.12, 0.50, 60),
    "reallocheavy": (0.25, 0.55, 0.20, 40),
    "fill": (0.60, 0.15, 0.25, 400),
}


def gen_random(rng, n, zone, profile, external):
    pa, pr, pf, maxlive = PROFILES[profile]
    lines = [("initx %d" if external else "init %d") % zone]
    live = []
    nh = 0
    for _ in range(n):
        k = rng.random()
        if len(live) >= maxlive:
            k = 0.99
        if rng.random() < 0.01:
            lines.append("dump")
        elif k < pa or not live:
            lines.append(("calloc %d" if rng.random() < 0.12 else "alloc %d") % boundary_sizes(rng, zone)); live.append(nh); nh += 1
        elif k < pa + pr:
            h = rng.choice(live) if rng.random() < 0.95 else rng.randrange(nh)
            lines.append("realloc %d %d" % (h, boundary_sizes(rng, zone)))
            if h not in live:
                live.append(h)
        else:
            if rng.random() < 0.97:
                h = live.pop(rng.randrange(len(live)))
            else:
                h = rng.randrange(nh)
                if h in live:
                    live.remove(h)
            lines.append("free %d" % h)
    # drain: everything freed at the end -> the zone must be one block again
    if rng.random() < 0.7:
        rng.shuffle(live)
        for h in live:
            lines.append("free %d" % h)
    return lines


def tail_history(z):
    """external zone of z bytes: fill it up to the tail, grow/shrink the last block, drain, take the zone whole"""
    ls = ["initx %d" % z]
    n = 0
    step = 112 if z >= 512 else 16
    for _ in range(z // (step + 16) + 2):
        ls.append("alloc %d" % step); n += 1
    last = max(0, z // (step + 16) - 1)
    ls += ["realloc %d %d" % (last, step + 1), "realloc %d %d" % (last, step + 40), "calloc 1", "dump"]
    n += 1
    for h in reversed(range(n)):
        ls.append("free %d" % h)
    whole = max(0, z - 16)
    ls += ["alloc %d" % whole, "alloc %d" % ((whole // 16) * 16), "realloc %d %d" % (n + 1, 16), "realloc %d %d" % (n + 1, whole),
           "calloc %d" % 16, "free %d" % (n + 1), "free %d" % (n + 2), "free %d" % n]
    return ls


def run_c(exe, lines):
    rc, cout, cerr = C.run_harness(exe, [], lines, timeout=60 + len(lines) // 200)
    return cout, C.classify_rc(rc, cerr), cerr


def run_m(ctx, lines):
    return C.run_driver(ctx, "xma", lines, timeout=120 + len(lines) // 100)


def bfs_explore(ctx, exe, depth, cap, init="init %d" % BFS_ZONE):
    """breadth-first exploration by heap state of a 1 KiB zone: every op applicable in every distinct state reached so far.
    States are identified by the implementation's own dump (block walk + free lists); the handle table is carried along.
    Returns the list of histories executed (each one `init` + ops)."""
    frontier = [([], {})]        # (ops, {handle: True})
    seen = set()
    hists = []
    stats = []
    for d in range(1, depth + 1):
        cands = []
        for ops, live in frontier:
            nh = sum(1 for o in ops if o.split()[0] in ("alloc", "calloc"))
            sizes = BFS_SIZES if d <= 3 else ([1, 17, 496, 512, 513] if d % 2 else [16, 32, 496, 512, 528])
            for s in sizes:
                nl0 = dict(live); nl0[nh] = True
                cands.append((ops + [("calloc %d" if (s + d) % 5 == 0 else "alloc %d") % s], nl0))
            for h in sorted(live):
                nl = dict(live); del nl[h]
                cands.append((ops + ["free %d" % h], nl))
                for s in sizes:
                    cands.append((ops + ["realloc %d %d" % (h, s)], live))
        if len(cands) > cap:
            cands = ctx.rng.sample(cands, cap)
        lines = []
        for ops, _ in cands:
            lines.append(init); lines.extend(ops)
        cout, st, cerr = run_c(exe, lines)
        hists.extend([[init] + ops for ops, _ in cands])
        if st != "ok" or len(cout) != len(lines):
            break   # the caller's batch run will find and report it
        nxt = []
        pos = 0
        for ops, live in cands:
            pos += 1 + len(ops)
            last = cout[pos - 1]
            key = last[last.find(" B="):]
            if key in seen:
                continue
            seen.add(key)
            # handles whose alloc/realloc-from-empty failed are not live: recompute from the outputs
            nl = {}
            outs = cout[pos - len(ops):pos]
            hcount = 0
            for o, co in zip(ops, outs):
                w = o.split()
                ok = not co.startswith("r=NULL")
                if w[0] in ("alloc", "calloc"):
                    if ok:
                        nl[hcount] = True
                    hcount += 1
                elif w[0] == "free":
                    nl.pop(int(w[1]), None)
                elif w[0] == "realloc" and ok:
                    nl[int(w[1])] = True
            nxt.append((ops, nl))
        stats.append((d, len(cands), len(nxt)))
        frontier = nxt
    return hists, stats, len(seen)


def xma_dump_check(text, m):
    """the [XMA DUMP] that `hawk -D -m N` prints after closing the interpreter: the blocks must tile the zone of N bytes
    (rounded up to ALIGN) and - when nothing is allocated any more - be one single block"""
    if m <= 0:
        return None
    i = text.rfind("[XMA DUMP]")
    if i < 0:
        return "no dump printed"
    blocks, asum, fsum, total = [], None, None, None
    for l in text[i:].split("\n"):
        mm = re.match(r"^ (\d+)\s+(\d)\s+0x", l)
        if mm:
            blocks.append((int(mm.group(1)), int(mm.group(2))))
        mm = re.match(r"^Allocated blocks:\s+(\d+)", l)
        if mm:
            asum = int(mm.group(1))
        mm = re.match(r"^Available blocks:\s+(\d+)", l)
        if mm:
            fsum = int(mm.group(1))
        mm = re.match(r"^total = (\d+)", l)
        if mm:
            total = int(mm.group(1))
    A, HDR = K["ALIGN"], K["HDR"]
    zone = max(((m + A - 1) // A) * A, HDR + K["MINALLOC"])
    if total is not None and total != zone:
        return "total %d, zone is %d" % (total, zone)
    if asum != sum(b[0] for b in blocks if not b[1]) or fsum != sum(b[0] for b in blocks if b[1]):
        return "sums %s/%s differ from the block lines" % (asum, fsum)
    if sum(b[0] + HDR for b in blocks) != zone:
        return "blocks cover %d bytes, zone is %d" % (sum(b[0] + HDR for b in blocks), zone)
    if any(blocks[k][1] and blocks[k + 1][1] for k in range(len(blocks) - 1)):
        return "two adjacent free blocks"
    if asum == 0 and len(blocks) != 1:
        return "nothing allocated but %d blocks" % len(blocks)
    return None


def hawk_smoke(ctx, libdir):
    """language level: `hawk -m N` must end in a result or an out-of-memory error, never in a crash / sanitizer report"""
    hawk = os.path.join(libdir, "hawk")
    progs = [
        'BEGIN { for (i = 0; i < 2000; i++) a[i] = sprintf("%0100d", i); n = 0; for (k in a) n++; print n; }',
        'BEGIN { s = "x"; for (i = 0; i < 18; i++) s = s s; print length(s); }',
        'BEGIN { for (i = 0; i < 300; i++) { a[i % 7] = a[i % 7] "abcdefghij"; if (i % 3 == 0) delete a[(i + 1) % 7]; } print length(a[0]); }',
        'BEGIN { x = hawk::array(); for (i = 1; i < 500; i++) x[i] = i; print length(x); }',
        'function f(n) { return n <= 0 ? "" : f(n - 1) "ab"; } BEGIN { print length(f(200)); }',
    ]
    sizes = [0, 1, 4096, 20000, 65536, 131072, 300000, 1 << 20, 1 << 22, 1 << 24] if ctx.tier == "quick" else \
            [0, 1, 31, 32, 33, 1000, 4096, 10000, 20000, 40000, 65536, 100000, 131072, 200000, 300000, 500000, 1 << 20, 3 << 20, 1 << 22, 1 << 24]
    evals = 0
    outcomes = {}
    for p in progs:
        for m in sizes:
            rc, out, err = C.sh(["timeout", "-s", "KILL", "30", hawk, "-D", "-m", str(m), p], timeout=40, env=C.ASAN_ENV)
            evals += 1
            err = err.decode(errors="replace")
            msg = xma_dump_check(out.decode(errors="replace") + "\n" + err, m)
            if msg:
                ctx.problem("impl", "hawk -D -m %d: the final hawk_xma_dump is inconsistent: %s" % (m, msg),
                            "# run: hawk -D -m %d '<prog>'\n%s\n%s" % (m, p, (out.decode(errors="replace") + err)[-3000:]), found_input=True)
                return evals, outcomes
            st = C.classify_rc(rc, err)
            if rc in (-9, 137):
                st = "HANG"
            kind = "result" if rc == 0 else ("error" if st.startswith("EXIT") else st)
            outcomes[kind] = outcomes.get(kind, 0) + 1
            if kind not in ("result", "error"):
                ctx.problem("impl", "hawk -m %d ended with %s instead of a result or an out-of-memory error" % (m, st),
                            "# run: hawk -m %d '<prog>'\n%s\n%s" % (m, p, err[-2000:]), found_input=True)
                return evals, outcomes
    # the stream editor takes the same -m path (bin/sed.c)
    sed = os.path.join(libdir, "hawk-sed")
    text = ("".join("line %d aaa bbb ccc\n" % i for i in range(400))).encode()
    for script in ["s/a/xy/g", "N;N;s/\\n/+/g;p", "G;h"]:
        for m in ([1, 20000, 200000, 1 << 22] if ctx.tier == "quick" else [1, 32, 5000, 20000, 60000, 200000, 1 << 20, 1 << 22]):
            rc, out, err = C.sh(["timeout", "-s", "KILL", "30", sed, "-m", str(m), script], timeout=40, env=C.ASAN_ENV, input_=text)
            evals += 1
            err = err.decode(errors="replace")
            st = C.classify_rc(rc, err)
            if rc in (-9, 137):
                st = "HANG"
            kind = "sed-result" if rc == 0 else ("sed-error" if st.startswith("EXIT") else st)
            outcomes[kind] = outcomes.get(kind, 0) + 1
            if kind not in ("sed-result", "sed-error"):
                ctx.problem("impl", "hawk-sed -m %d ended with %s instead of a result or an out-of-memory error" % (m, st),
                            "# run: hawk-sed -m %d '%s' < 400 lines\n%s" % (m, script, err[-2000:]), found_input=True)
                return evals, outcomes
    return evals, outcomes


# ----------------------------------------------------------------------------------------------------------------
def build(ctx):
    libdir = C.build_libhawk(ctx)
    exe = C.cc_harness(ctx, HARNESS, link_lib=libdir)
    return libdir, exe


def translate(ctx):
    global K
    ex = load_extract()
    txt, vals = ex.generate(C.REPO)
    changed = C.write_if_changed(GEN, txt)
    K = dict(ALIGN=vals["ALIGN"], HDR=vals["HDR"], MINALLOC=vals["MINALLOC"], FIXED=vals["FIXED"], NCLS=vals["NCLS"], BITS=vals["BITS"])
    if changed:
        ctx.log("extract: lean/HawkModel/Gen/XmaConst.lean regenerated: %r" % vals)
    return vals


def classify_branches(lines, cout):
    """measured branch profile from the implementation's dumps (block count deltas, pointer moves)"""
    prof = {}
    prev_n = None
    ptr = {}
    nh = 0
    for l, o in zip(lines, cout):
        ws = l.split()
        w = ws[0]
        m = re.search(r" n=(\d+) H=", o)
        n = int(m.group(1)) if m else o.count("(")
        if w in ("init", "initx"):
            prev_n = n
            ptr, nh = {}, 0
            continue
        if prev_n is None or o == "bad-op":
            continue
        null = "r=NULL" in o[:16]
        r = o.split(" ", 1)[0]
        d = n - prev_n
        if w == "dump":
            k = "dump"
        elif w in ("alloc", "calloc"):
            k = w + ":NULL" if null else (w + ":split" if d == 1 else w + ":whole")
            if not null:
                ptr[nh] = r
            nh += 1
        elif w == "free":
            k = "free:skip" if o.startswith("r=skip") else {0: "free:plain", -1: "free:merge1", -2: "free:merge2"}.get(d, "free:?")
            ptr.pop(int(ws[1]), None)
        elif w == "realloc":
            h = int(ws[1])
            if null:
                k = "realloc:NULL"
            elif h not in ptr:
                k = "realloc:as-alloc"
            elif ptr[h] == r:
                k = "realloc:inplace:" + {0: "same-or-whole-grow", 1: "shrink-split", -1: "grow-whole"}.get(d, "d%+d" % d)
                if d == 0:
                    k = "realloc:inplace:blocks+0"
            else:
                k = "realloc:moved"
            if not null:
                ptr[h] = r
        else:
            k = w
        prof[k] = prof.get(k, 0) + 1
        prev_n = n
    return prof


def run(ctx):
    try:
        vals = translate(ctx)
    except Exception as e:
        ctx.problem("corr", "translator extract/xma_const.py failed on this tree: %s" % str(e)[:400], str(e), found_input=False)
        return C.finish(ctx, [], 1, 0, "translator failed", ["translator failure"], extra_cov=dict(obligations=1, discharged=0))
    proof = C.prove(ctx, "HawkModel.Props.C20", leanchecker=(ctx.tier == "thorough"))
    tie = ctie.tie(ctx, "C20", leanchecker=(ctx.tier == "thorough"))   # szlog2/getxfi/rounding of xma.c: translated C = model
    libdir, exe = build(ctx)
    rng = ctx.rng
    quick = ctx.tier == "quick"
    C.driver_exe(ctx)

    # ---- histories
    hists = []
    cdir = os.path.join(C.VERIF, "corpus", "C20")
    if os.path.isdir(cdir):
        for f in sorted(os.listdir(cdir)):
            ls = [l.strip() for l in open(os.path.join(cdir, f)) if l.strip() and not l.startswith("#")]
            if ls:
                hists.append(ls)
    ncorpus = len(hists)
    t = time.time()
    bh, bstats, nstates = bfs_explore(ctx, exe, 7 if quick else 10, 15000 if quick else 150000)
    ctx.log("bfs: levels (depth, executed, new states) = %s, %d distinct heap states, %.1fs" % (bstats, nstates, time.time() - t))
    hists += bh
    # the same exploration on a caller-supplied zone whose size is not a multiple of ALIGN (residue drawn per run)
    t = time.time()
    xz = 992 + rng.randrange(1, 16)
    bh2, bstats2, nstates2 = bfs_explore(ctx, exe, 5 if quick else 8, 6000 if quick else 100000, init="initx %d" % xz)
    ctx.log("bfs (external zone of %d bytes): levels = %s, %d distinct heap states, %.1fs" % (xz, bstats2, nstates2, time.time() - t))
    hists += bh2
    bstats = bstats + [("initx %d" % xz,)] + bstats2
    nstates += nstates2
    # caller-supplied zones of every residue mod ALIGN, driven to the last byte of the zone
    for base in (32, 48, 1008, 4096):
        for r in range(16):
            hists.append(tail_history(base + r))
    nrand = 60 if quick else 700
    zones = [1024, 4096, 5000, 65536, 1 << 20, 100, 48, 32, 16, 0, 4112, 1 << 16]
    for i in range(nrand):
        zone = rng.choice(zones)
        ext = rng.random() < 0.5
        if ext and rng.random() < 0.6:
            zone += rng.randrange(16)
        prof = rng.choice(list(PROFILES))
        n = rng.randrange(20, 400) if rng.random() < 0.8 else rng.randrange(1000, 3000 if quick else 5000)
        h = gen_random(rng, n, zone, prof, ext)
        hists.append(["limit 64"] + h if n >= 1000 else ["limit 0"] + h)

    # ---- batches (whole histories), run in parallel
    batches, cur, n = [], [], 0
    for h in hists:
        cur.append(h); n += len(h)
        if n >= 20000:
            batches.append(cur); cur, n = [], 0
    if cur:
        batches.append(cur)

    def run_batch(bs):
        ls = [l for b in bs for l in b]
        cout, st, cerr = run_c(exe, ls)
        mout = run_m(ctx, ls)
        return bs, ls, cout, mout, st, cerr, oracle(ls, cout), C.diff_streams(cout, mout)
    with ThreadPoolExecutor(max_workers=8) as ex:
        results = list(ex.map(run_batch, batches))
    evaluations = sum(len(r[1]) for r in results)
    dist, prof = {}, {}
    for bs, ls, cout, mout, st, cerr, orc, d in results:
        for l in ls:
            k = l.split()[0]
            dist[k] = dist.get(k, 0) + 1
        for k, v in classify_branches(ls, cout).items():
            prof[k] = prof.get(k, 0) + v

    def locate(bs, idx):
        upto = 0
        for b in bs:
            if upto <= idx < upto + len(b):
                return b
            upto += len(b)
        return bs[-1]

    def norm(sub, head):
        sub = [x for x in sub if x.split()[0] not in ("init", "initx", "limit")]
        return head + sub

    def one(h):
        cout, st, cerr = run_c(exe, h)
        return cout, st, cerr, oracle(h, cout)

    status = "ok"
    # (1) the property on the implementation
    for bs, ls, cout, mout, st, cerr, orc, d in results:
        if orc is None and st == "ok":
            continue
        status = st
        bad = locate(bs, orc[0] if orc else max(0, len(cout) - 1))
        co, st2, ce, o2 = one(bad)
        if o2 is None and st2 == "ok":
            for b in bs:
                co, st2, ce, o2 = one(b)
                if o2 is not None or st2 != "ok":
                    bad = b; break
        if o2 is None and st2 == "ok":
            ctx.problem("corr", "a batch failed (%s, %s) but no single history of it reproduces the failure" % (st, orc),
                        "\n".join(ls)[:200000], found_input=False)
            break
        head = [x for x in bad if x.split()[0] in ("init", "initx")][:1]

        def fails_prop(sub):
            c2, s2, e2, r2 = one(norm(sub, head))
            return s2 != "ok" or r2 is not None
        small = norm(C.ddmin(bad, fails_prop, max_tests=200), head)
        co, st2, ce, o2 = one(small)
        if o2 is None and st2 == "ok":
            small = bad
            co, st2, ce, o2 = one(small)
        mo = run_m(ctx, small)
        k = o2[0] if o2 else max(0, len(co) - 1)
        what = "xma.c breaks the property on a %d-op history (status %s): %s" % (
            len(small) - 1, st2, ("op %r: %s" % (small[min(k, len(small) - 1)], o2[1])) if o2 else "sanitizer/signal")
        asan = ""
        m = re.search(r"ERROR: AddressSanitizer[^\n]*\n(?:[^\n]*\n){0,6}", ce)
        if m:
            asan = m.group(0)
            what += " :: " + " ".join(asan.split("\n")[:4])[:300]
        ctx.problem("impl", what, "# feed to harness/xma_h.c (built against the checked tree) and to `hawkdrv xma`\n" + "\n".join(small) +
                    "\n# impl:\n" + "\n".join(co) + "\n# model:\n" + "\n".join(mo) + "\n# stderr:\n" + ce[-2500:], found_input=True)
        break
    # (2) correspondence with the Lean model
    if not ctx.problems:
        for bs, ls, cout, mout, st, cerr, orc, d in results:
            if d is None:
                continue
            bad = locate(bs, d)
            head = [x for x in bad if x.split()[0] in ("init", "initx")][:1]

            def fails_corr(sub):
                h = norm(sub, head)
                c2, s2, e2 = run_c(exe, h)
                return C.diff_streams(c2, run_m(ctx, h)) is not None
            small = norm(C.ddmin(bad, fails_corr, max_tests=200), head)
            co, st2, ce = run_c(exe, small)
            mo = run_m(ctx, small)
            dd = C.diff_streams(co, mo)
            if dd is None:
                small = bad
                co, st2, ce = run_c(exe, small)
                mo = run_m(ctx, small)
                dd = C.diff_streams(co, mo) or 0
            what = ("correspondence broken: xma.c and HawkModel.Xma differ on a %d-op history although the implementation satisfies the "
                    "property oracle on all %d generated ops: op %r: impl %r vs model %r (the theorems of Props/C20 speak about the model)") % (
                len(small) - 1, evaluations, small[min(dd, len(small) - 1)], (co[dd] if dd < len(co) else "<no output>")[:300],
                (mo[dd] if dd < len(mo) else "<none>")[:300])
            ctx.problem("corr", what, "# correspondence HawkModel.Xma <-> lib/xma.c no longer holds; first differing line: %d\n" % dd + "\n".join(small) +
                        "\n# impl:\n" + "\n".join(co) + "\n# model:\n" + "\n".join(mo) + "\n", found_input=False)
            break
    smoke_n, smoke = (0, {})
    if not ctx.problems:
        smoke_n, smoke = hawk_smoke(ctx, libdir)
        evaluations += smoke_n
    # distinct non-trivial histories: judged on the implementation's own dumps
    nontriv = 0
    seen = set()
    for bs, ls, cout, mout, st, cerr, orc, d in results:
        pos = 0
        for b in bs:
            co = cout[pos:pos + len(b)]
            pos += len(b)
            pr = classify_branches(b, co)
            if (pr.get("alloc:split") or pr.get("calloc:split")) and (pr.get("free:merge1") or pr.get("free:merge2")) and any(k.startswith("realloc:inplace") or k == "realloc:moved" for k in pr):
                t = tuple(b)
                if t not in seen:
                    seen.add(t); nontriv += 1
    samples = [" ; ".join(h[:10]) for h in (hists[ncorpus:ncorpus + 1] + hists[len(bh) // 2:len(bh) // 2 + 1] + hists[-2:])]
    return C.finish(ctx, [proof] + tie, evaluations, nontriv,
                    "histories = corpus + breadth-first exploration by heap state of a 1 KiB zone (sizes {1,16,17,32,496,512,513,528}; every alloc/free/realloc applicable "
                    "in every distinct state, depth 7 quick / 10 thorough, at most 15000 / 150000 executed ops per level) + seeded random histories (balanced, free-heavy, realloc-heavy, fill profiles; zones 0 B..1 MiB, "
                    "internal and external; sizes k*16+-1, 512+-16, 2^j+-16, near 2^64) + `hawk -m N` runs; every op: (1) python property oracle + harness invariant flags + content patterns + ASan "
                    "guard bands on the real code, (2) full dump (return value, block walk, free lists, statistics) compared with the Lean driver; distinct_nontrivial = distinct histories in which the "
                    "implementation performed a split, a merging free and a successful realloc",
                    samples,
                    extra_cov=dict(op_distribution=dist, branch_profile=prof, histories=len(hists), bfs_levels=[list(x) for x in bstats], bfs_states=nstates,
                                   impl_status=status, constants=vals, hawk_m_outcomes=smoke),
                    trusted=[ctie.TRUSTED % "C20", "xma.c modelled by hand in HawkModel/Xma.lean (block chain as a list; next/prev block = list neighbours; free_prev/free_next links as list order; "
                             "statistics counters not modelled but compared with values derived from the model chain)",
                             "constants ALIGN/HDR/MINALLOC/FIXED/NCLS/BITS extracted by extract/xma_const.py from the checked tree",
                             "payload bytes are modelled per block; bytes of free blocks and header bytes are not modelled (guard bands + patterns on the C side)"],
                    assumptions=["zone and request sizes are machine words; zone < 2^63 (HAWK_XMA_SIZE_BITS)",
                                 "an externally supplied zone starts at an ALIGN-aligned address (its size is arbitrary)",
                                 "callers pass only pointers of live blocks to realloc/free (anything else is undefined in C; Err.badptr in the model)"])


def replay(ctx, path):
    translate(ctx)
    libdir, exe = build(ctx)
    lines = []
    for l in open(path):
        l = l.strip()
        if l.startswith("# impl:"):
            break
        if l and not l.startswith("#"):
            lines.append(l)
    cout, st, cerr = run_c(exe, lines)
    mout = run_m(ctx, lines)
    orc = oracle(lines, cout)
    for i, l in enumerate(lines):
        print("%-24s impl: %-70s model: %s" % (l, (cout[i] if i < len(cout) else "<none>")[:200], (mout[i] if i < len(mout) else "<none>")[:200]))
    print("status:", st, "oracle:", orc)
    if st != "ok":
        print(cerr[-1500:])
    return 1 if (orc is not None or st != "ok" or C.diff_streams(cout, mout) is not None) else 0
