"""C15 — text passes through unchanged (lib/utf8.c, lib/utl.c conversion loops, lib/tio.c staging, byte-string paths).

translate (utf8_table[] -> Lean) -> prove HawkModel.Props.C15 -> build sanitized libhawk + harness ->
 (a) codec level: every BMP value and malformed sequences, exact-size heap buffers, C vs Lean driver line by line
 (b) tio level: scripted chunked input / recorded output with internal cursor/length/status dumps vs the model
 (c) language level: sanitized CLI on files holding every BMP scalar, byte-string programs, ill-formed input.

Decision (two comparisons):
 1. property oracle on the implementation's own output, independent of the Lean model: python's UTF-8 codec as the
    reference for well-formed BMP text (encode/decode/identity/length), byte identity for byte paths, "same bytes under two
    schedules give the same characters" for well- and ill-formed streams, bounds (counts never exceed the size given),
    determinism (every decode is run twice), sanitizer report / signal / hang.  A hit is a concrete failing input.
 2. line-by-line correspondence with the compiled Lean model.  If only this breaks, the theorems no longer speak about
    the code: reported without a failing input.
"""
import os, sys, time, subprocess, threading
from concurrent.futures import ThreadPoolExecutor
from .. import common as C

sys.path.insert(0, C.VERIF)

SIG_OVERLAP = "tio-shift-overlap"
SIG_OOB = "tio-illseq-oob"
SIG_WBCSTR = "tio-writebcstr-full"
SIG_U16_SMALL = "utf16-small-buffer"
SIG_U16_INCOMPLETE = "utf16-incomplete"


def u8(c):
    """UTF-8 of one BMP value exactly as a generator of *inputs* (surrogates included, 3 bytes); never used as the oracle"""
    return chr(c).encode("utf-8", "surrogatepass")


BOUNDARY = [0, 1, 9, 0x0A, 0x0D, 0x20, 0x3F, 0x7E, 0x7F, 0x80, 0x81, 0xBF, 0xC0, 0xFF, 0x100, 0x7FE, 0x7FF, 0x800, 0x801, 0xFFF,
            0x1000, 0x2028, 0x20AC, 0xAC00, 0xD7FF, 0xD800, 0xDBFF, 0xDC00, 0xDFFF, 0xE000, 0xFEFF, 0xFFFD, 0xFFFE, 0xFFFF]


# ----------------------------------------------------------------------------
# generators (harness level)
# ----------------------------------------------------------------------------
def cm_of_flags(flags):
    return "utf16" if "U" in flags else "mb8" if "M" in flags else "utf8"


def enc_cm(cm, c):
    """reference encoding of one character under a character manager, None when the manager does not carry it"""
    c &= 0xFFFF
    if cm == "utf8":
        return u8(c)
    if cm == "mb8":
        return bytes([c]) if c < 256 else None
    return None if 0xD800 <= c <= 0xDFFF else bytes([c & 0xFF, c >> 8])   # utf16, host (little endian) order


def ref_decode_cm(cm, data):
    """code points of a well-formed string under the manager, else None"""
    if cm == "utf8":
        return ref_decode(data)
    if cm == "mb8":
        return list(data)
    if len(data) % 2:
        return None
    cps = [data[i] | (data[i + 1] << 8) for i in range(0, len(data), 2)]
    return None if any(0xD800 <= c <= 0xDFFF for c in cps) else cps


def dom_char(rng, cm):
    while True:
        c = rand_char(rng)
        if cm == "mb8":
            c = rng.choice([c & 0xFF, rng.randrange(256), 0x0A, 0x41])
        if enc_cm(cm, c) is not None:
            return c


def gen_cmgr(ctx):
    """the other two built-in character managers (utf16.c, mb8.c), the selection by name and the wrappers of utl-cmgr.c, the
    null-terminated conversions, the duplicating converters of gem.c and the value constructors / converters of val.c"""
    rng = ctx.rng
    quick = ctx.tier == "quick"
    L = []
    for c in range(0x10000):
        L.append("cenc utf16 %x 2" % c)
        L.append("cdec utf16 %02x%02x" % (c & 0xFF, c >> 8))
        if c % (7 if quick else 1) == 0:
            L.append("cenc utf16 %x %d" % (c, c % 2))                # too small a buffer (0 or 1 byte)
            L.append("cdec utf16 %02x%02x%02x" % (c & 0xFF, c >> 8, c % 251))
    for b in range(256):
        L += ["cenc mb8 %x 1" % b, "cenc mb8 %x 0" % b, "cenc mb8 %x 6" % b, "cdec mb8 %02x" % b, "cdec mb8 %02x41" % b, "cdec utf16 %02x" % b,
              "cenc mb8 %x 1" % (256 + b * 255), "cenc mb8 %x 0" % (256 + b)]
    for nm in ["utf8", "utf16", "mb8", "UTF8", "Utf16", "MB8", "utf", "utf88", "utf-8", "-", "mb", "utf16le", "latin1", "8", "utf8 "]:
        L.append("cname %s" % nm.replace(" ", "_"))
    n = 500 if quick else 15000
    for _ in range(n):
        cm = rng.choice(["utf8", "utf16", "mb8"])
        cs = [dom_char(rng, cm) for _ in range(rng.randrange(0, 10))]
        data = b"".join(enc_cm(cm, c) for c in cs)
        if rng.random() < 0.3:
            # ill-formed: cut, or a stray piece
            k = rng.randrange(0, len(data) + 1)
            data = data[:k] + rng.choice([b"", b"\xff", b"\x00\xd8", b"\xe2\x82", b"\x80"]) + (data[k + 1:] if rng.random() < 0.5 else data[k:])
        hx = data.hex() or "-"
        tot = len(data)
        L.append("cbtou %s %d %s" % (cm, rng.choice([0, 1, len(cs), len(cs) + 1, rng.randrange(0, len(cs) + 3)]), hx))
        L.append("cbtous %s %d %s" % (cm, rng.choice([0, 1, len(cs), len(cs) + 1, len(cs) + 2]), hx))
        L.append("dupb %s %d %s" % (cm, rng.randrange(2), hx))
        L.append("v2u %s %s" % (cm, hx))
        if cm == "utf8":
            L.append("vstr %s" % hx)
        ws = list(cs)
        if rng.random() < 0.2 and cm != "utf8":
            ws.insert(rng.randrange(0, len(ws) + 1), rng.choice([0x100, 0x20AC, 0xFFFF]) if cm == "mb8" else rng.choice([0xD800, 0xDBFF, 0xDC00, 0xDFFF]))
        wx = ",".join("%x" % c for c in ws) or "-"
        L.append("cutob %s %d %s" % (cm, rng.choice([0, 1, 2, tot, max(0, tot - 1), tot + 1, rng.randrange(0, tot + 3)]), wx))
        L.append("cutobs %s %d %s" % (cm, rng.choice([0, 1, tot, tot + 1, tot + 2]), wx))
        L.append("dupu %s %s" % (cm, wx))
        L.append("v2b %s %s" % (cm, wx))
        if cm == "utf8":
            L.append("vmbs %s" % wx)
    # tio with the utf16 / mb8 manager: every two-chunk split (odd boundaries included), random chunkings, writes from odd offsets
    seeds = {"U": [[0x41, 0x20AC, 0x0A], [0x0A, 0xAC00, 0x0A, 0x61], [0xFFFF, 0, 0x0A0A, 0x0A], [0x3F, 0xE9]],
             "M": [[0x41, 0xE9, 0x0A], [0x0A, 0xFF, 0x00, 0x0A], [0x80, 0x3F]]}
    for fl, lst in seeds.items():
        cm = cm_of_flags(fl)
        for cs in lst:
            data = b"".join(enc_cm(cm, c) for c in cs)
            for cut in range(0, len(data) + 1):
                chs = [c for c in (data[:cut], data[cut:]) if c]
                for size in (1, 2, 64):
                    L.append("tior 32 i%s %d %s" % (fl, size, fmt_chunks(chs)))
                L.append("tior 32 %s 4 %s" % (fl, fmt_chunks(chs)))
            L.append("tior 32 i%s 5 %s" % (fl, fmt_chunks([data[i:i + 1] for i in range(len(data))])))
            L.append("tior 32 i%s 5 %s" % (fl, fmt_chunks([data + b"\x41"])))       # an odd byte at the end of input
    for _ in range(150 if quick else 6000):
        fl = rng.choice(["U", "M"]); cm = cm_of_flags(fl)
        cs = [dom_char(rng, cm) for _ in range(rng.randrange(0, 50))]
        data = b"".join(enc_cm(cm, c) for c in cs)
        capa = rng.choice([32, 33, 64]); size = rng.choice([1, 2, 3, 8, 31, 32, 33, 2048])
        L.append("tior %d i%s %d %s" % (capa, fl, size, fmt_chunks(chunkings(rng, data, rng.choice(["one", "bytes", "rand", "rand"])))))
        L.append("tior %d i%s %d %s" % (rng.choice([32, 35]), fl, rng.choice([1, 7, 64]), fmt_chunks(chunkings(rng, data, "rand"))))
        segs = [[dom_char(rng, cm) for _ in range(rng.choice([0, 1, 15, 16, 17, 40]))] for _ in range(rng.randrange(1, 4))]
        ops = []
        for sg in segs:
            if rng.random() < 0.4:
                ops.append("b:" + bytes(rng.randrange(256) for _ in range(rng.choice([1, 1, 3, 31]))).hex())   # makes the offset odd
            ops.append("u:" + (",".join("%x" % c for c in sg) or "-"))
        ops += rng.choice([[], ["F"], ["F", "F"]])
        L.append("tiox %d i%s %s %s" % (rng.choice([32, 33, 34]), fl, rand_script(rng, 32), "/".join(ops)))
    return L


def gen_codec(ctx):
    rng = ctx.rng
    L = []
    for c in range(0x10000):
        b = u8(c)
        L.append("enc %x 6" % c)
        L.append("dec " + b.hex())
        for k in range(1, len(b)):
            L.append("dec " + b[:k].hex())          # truncated
        if len(b) > 1:
            L.append("enc %x %d" % (c, len(b) - 1))  # buffer one byte too small
            L.append("enc %x %d" % (c, len(b)))      # exact
    for c in BOUNDARY:
        for size in range(0, 5):
            L.append("enc %x %d" % (c, size))
        for t in (0x00, 0x41, 0x80, 0xBF, 0xC2, 0xE2, 0xFF):
            L.append("dec " + (u8(c) + bytes([t])).hex())
    for a in range(256):
        L.append("dec %02x" % a)
    for a in range(256):
        for b in range(256):
            L.append("dec %02x%02x" % (a, b))
    third = [0x00, 0x41, 0x7F, 0x80, 0x9F, 0xA0, 0xBF, 0xC0, 0xFF]
    for a in range(0xE0, 0x100):
        for b in range(256):
            for c in third:
                L.append("dec %02x%02x%02x" % (a, b, c))
    # overlong, 4/5/6-byte forms, 0xFE/0xFF, stray continuation bytes
    special = ["c080", "c1bf", "e08080", "e09fbf", "f0808080", "f08fbfbf", "f0908080", "f48fbfbf", "f4908080", "f7bfbfbf",
               "f090", "f09080", "f8888080", "f888808080", "fc8480808080", "fc84808080", "fe", "ff", "fe8080808080", "ff80",
               "80", "bf", "8080", "80e282ac", "eda080", "edbfbf", "efbfbe", "efbfbf", "e282", "e2", "c2", "e28241", "e241ac", "c241"]
    for s in special:
        L.append("dec " + s)
        L.append("dec " + s + "41")
    n = 3000 if ctx.tier == "quick" else 600000
    for _ in range(n):
        k = rng.choice([3, 4, 4, 5, 6, 7])
        lead = rng.choice([rng.randrange(0xC0, 0x100), rng.randrange(0xE0, 0x100), rng.randrange(0xF0, 0x100), rng.randrange(256)])
        rest = [rng.choice([rng.randrange(0x80, 0xC0), rng.randrange(0x80, 0xC0), rng.randrange(256)]) for _ in range(k - 1)]
        L.append("dec " + bytes([lead] + rest).hex())
    return L


MAL = [b"\x80", b"\xbf", b"\xc0\x80", b"\xc1\xbf", b"\xe0\x80\x80", b"\xe2\x82", b"\xe2", b"\xc2", b"\xf0\x90\x80\x80", b"\xf0\x90\x80",
       b"\xf4\x90\x80\x80", b"\xf8\x88\x80\x80\x80", b"\xfc\x84\x80\x80\x80\x80", b"\xfe", b"\xff", b"\xed\xa0\x80", b"\xe2\x41", b"\xe2\x82\x41"]


def rand_char(rng):
    k = rng.random()
    if k < 0.35:
        return rng.choice([0x41, 0x61, 0x20, 0x3F, 0x7F, 0, rng.randrange(0x80)])
    if k < 0.45:
        return 0x0A
    if k < 0.65:
        return rng.choice([0x80, 0x7FF, 0xE9, rng.randrange(0x80, 0x800)])
    if k < 0.95:
        return rng.choice([0x800, 0xFFFF, 0x20AC, 0xD800, 0xDFFF, 0xAC00, rng.randrange(0x800, 0x10000)])
    return rng.choice(BOUNDARY)


def rand_stream(rng, n, mal_rate):
    """list of pieces (bytes); a piece is one well-formed character or one malformed fragment"""
    out = []
    for _ in range(n):
        if rng.random() < mal_rate:
            out.append(rng.choice(MAL + [bytes([rng.randrange(0x80, 0x100)])]))
        else:
            out.append(u8(rand_char(rng)))
    return out


def chunkings(rng, data, how):
    if how == "one" or len(data) < 2:
        return [data] if data else []
    if how == "bytes":
        return [data[i:i + 1] for i in range(len(data))]
    cuts = sorted(set(rng.randrange(1, len(data)) for _ in range(rng.randrange(1, max(2, min(12, len(data)))))))
    res, p = [], 0
    for c in cuts + [len(data)]:
        res.append(data[p:c]); p = c
    return res


def fmt_chunks(chs):
    return "/".join(c.hex() if c else "-" for c in chs) if chs else "."


def gen_conv(ctx):
    rng = ctx.rng
    L = []
    n = 1500 if ctx.tier == "quick" else 40000
    for _ in range(n):
        s = b"".join(rand_stream(rng, rng.randrange(0, 12), rng.choice([0, 0, 0.15, 0.5])))
        nch = len(s)
        L.append("upto %d %s" % (rng.choice([0, 1, 2, 3, nch, nch + 1, rng.randrange(0, nch + 2)]), s.hex() or "-"))
        L.append("btou %d %d %s" % (rng.randrange(2), rng.choice([0, 1, 2, nch, nch + 1, rng.randrange(0, nch + 2)]), s.hex() or "-"))
        cs = [rand_char(rng) for _ in range(rng.randrange(0, 10))]
        tot = sum(len(u8(c)) for c in cs)
        L.append("utob %d %s" % (rng.choice([0, 1, 2, tot, max(0, tot - 1), tot + 1, rng.randrange(0, tot + 2)]), ",".join("%x" % c for c in cs) or "-"))
    return L


def gen_tio(ctx):
    rng = ctx.rng
    L = []
    quick = ctx.tier == "quick"
    # 1. exhaustive two-chunk splits of short well-formed and ill-formed streams
    seeds = [b"\n\xe2\x82\xac\n", b"a\xc3\xa9\xe2\x82\xacb\n", b"\xe2\x82\xac\xe2\x82\xac", b"\n\n\xed\xa0\x80\xef\xbf\xbfz", b"ab\xff\xe2\x82", b"\xe2\x82\x41\xc2",
             b"\xc0\x80\xe0\x80\x80\n", b"a\xf0\x90\x80\x80b", b"\xe2\x82\xac" * 3 + b"\n", b"x\n\xc3"]
    for s in seeds:
        for cut in range(0, len(s) + 1):
            chs = [c for c in (s[:cut], s[cut:]) if c]
            for size in (1, 2, 3, 64):
                L.append("tior 32 i %d %s" % (size, fmt_chunks(chs)))
            L.append("tior 32 - 4 %s" % fmt_chunks(chs))
        L.append("tior 32 i 5 %s" % fmt_chunks([s[i:i + 1] for i in range(len(s))]))
        L.append("tiob 32 3 %s" % fmt_chunks([s[:2], s[2:]]))
    # 2. a multibyte character at every offset straddling the staging-buffer size, file-like (one big chunk) and chunked
    for capa in ([32, 33, 64] if quick else [32, 33, 47, 64, 100, 255, 256]):
        for ch in (0xE9, 0x20AC, 0xFFFF, 0x7FF, 0xD800):
            b = u8(ch)
            for d in range(capa - 4, capa + 2):
                for tail in (b"", b"z\n", b"\n"):
                    s = b"a" * d + b + tail
                    for size in (capa, capa + 1, 7, 2048):
                        L.append("tior %d i %d %s" % (capa, size, fmt_chunks([s])))
                    s2 = b"a" * (d - 1) + b"\n" + b + tail
                    L.append("tior %d i %d %s" % (capa, capa, fmt_chunks([s2])))
                    L.append("tior %d i %d %s" % (capa, capa, fmt_chunks([s2[:d + 1], s2[d + 1:]])))
    # 3. the sio/rio sizes: 2048-byte staging buffer, 2048-character reads
    nedge = 40 if quick else 600
    for _ in range(nedge):
        ch = rng.choice([0xE9, 0x20AC, 0xFFFF, 0x800, 0x80, 0xDFFF])
        d = rng.choice([2044, 2045, 2046, 2047, 2048, 2049, 4093, 4094, 4095, 4096, 4097])
        pre = bytearray(b"a" * d)
        for _ in range(rng.randrange(0, 4)):
            pre[rng.randrange(len(pre))] = 0x0A
        k = rng.random()
        if k < 0.3:
            # characters before the edge make "characters stored" and "bytes consumed" drift apart
            m = rng.randrange(1, 5)
            pre = bytearray(u8(0xE9) * m) + pre[:len(pre) - 2 * m]
        s = bytes(pre) + u8(ch) + rng.choice([b"", b"zz\n", b"\n", b"\xff", b"\xffzz\n", b"\xe2\x82"])
        how = rng.choice(["one", "one", "rand"])
        L.append("tior 2048 i 2048 %s" % fmt_chunks(chunkings(rng, s, how)))
    for m in (1, 2, 3):
        # an illegal byte right after exactly `size` characters were stored (the caller's buffer is full)
        s = u8(0xE9) * m + b"a" * (2048 - m) + b"\xff" + b"zz\n"
        L.append("tior 2048 i 2048 %s" % fmt_chunks([s]))
    # 4. random streams x chunkings x sizes
    n = 900 if quick else 30000
    for i in range(n):
        mal = rng.choice([0, 0, 0, 0.05, 0.3])
        pieces = rand_stream(rng, rng.randrange(0, 60), mal)
        s = b"".join(pieces)
        how = rng.choice(["one", "bytes", "rand", "rand", "rand"])
        capa = rng.choice([32, 32, 33, 40, 64])
        size = rng.choice([1, 2, 3, 4, 5, 8, 16, 31, 32, 33, 64, 2048])
        flags = rng.choice(["i", "i", "i", "-"])
        L.append("tior %d %s %d %s" % (capa, flags, size, fmt_chunks(chunkings(rng, s, how))))
        # the same bytes under another schedule (chunking, capacity, read size): the oracle wants the same characters
        L.append("tior %d %s %d %s" % (rng.choice([32, 33, 64]), flags, rng.choice([1, 3, 7, 64]), fmt_chunks(chunkings(rng, s, rng.choice(["one", "bytes", "rand"])))))
        if i % 4 == 0:
            L.append("tiob %d %d %s" % (capa, size, fmt_chunks(chunkings(rng, s, how))))
    # 5. write side
    n = 300 if quick else 10000
    for _ in range(n):
        capa = rng.choice([32, 33, 34, 35, 48])
        segs = []
        for _ in range(rng.randrange(1, 6)):
            k = rng.random()
            if k < 0.3:
                # fill up to around the capacity edge, then a multibyte character
                seg = [0x61] * rng.randrange(capa - 4, capa + 2) + [rng.choice([0xE9, 0x20AC, 0xFFFF])] + [rng.choice([0x62, 0x0A])]
            else:
                seg = [rand_char(rng) for _ in range(rng.randrange(0, 45))]
            segs.append(seg)
        flags = rng.choice(["i", "i", "in", "-"])
        L.append("tiow %d %s %s" % (capa, flags, "/".join(",".join("%x" % c for c in sg) or "-" for sg in segs)))
        bsegs = [bytes(rng.randrange(256) if rng.random() < 0.8 else 0x0A for _ in range(rng.choice([0, 1, 5, capa - 1, capa, capa + 1, 2 * capa, rng.randrange(0, 100)])))
                 for _ in range(rng.randrange(1, 5))]
        L.append("tiowb %d %s %s" % (capa, flags, fmt_chunks(bsegs)))
    return L


def rand_script(rng, capa):
    n = rng.choice([0, 1, 2, 2, 3, 4, 6, 9])
    toks = []
    for _ in range(n):
        k = rng.random()
        if k < 0.55:
            toks.append(str(rng.choice([1, 1, 2, 3, 5, 7, capa - 1, capa, 10 * capa, rng.randrange(1, capa + 2)])))
        elif k < 0.75:
            toks.append("0")
        else:
            toks.append("f")
    return ",".join(toks) or "-"


def gen_write(ctx):
    """write side against a scripted handler (accept k / accept nothing / fail at call j): tio level (`tiox`) and print on the
    console of the standard runtime with write(2) interposed in-process (`prt`)"""
    rng = ctx.rng
    quick = ctx.tier == "quick"
    L = []
    hello = "68,65,6c,6c,6f,20,77,6f,72,6c,64,a"
    # exhaustive: every script of length <= 3 over {accept 1, accept 5, accept all, 0, f} for a few call lists
    alpha = ["1", "5", "99", "0", "f"]
    calls = ["s:68656c6c6f20776f726c640a/F/F", "s:%s/F/F" % ("41" * 33 + "0a42"), "u:%s/F" % hello, "u:%s/F/F" % hello, "b:68656c6c6f20776f726c640a/F/F", "u:61,62/u:a/u:20ac,e9/u:a/F", "u:%s/u:%s/F/F" % (hello, hello)]
    import itertools
    for n in (0, 1, 2, 3):
        for sc in itertools.product(alpha, repeat=n):
            for c in (calls if n < 3 else calls[:2]):
                L.append("tiox 32 i %s %s" % (",".join(sc) or "-", c))
    # random
    for _ in range(600 if quick else 20000):
        capa = rng.choice([32, 33, 34, 48])
        ops = []
        for _ in range(rng.randrange(1, 7)):
            k = rng.random()
            if k < 0.5:
                if rng.random() < 0.3:
                    seg = [0x61] * rng.randrange(capa - 4, capa + 2) + [rng.choice([0xE9, 0x20AC, 0xFFFF])] + [rng.choice([0x62, 0x0A])]
                else:
                    seg = [rand_char(rng) for _ in range(rng.randrange(0, 40))]
                ops.append("u:" + (",".join("%x" % c for c in seg) or "-"))
            elif k < 0.75:
                bs = bytes(rng.randrange(256) if rng.random() < 0.85 else 0x0A for _ in range(rng.choice([0, 1, 5, capa - 1, capa, capa + 1, 2 * capa + 3, rng.randrange(0, 90)])))
                ops.append(rng.choice(["b:", "b:", "s:"]) + (bs.hex() or "-"))
            else:
                ops.append("F")
        ops += rng.choice([[], ["F"], ["F", "F"], ["F", "F", "F"]])
        L.append("tiox %d %s %s %s" % (capa, rng.choice(["i", "i", "in", "-"]), rand_script(rng, capa), "/".join(ops)))
    # print through the std console handler, write(2) scripted
    words = [b"hello world", b"a", b"", b"\xc3\xa9\xe2\x82\xac", b"x" * 70, b"0123456789" * 30, "가나다 €".encode()]
    for n in (0, 1, 2, 3):
        for sc in itertools.product(["1", "5", "0", "f"], repeat=n):
            L.append("prt %s %s" % (",".join(sc) or "-", fmt_chunks([b"hello world"])))
            if n <= 2:
                L.append("prt %s %s" % (",".join(sc) or "-", fmt_chunks([b"ab", b"\xc3\xa9", b"cd"])))
    for _ in range(120 if quick else 3000):
        ts = [rng.choice(words) for _ in range(rng.randrange(1, 6))]
        if rng.random() < 0.1:
            ts.append(b"y" * rng.choice([2047, 2048, 2049, 4100]))
        toks = []
        for _ in range(rng.choice([0, 1, 2, 3, 5])):
            k = rng.random()
            toks.append(str(rng.choice([1, 2, 5, 11, 12, 13, 100, 2048, 5000])) if k < 0.6 else ("0" if k < 0.75 else "f"))
        L.append("prt %s %s" % (",".join(toks) or "-", fmt_chunks(ts)))
    return L


# ----------------------------------------------------------------------------
# property oracle (independent of the Lean model)
# ----------------------------------------------------------------------------
def ref_decode(data):
    """python's decoder as the reference: code points of a well-formed BMP string (3-byte surrogates let through, as hawk's
    16-bit characters carry them), or None when the bytes are not well-formed BMP UTF-8"""
    try:
        s = data.decode("utf-8", "surrogatepass")
    except UnicodeDecodeError:
        return None
    cps = [ord(ch) for ch in s]
    return None if any(c > 0xFFFF for c in cps) else cps


def p_bytes(s):
    return b"" if s == "-" else bytes.fromhex(s)


def p_chars(s):
    return [] if s == "-" else [int(x, 16) for x in s.split(",")]


def p_chunks(s):
    return [] if s == "." else [p_bytes(c) for c in s.split("/")]


def is_proper_prefix_of_char(b):
    for ext in (b"\x80", b"\xa0", b"\xbf", b"\x80\x80", b"\xa0\x80", b"\xbf\xbf", b"\x9f\xbf"):
        r = ref_decode(b + ext)
        if r is not None and len(r) == 1:
            return True
    return False


def kv(o):
    return dict(x.split("=", 1) for x in o.split(" ") if "=" in x)


def tior_calls(o):
    """[(head, cur, len, flags, unread)] and the end marker of a tior/tiob output line"""
    parts = o.split(" ")
    end = parts[-1].split("=", 1)[1] if parts[-1].startswith("end=") else "?"
    calls = []
    for c in parts[:-1]:
        head, _, st = c.partition("|")
        calls.append((head, st))
    return calls, end


def oracle_line(l, o):
    """None when the op's output is what the English property demands of the real code, else a message"""
    w = l.split()
    if o is None:
        return None   # aborted ops are handled separately
    if o == "bad-op":
        return None
    if o == "HANG":
        return "call did not return"
    try:
        if w[0] == "enc":
            c, size = int(w[1], 16) & 0xFFFF, int(w[2])
            f = kv(o); ref = u8(c)
            if f["bytes"] == "TOUCHED":
                return "buffer written although it is too small"
            if size >= len(ref):
                if int(f["ret"]) != len(ref) or f["bytes"] != ref.hex():
                    return "U+%04X encodes to %s (ret %s), reference %s" % (c, f["bytes"], f["ret"], ref.hex())
            elif int(f["ret"]) <= size or f["bytes"] != "-":
                return "too small a buffer (%d) not reported: ret %s" % (size, f["ret"])
        elif w[0] == "dec":
            b = p_bytes(w[1]); f = kv(o)
            if "NONDET" in o:
                return "two decodes of the same bytes differ"
            if f["uc"].startswith("TOUCHED"):
                return "*uc written without a complete character"
            ret = int(f["ret"])
            for k in (1, 2, 3):
                r = ref_decode(b[:k]) if len(b) >= k else None
                if r is not None and len(r) == 1:
                    if ret != k or f["uc"] == "-" or int(f["uc"], 16) != r[0]:
                        return "well-formed %s decodes to ret=%d uc=%s, reference U+%04X in %d bytes" % (b[:k].hex(), ret, f["uc"], r[0], k)
                    return None
            if is_proper_prefix_of_char(b):
                if ret <= len(b) or ret > 6:
                    return "truncated character %s not reported incomplete (ret %d)" % (b.hex(), ret)
                return None
            if ret > 6 or (0 < ret <= len(b) and f["uc"] == "-"):
                return "incoherent verdict ret=%d uc=%s" % (ret, f["uc"])
        elif w[0] in ("upto", "btou"):
            wcap = int(w[-2]); b = p_bytes(w[-1]); f = kv(o)
            out = p_chars(f["out"]); mlen = int(f["mlen"])
            if mlen > len(b) or len(out) > wcap:
                return "consumed %d of %d bytes, stored %d characters in room for %d" % (mlen, len(b), len(out), wcap)
            r = ref_decode(b)
            if r is not None:
                if w[0] == "upto":
                    k = r.index(0x0A) + 1 if 0x0A in r else len(r)
                    k = min(k, wcap)
                    if out != r[:k]:
                        return "well-formed input converts to %s, reference %s" % (out, r[:k])
                elif out != r[:wcap]:
                    return "well-formed input converts to %s, reference %s" % (out, r[:wcap])
                if ref_decode(b[:mlen]) != out:
                    return "bytes consumed do not match the characters stored"
        elif w[0] == "utob":
            rem = int(w[1]); cs = [c & 0xFFFF for c in p_chars(w[2])]; f = kv(o)
            exp = b""; n = 0
            for c in cs:
                if len(exp) + len(u8(c)) > rem:
                    break
                exp += u8(c); n += 1
            if p_bytes(f["bytes"]) != exp or int(f["ulen"]) != n:
                return "characters convert to %s (%s consumed), reference %s (%d)" % (f["bytes"], f["ulen"], exp.hex(), n)
        elif w[0] == "tior":
            capa, flags, size = int(w[1]), w[2], int(w[3])
            data = b"".join(p_chunks(w[4]))
            calls, end = tior_calls(o)
            chars = []
            for head, st in calls:
                a, _, c2 = st.partition(":")
                cur, ln = int(a.split(",")[0]), int(a.split(",")[1])
                if cur > ln or ln > capa:
                    return "staging cursor/length out of range: %s (capacity %d)" % (a, capa)
                if ":" in head:
                    n = int(head.split(":")[0]); cs = p_chars(head.split(":")[1])
                    if n > size or n != len(cs):
                        return "a read returned %d characters into room for %d" % (n, size)
                    chars += cs
            cm = cm_of_flags(flags)
            r = ref_decode_cm(cm, data)
            if end == "eof" and calls and not calls[-1][1].endswith(":-"):
                return "end of input reported while staged bytes were neither delivered, replaced nor rejected (%s)" % calls[-1][1]
            if r is not None:
                if chars != r or end != "eof":
                    k = next((i for i in range(min(len(chars), len(r))) if chars[i] != r[i]), min(len(chars), len(r)))
                    return "well-formed text read back differently at character %d (%d read, %d expected, end=%s)" % (k, len(chars), len(r), end)
            elif "i" in flags and cm != "utf8":
                if end != "eof":
                    return "ill-formed input with IGNOREECERR did not reach end of input (end=%s)" % end
            elif "i" in flags:
                if end != "eof":
                    return "ill-formed input with IGNOREECERR did not reach end of input (end=%s)" % end
                # the text before the first ill-formed byte is unchanged, and what follows is not silently dropped
                try:
                    data.decode("utf-8", "surrogatepass"); first_bad = len(data)
                except UnicodeDecodeError as e:
                    first_bad = e.start
                pre = ref_decode(data[:first_bad])
                if pre is not None and b"" not in p_chunks(w[4]):
                    if chars[:len(pre)] != pre:
                        return "the well-formed text before the first ill-formed byte (offset %d) is not read back unchanged" % first_bad
                    if first_bad < len(data) and len(chars) <= len(pre):
                        return "ill-formed bytes from offset %d on were dropped without replacement" % first_bad
            elif end not in ("eof", "err"):
                return "read loop ended with %s" % end
        elif w[0] == "tiob":
            size = int(w[2]); data = b"".join(p_chunks(w[3]))
            # an empty chunk is the handler's end of input: only the bytes before it can be expected
            chs = p_chunks(w[3])
            if b"" in chs:
                data = b"".join(chs[:chs.index(b"")])
            calls, end = tior_calls(o)
            got = b""
            for head, st in calls:
                if ":" in head:
                    n = int(head.split(":")[0]); bs = p_bytes(head.split(":")[1])
                    if n > size or n != len(bs):
                        return "a byte read returned %d bytes into room for %d" % (n, size)
                    got += bs
            if got != data or end != "eof":
                return "bytes read back differ from the bytes supplied (%d vs %d, end=%s)" % (len(got), len(data), end)
        elif w[0] in ("tiow", "tiowb"):
            capa, flags = int(w[1]), w[2]
            f = kv(o)
            sink = [] if f["sink"] == "." else [p_bytes(x) for x in f["sink"].split("/")]
            got = b"".join(sink) + p_bytes(f["rest"])
            if w[0] == "tiow":
                exp = b"".join(enc_cm(cm_of_flags(flags), int(c, 16)) for sg in w[3].split("/") if sg != "-" for c in sg.split(","))
            else:
                exp = b"".join(p_chunks(w[3]))
            if any(len(x) > capa for x in sink):
                return "a flush handed out more bytes than the staging capacity"
            if "EECERR" in o or "EBUFFULL" in o or "short" in o:
                return "a write of valid characters failed: %s" % o[:80]
            if got != exp:
                k = next((i for i in range(min(len(got), len(exp))) if got[i] != exp[i]), min(len(got), len(exp)))
                return "bytes written differ from the reference encoding at byte %d (%d written, %d expected)" % (k, len(got), len(exp))
        elif w[0] == "tiox":
            return oracle_tiox(w, o)
        elif w[0] in ("cenc", "cdec", "cname", "cbtou", "cbtous", "cutob", "cutobs", "dupb", "dupu", "v2u", "v2b", "vstr", "vmbs"):
            return oracle_cmgr(w, o)
        elif w[0] == "prt":
            return oracle_prt(w, o)
    except Exception as e:
        return "unparsable output %r (%r)" % (o[:120], e)
    return None


def oracle_cmgr(w, o):
    """the other character managers, the wrappers, the duplicating converters and the value converters against python references"""
    op = w[0]
    if op == "cname":
        nm = "" if w[1] == "-" else w[1].replace("_", " ")
        exp = nm if nm in ("utf8", "utf16", "mb8") else "NULL"
        if "DISAGREE" in o:
            return "hawk_get_cmgr_by_bcstr and hawk_get_cmgr_by_ucstr disagree on %r" % nm
        if o != "id=" + exp:
            return "name %r selects %s, expected %s" % (nm, o, exp)
        return None
    if "NONDET" in o or "TOUCHED" in o or "NOT-TERMINATED" in o or "SETCMGR-LOST" in o:
        return "misbehaviour flagged by the harness: %s" % o[:80]
    cm = "utf8" if op in ("vstr", "vmbs") else w[1].replace("utf16L", "utf16")
    if op == "cenc":
        c, size = int(w[2], 16) & 0xFFFF, int(w[3]); f = kv(o); ref = enc_cm(cm, c)
        if cm == "utf16":
            ref = bytes([c & 0xFF, c >> 8])     # the encoder writes any 16-bit unit; only the decoder refuses surrogates
        if ref is None:
            if size >= 1 and int(f["ret"]) != 0:
                return "a character the %s manager does not carry (U+%04X) was not refused: ret %s" % (cm, c, f["ret"])
        elif size >= len(ref):
            if int(f["ret"]) != len(ref) or f["bytes"] != ref.hex():
                return "%s: U+%04X encodes to %s (ret %s), reference %s" % (cm, c, f["bytes"], f["ret"], ref.hex())
        elif int(f["ret"]) <= size or f["bytes"] != "-":
            return "%s: too small a buffer (%d) not reported: ret %s bytes %s" % (cm, size, f["ret"], f["bytes"])
    elif op == "cdec":
        b = p_bytes(w[2]); f = kv(o); ret = int(f["ret"])
        if cm == "mb8":
            if ret != 1 or f["uc"] == "-" or int(f["uc"], 16) != b[0]:
                return "mb8: byte %02x decodes to ret=%d uc=%s" % (b[0], ret, f["uc"])
        elif cm == "utf16":
            if len(b) < 2:
                if ret <= len(b):
                    return "utf16: one byte of a two-byte unit is not reported incomplete (ret %d; 0 means illegal)" % ret
            else:
                u = b[0] | (b[1] << 8)
                if not (0xD800 <= u <= 0xDFFF) and (ret != 2 or f["uc"] == "-" or int(f["uc"], 16) != u):
                    return "utf16: unit %04x decodes to ret=%d uc=%s" % (u, ret, f["uc"])
    elif op in ("cbtou", "cbtous"):
        wcap = int(w[2]); b = p_bytes(w[3]); f = kv(o)
        if op == "cbtous" and 0 in b:
            b = b[:b.index(0)]
        out = p_chars(f["out"]); mlen = int(f["mlen"])
        if mlen > len(b) or len(out) > wcap:
            return "consumed %d of %d bytes, stored %d characters in room for %d" % (mlen, len(b), len(out), wcap)
        r = ref_decode_cm(cm, b)
        if r is not None:
            if out != r[:wcap]:
                return "%s: well-formed input converts to %s, reference %s" % (cm, out, r[:wcap])
            if op == "cbtous" and (f["nul"] == "1") != (len(out) < wcap):
                return "terminating NUL: nul=%s with %d characters in room for %d" % (f["nul"], len(out), wcap)
    elif op in ("cutob", "cutobs"):
        rem = int(w[2]); cs = [c & 0xFFFF for c in p_chars(w[3])]; f = kv(o)
        if op == "cutobs" and 0 in cs:
            cs = cs[:cs.index(0)]
        exp = b""; n = 0; refused = False
        for c in cs:
            e = bytes([c & 0xFF, c >> 8]) if cm == "utf16" else enc_cm(cm, c)
            if e is None:
                refused = len(exp) < rem      # with no room left the loop says "buffer too small" before it looks at the character
                break
            if len(exp) + len(e) > rem:
                break
            exp += e; n += 1
        if p_bytes(f["bytes"]) != exp or int(f["ulen"]) != n:
            return "%s: characters convert to %s (%s consumed), reference %s (%d)" % (cm, f["bytes"], f["ulen"], exp.hex(), n)
        if refused and int(f["x"]) != -1 and not (op == "cutobs" and len(exp) >= rem):
            return "%s: a character the manager does not carry was not refused (x=%s)" % (cm, f["x"])
    elif op in ("dupb", "v2u", "vstr"):
        b = p_bytes(w[-1]); allf = (w[2] == "1") if op == "dupb" else True
        r = ref_decode_cm(cm, b)
        if o.startswith("ok "):
            f = kv(o); out = p_chars(f["out"])
            if int(f["len"]) != len(out) or len(out) > len(b):
                return "length %s for %d characters from %d bytes" % (f["len"], len(out), len(b))
            if r is not None and out != r:
                return "%s: well-formed bytes become %s, reference %s" % (cm, out, r)
        elif r is not None or allf or o != "EECERR":
            return "%s: bytes -> text failed with %s (well-formed: %s, all: %s)" % (cm, o, r is not None, allf)
    elif op in ("dupu", "v2b", "vmbs"):
        cs = [c & 0xFFFF for c in p_chars(w[-1])]
        es = [bytes([c & 0xFF, c >> 8]) if cm == "utf16" else enc_cm(cm, c) for c in cs]
        if any(e is None for e in es):
            if o != "EECERR":
                return "%s: text with a character the manager does not carry converts with %s instead of failing with EECERR" % (cm, o[:60])
        else:
            exp = b"".join(es); f = kv(o) if o.startswith("ok ") else None
            if f is None or p_bytes(f["out"]) != exp or int(f["len"]) != len(exp):
                return "%s: text becomes %s, reference %s" % (cm, o[:80], exp.hex())
    return None


def parts_match(stream, items):
    """items: [(text, ok)] in call order.  True when `stream` is the concatenation of one part per call, the part being the
    whole text of a call that reported success and some prefix of the text of a call that reported failure"""
    memo = {}

    def go(i, pos):
        if i == len(items):
            return pos == len(stream)
        key = (i, pos)
        if key in memo:
            return memo[key]
        text, ok = items[i]
        res = False
        if ok:
            res = stream[pos:pos + len(text)] == text and go(i + 1, pos + len(text))
        else:
            for k in range(0, len(text) + 1):
                if stream[pos:pos + k] != text[:k]:
                    break
                if go(i + 1, pos + k):
                    res = True
                    break
        memo[key] = res
        return res
    sys.setrecursionlimit(max(sys.getrecursionlimit(), 10000))
    return go(0, 0)


def oracle_tiox(w, o):
    """byte layer of "exactly once, in order, however few bytes the handler accepts; a failure is a negative return, never data
    lost under a success": independent of the Lean model"""
    capa, script = int(w[1]), ([] if w[3] == "-" else w[3].split(","))
    ops = [] if w[4] == "." else w[4].split("/")
    head, _, sinks = o.rpartition(" sink=")
    sink = [] if sinks == "." else [p_bytes(x) for x in sinks.split("/")]
    outs = head.split(" ") if head else []
    if len(outs) != len(ops):
        return "%d results for %d calls" % (len(outs), len(ops))
    items = []
    staged = b""
    prev_len = 0
    for op, r in zip(ops, outs):
        ret, ln, buf, calls = r.split("|")
        ln = int(ln); staged = p_bytes(buf)
        if ln > capa or len(staged) != ln:
            return "outbuf_len %d beyond the capacity %d (or staged bytes not dumped)" % (ln, capa)
        if op == "F":
            if ret.startswith("n"):
                if int(ret[1:]) + ln != prev_len:
                    return "flush returned %s but the staged length went from %d to %d" % (ret, prev_len, ln)
            elif ret != "EIOERR":
                return "flush returned %s" % ret
            elif ln == 0:
                return "flush failed with nothing left staged"
            items.append((b"", True))
        else:
            text = b"".join(enc_cm(cm_of_flags(w[2]), int(c, 16)) for c in op[2:].split(",")) if (op[0] == "u" and op[2:] != "-") else (p_bytes(op[2:]) if op[0] == "b" else (p_bytes(op[2:]).split(b"\x00")[0] if op[0] == "s" else b""))
            if ret not in ("ok", "EIOERR", "EBUFFULL"):
                return "write returned %s" % ret
            if ret == "EBUFFULL" and prev_len < capa and ln < capa:
                return "EBUFFULL although the staging buffer was not full before (%d of %d) nor after (%d) the call" % (prev_len, capa, ln)
            items.append((text, ret == "ok"))
        if ret == "EIOERR" and "f" not in script:
            return "a call failed although the handler never failed"
        prev_len = ln
    if any(len(x) > capa or len(x) == 0 for x in sink):
        return "the handler was offered/accepted a slice outside 1..capacity"
    stream = b"".join(sink) + staged
    if not parts_match(stream, items):
        exp = b"".join(t for t, _ in items)
        k = next((i for i in range(min(len(stream), len(exp))) if stream[i] != exp[i]), min(len(stream), len(exp)))
        return ("bytes accepted by the handler + bytes staged are not the text written (whole for calls that reported success, a prefix for calls that "
                "reported failure): %d bytes vs %d written, first difference at byte %d: got %r expected %r" % (len(stream), len(exp), k, stream[max(0, k - 6):k + 12], exp[max(0, k - 6):k + 12]))
    return None


def oracle_prt(w, o):
    script = [] if w[1] == "-" else w[1].split(",")
    texts = p_chunks(w[2])
    f = kv(o)
    ec, calls = int(f["ec"]), int(f["calls"])
    sink = [] if f["sink"] == "." else [p_bytes(x) for x in f["sink"].split("/")]
    delivered = b"".join(sink)
    first_f = script.index("f") + 1 if "f" in script else None
    failed = first_f is not None and calls >= first_f          # write(2) did fail during the run, at the end of it or at close
    if ec == -1:
        # run error: hawk_rtx_loop failed.  legitimate only when the writer failed (the flush made when the run returns);
        # every print may have been executed, and any of them may have been the one that failed before
        if not failed:
            return "the run failed (hawk_rtx_loop returned NULL) although write(2) never failed"
        if not any(b"".join(t + b"\n" for t in texts[:k]).startswith(delivered) or
                   (k > 0 and delivered.startswith(b"".join(t + b"\n" for t in texts[:k - 1])) and
                    (texts[k - 1] + b"\n").startswith(delivered[len(b"".join(t + b"\n" for t in texts[:k - 1])):].rstrip(b"\n")))
                   for k in range(0, len(texts) + 1)):
            return "after a failed run what reached descriptor 1 (%d bytes) is not a prefix of the text printed" % len(delivered)
        return None
    if ec == 0:
        m = len(texts)
    elif 101 <= ec <= 100 + len(texts):
        m = ec - 100
    else:
        return "the run ended with %d" % ec
    exp = b"".join(t + b"\n" for t in texts[:m])
    if "f" not in script and "0" not in script and ec != 0:
        return "print reported a failure (exit %d) although write(2) never failed nor returned 0" % ec
    if failed and ec == 0 and "0" not in script:
        return "write(2) failed (call %d) but every print and the run reported success: lost data reported as success" % first_f
    okpre = exp.startswith(delivered)
    if not okpre and ec != 0:
        # the failing print: a prefix of its value may have been staged before the failure, and (HAWK_TOLERANT) ORS is written after it
        base = b"".join(t + b"\n" for t in texts[:m - 1])
        if delivered.startswith(base):
            rest = delivered[len(base):]
            okpre = texts[m - 1].startswith(rest) or (rest.endswith(b"\n") and texts[m - 1].startswith(rest[:-1]))
    if not okpre:
        k = next((i for i in range(min(len(delivered), len(exp))) if delivered[i] != exp[i]), min(len(delivered), len(exp)))
        return "what reached descriptor 1 is not a prefix of the text printed: first difference at byte %d of %d delivered (%d printed): got %r expected %r" % (
            k, len(delivered), len(exp), delivered[max(0, k - 6):k + 12], exp[max(0, k - 6):k + 12])
    small = len(exp) < 2048
    if calls > len(script) and small and delivered != exp:
        return "write(2) accepted everything in the end but only %d of the %d bytes printed were delivered" % (len(delivered), len(exp))
    return None


def oracle_groups(lines, cout):
    """the same bytes read under different schedules (chunking, staging capacity, read size) must give the same characters:
    [(index, message)] for every IGNOREECERR read that differs from the first read of the same bytes"""
    first = {}
    hits = []
    for i, l in enumerate(lines):
        if not l.startswith("tior ") or cout[i] is None:
            continue
        w = l.split()
        if "i" not in w[2]:
            continue
        chs = p_chunks(w[4])
        if b"" in chs:
            continue
        data = b"".join(chs)
        try:
            calls, end = tior_calls(cout[i])
            chars = tuple(c for head, st in calls if ":" in head for c in p_chars(head.split(":")[1]))
        except Exception:
            continue
        key = (cm_of_flags(w[2]), data)
        if key not in first:
            first[key] = (i, chars)
        elif first[key][1] != chars:
            hits.append((i, "the same %d bytes read under two schedules give different characters (op %d: %r)" % (len(data), first[key][0], lines[first[key][0]][:120])))
    return hits


# ----------------------------------------------------------------------------
# running both sides
# ----------------------------------------------------------------------------
_DRV = {}


def drv(ctx, lines):
    """the compiled Lean driver (built once), time budget proportional to the input"""
    if "exe" not in _DRV:
        _DRV["exe"] = C.driver_exe(ctx)
    data = ("\n".join(lines) + "\n").encode()
    rc, out, err = C.sh([_DRV["exe"], "utf8"], input_=data, timeout=120 + len(data) // 20000)
    if rc != 0:
        raise RuntimeError("lean driver utf8 rc=%s: %s" % (rc, err.decode(errors="replace")[-2000:]))
    return out.decode(errors="replace").split("\n")[:-1]


def predict_legacy(ctx, lines):
    """which tior ops would make the *unrepaired* tio.c misbehave, according to the model's legacy mode: index -> signature"""
    idx = [i for i, l in enumerate(lines) if l.startswith("tior ")]
    req = []
    for i in idx:
        w = lines[i].split()
        req.append("tior %s %sL %s %s" % (w[1], w[2], w[3], w[4]))
    res = {}
    for i, o in (zip(idx, drv(ctx, req)) if req else []):
        size = int(lines[i].split()[3])
        for call in o.split(" "):
            head = call.split("|")[0]
            if head == "FAULT-memcpy-overlap":
                res[i] = SIG_OVERLAP
                break
            if ":" in head and head.split(":")[0].isdigit() and int(head.split(":")[0]) > size:
                res[i] = SIG_OOB
                break
    for i, l in enumerate(lines):
        if utf16_write_op(l):
            res.setdefault(i, SIG_U16_SMALL)
    idx = [i for i, l in enumerate(lines) if l.startswith("tiox ") and "s:" in l and i not in res]
    if idx:
        req = []
        for i in idx:
            w = lines[i].split()
            req.append(" ".join(w[:2] + [w[2] + "L"] + w[3:]))
        for i, o in zip(idx, drv(ctx, req)):
            if "FAULT-oob-write" in o:
                res[i] = SIG_WBCSTR
    return res


def utf16_write_op(l):
    """ops that can give the utf16 encoder fewer than two bytes of room (the unrepaired hawk_uc_to_utf16 stores regardless)"""
    w = l.split()
    if w[0] == "cenc":
        return w[1] == "utf16" and int(w[3]) < 2
    if w[0] in ("cutob", "cutobs"):
        return w[1] == "utf16"
    if w[0] in ("tiow", "tiox"):
        return "U" in w[2]
    return False


def legacy_line(l):
    """the same op for the model of the unrepaired utf16.c, or None when the op does not involve it"""
    w = l.split()
    if w[0] in ("cenc", "cdec", "cbtou", "cbtous", "cutob", "cutobs", "dupb", "dupu", "v2u", "v2b") and w[1] == "utf16":
        return " ".join([w[0], "utf16L"] + w[2:])
    if w[0] in ("tior", "tiow", "tiox") and "U" in w[2] and "K" not in w[2]:
        return " ".join(w[:2] + [w[2] + "K"] + w[3:])
    return None


def known_sigs(ctx, lines, cout, idxs):
    """index -> signature for oracle hits that are exactly what the model of the unrepaired utf16 decoder does"""
    req = [(i, legacy_line(lines[i])) for i in idxs]
    req = [(i, l) for i, l in req if l is not None and cout[i] is not None]
    res = {}
    if req:
        for (i, _), o in zip(req, drv(ctx, [l for _, l in req])):
            if o == cout[i]:
                res[i] = SIG_U16_INCOMPLETE
    return res


def classify_abort(ctx, line, status, cerr):
    """name the two recorded tio defects when the unrepaired code is met; anything else stays anonymous"""
    w = line.split()
    if w and w[0] == "tior" and status == "ASAN":
        pred = predict_legacy(ctx, [line]).get(0)
        if pred == SIG_OVERLAP and "memcpy-param-overlap" in cerr and "tio_read_uchars" in cerr:
            return SIG_OVERLAP
        if pred == SIG_OOB and "heap-buffer-overflow" in cerr and "WRITE of size" in cerr and "tio_read_uchars" in cerr:
            return SIG_OOB
    if w and w[0] == "tiox" and status == "ASAN" and "s:" in line and "heap-buffer-overflow" in cerr and "WRITE of size 1" in cerr and "hawk_tio_writebchars" in cerr:
        if predict_legacy(ctx, [line]).get(0) == SIG_WBCSTR:
            return SIG_WBCSTR
    if w and status == "ASAN" and utf16_write_op(line) and "heap-buffer-overflow" in cerr and "WRITE of size 2" in cerr and "hawk_uc_to_utf16" in cerr:
        return SIG_U16_SMALL
    return None


def run_c(ctx, exe, lines, max_aborts=40):
    """runs the harness; when a sanitizer (or the watchdog) kills it, the op that was running is recorded and the harness is
    restarted after it.  Once an abort carries the signature of a recorded defect, the remaining ops that the model's legacy
    mode predicts to hit the *same* signature are not run again (they are counted as skipped).
    returns (outputs aligned with lines, None where there is none; aborts[(idx, status, stderr, sig)]; skipped indices; #not run)"""
    out = [None] * len(lines)
    aborts, skipped = [], set()
    todo = list(range(len(lines)))
    pred = None
    seen = set()
    while todo and len(aborts) < max_aborts:
        nbytes = sum(len(lines[i]) for i in todo)
        rc, cout, cerr = C.run_harness(exe, ["30"], [lines[i] for i in todo], timeout=120 + len(todo) // 2000 + nbytes // 200000)
        hang = bool(cout) and cout[-1] == "HANG"
        if hang:
            cout = cout[:-1]
        for j, l in enumerate(cout[:len(todo)]):
            out[todo[j]] = l
        st = C.classify_rc(rc, cerr)
        if st == "ok" and not hang:
            todo = []
            break
        j = min(len(cout), len(todo) - 1)
        k = todo[j]
        out[k] = None
        st = "HANG" if hang else st
        sig = classify_abort(ctx, lines[k], st, cerr)
        aborts.append((k, st, cerr[-6000:], sig))
        todo = todo[j + 1:]
        if sig:
            seen.add(sig)
            if pred is None:
                pred = predict_legacy(ctx, lines)
        if pred:
            sk = [i for i in todo if pred.get(i) in seen]
            skipped.update(sk)
            todo = [i for i in todo if pred.get(i) not in seen]
    return out, aborts, skipped, len(todo)


def one(ctx, exe, line):
    """(impl output | None, abort | None, model output, oracle message | None) for a single op"""
    co, ab, _, _ = run_c(ctx, exe, [line])
    mo = drv(ctx, [line])
    return co[0], (ab[0] if ab else None), mo[0], oracle_line(line, co[0])


def shrink_tio(ctx, exe, line, fails_line):
    """ddmin over the bytes of a failing tior/tiob line (chunk boundaries travel with the byte that follows them);
    `fails_line(line)` says whether a candidate still fails in the same way"""
    w = line.split()
    if w[0] not in ("tior", "tiob"):
        return line
    chunks = p_chunks(w[-1])
    toks = []
    for ch in chunks:
        for i, b in enumerate(ch):
            toks.append((b, i == 0))

    def mk(ts):
        chs, cur = [], bytearray()
        for b, first in ts:
            if first and cur:
                chs.append(bytes(cur)); cur = bytearray()
            cur.append(b)
        if cur:
            chs.append(bytes(cur))
        return " ".join(w[:-1] + [fmt_chunks(chs)])
    if not toks or not fails_line(mk(toks)):
        return line
    small = mk(C.ddmin(toks, lambda ts: fails_line(mk(ts)), max_tests=120))
    return small if fails_line(small) else line


# ----------------------------------------------------------------------------
# language level
# ----------------------------------------------------------------------------
BPROG = r"""BEGIN {
  while ((getbline x) > 0) {
    y = x @b"|" x;
    a = substr(y, 1, length(x));
    b = substr(y, length(x) + 2);
    c = sprintf(@b"%s", x);
    printf(@b"%s\n", x);
    print a; print b; print c;
    print length(x), hawk::typename(a), hawk::typename(b), hawk::typename(c), hawk::typename(y), (a == x), (b == x), (c == x);
  }
}"""
REJOIN = '{s=$1; for(i=2;i<=NF;i++) s=s FS $i; print s}'
PROGS = {"ident": ["{print}"], "rejoin": ["-F;", REJOIN], "length": ["{print length($0)}"]}


def hawk_run(hawk, args, stdin_bytes=None, stdin_chunks=None, size=0):
    """run the sanitized CLI under a SIGKILL watchdog (budget grows with the input); stdin either a byte string or a list of
    chunks written with pauses"""
    timeout = 60 + size // 20000
    cmd = ["timeout", "-s", "KILL", str(timeout), hawk] + args
    if stdin_chunks is None:
        rc, out, err = C.sh(cmd, timeout=timeout + 10, input_=stdin_bytes if stdin_bytes is not None else b"", env=C.ASAN_ENV)
        return rc, out, err.decode(errors="replace")
    p = subprocess.Popen(cmd, stdin=subprocess.PIPE, stdout=subprocess.PIPE, stderr=subprocess.PIPE, env=C.ASAN_ENV, start_new_session=True)
    res = {}

    def rd():
        res["out"] = p.stdout.read(); res["err"] = p.stderr.read()
    t = threading.Thread(target=rd); t.start()
    try:
        for ch in stdin_chunks:
            p.stdin.write(ch); p.stdin.flush(); time.sleep(0.08)
        p.stdin.close()
    except (BrokenPipeError, OSError):
        pass
    t.join(timeout + 10)
    p.wait()
    return p.returncode, res.get("out", b""), res.get("err", b"").decode(errors="replace")


def cli_sig(err):
    if "memcpy-param-overlap" in err and "tio_read_uchars" in err:
        return SIG_OVERLAP
    if "index 2048 out of bounds" in err and "rio.c" in err:
        return SIG_OOB
    if "tio_read_uchars" in err and "overflow" in err:
        return SIG_OOB
    return None


def nocrlf(data):
    """hawk's record reader (rio.c) takes a CR directly before the newline as part of the line terminator (CRLF input),
    for text and for byte reads alike; generated lines therefore never end in CR"""
    while b"\r\n" in data:
        data = data.replace(b"\r\n", b"\rx\n")
    return data


def bmp_file(pad, per_line, values, sep=b";"):
    out = bytearray(b"p" * pad + (b"\n" if pad else b""))
    line = []
    for c in values:
        if c == 0x0A or c == sep[0]:
            continue
        line.append(u8(c))
        if len(line) == per_line:
            out += sep.join(line) + b"\n"; line = []
    if line:
        out += sep.join(line) + b"\n"
    return bytes(out)


def language_level(ctx, libdir):
    """returns (#runs, impl_hits[(what, replay, sig)], corr_hits[(what, replay)])"""
    hawk = os.path.join(libdir, "hawk")
    rng = ctx.rng
    quick = ctx.tier == "quick"
    wdir = ctx.scratch
    cases = []   # (name, data, chunks|None, progs)

    allv = list(range(0x10000))
    # every BMP scalar, shifted so that multibyte characters meet the 2048-byte edges at every phase
    for pad in ([0, 1, 2] if quick else [0, 1, 2, 3, 5, 7, 11]):
        cases.append(("bmp_pad%d" % pad, bmp_file(pad, 64 if pad % 2 == 0 else 37, allv), None, ("ident", "rejoin", "length")))
    # long lines: one multibyte character placed across the 2048/4096 edges, every phase
    for ch in (0xE9, 0x20AC, 0xFFFF, 0xD800):
        for d in (range(2044, 2050) if quick else list(range(2040, 2052)) + list(range(4090, 4100))):
            data = b"a" * d + u8(ch) + b";" + u8(ch) * 3 + b"z\n" + u8(ch) + b"\n"
            cases.append(("edge_%x_%d" % (ch, d), data, None, ("ident", "length") if quick else ("ident", "rejoin", "length")))
    for i in range(6 if quick else 120):
        n = rng.choice([50, 700, 3000])
        cases.append(("rand%d" % i, nocrlf(b"".join(u8(rand_char(rng)) for _ in range(n)) + b"\n"), None, ("ident", "rejoin", "length")))
    # ill-formed input: replaced deterministically, no sanitizer report
    for i in range(12 if quick else 300):
        n = rng.choice([30, 600, 2300])
        cases.append(("mal%d" % i, nocrlf(b"".join(rand_stream(rng, n, rng.choice([0.02, 0.2, 0.6]))) + b"\n"), None, ("ident", "length")))
    for m in (1, 2):
        cases.append(("full%d" % m, u8(0xE9) * m + b"a" * (2048 - m) + b"\xff" + b"zz\n", None, ("ident", "length")))
    # chunk boundaries through a pipe: the same bytes under a second schedule
    pipes = [[b"\n\xe2\x82", b"\xac\n"], [b"a\xc3", b"\xa9b\n"], [b"\n", b"\xe2", b"\x82", b"\xac\n"], [b"ab\xff\xe2", b"\x82\n"], [b"\xe2\x82", b"\n"]]
    for i in range(2 if quick else 25):
        s = nocrlf(b"".join(u8(rand_char(rng)) for _ in range(rng.randrange(5, 60))) + b"\n")
        pipes.append(chunkings(rng, s, "rand")[:6])
    for i in range(1 if quick else 12):
        s = nocrlf(b"".join(rand_stream(rng, rng.randrange(5, 40), 0.3)) + b"\n")
        pipes.append(chunkings(rng, s, "rand")[:5])
    for i, chs in enumerate(pipes):
        chs = [c for c in chs if c]
        if not chs or not chs[-1].endswith(b"\n"):
            chs.append(b"\n")
        data = b"".join(chs)
        cases.append(("pipe%d" % i, data, chs, ("ident",)))
        cases.append(("pipe%dfile" % i, data, None, ("ident",)))

    # the model's answer for every case, in one driver run
    mlines = drv(ctx, ["ident 2048 i 2048 %s" % fmt_chunks(chs if chs is not None else [data]) for _, data, chs, _ in cases])
    model = {}
    for (name, data, chs, progs), l in zip(cases, mlines):
        f = kv(l)
        model[name] = (p_bytes(f["out"]), [int(x) for x in f["lens"].split(",")] if f["lens"] else [], f["end"])

    jobs = []
    for name, data, chs, progs in cases:
        path = os.path.join(wdir, "in_%s.bin" % name)
        open(path, "wb").write(data)
        for prog in progs:
            jobs.append((name, data, chs, prog, path))

    def run_job(j):
        name, data, chs, prog, path = j
        if chs is None:
            return hawk_run(hawk, PROGS[prog] + [path], size=len(data))
        return hawk_run(hawk, PROGS[prog], stdin_chunks=chs, size=len(data))
    with ThreadPoolExecutor(max_workers=8) as ex:
        results = list(ex.map(run_job, jobs))

    impl_hits, corr_hits = [], []
    outputs = {}

    def keep(name, data):
        k = os.path.join(C.VERIF, "replay", "C15", "cli-%s-seed%d-%s.bin" % (ctx.tier, ctx.seed, name))
        os.makedirs(os.path.dirname(k), exist_ok=True)
        open(k, "wb").write(data)
        return k

    def where(out, exp):
        k = next((i for i in range(min(len(out), len(exp))) if out[i] != exp[i]), min(len(out), len(exp)))
        return "first difference at output byte %d: got %r expected %r" % (k, out[max(0, k - 8):k + 16], exp[max(0, k - 8):k + 16])
    for (name, data, chs, prog, path), (rc, out, err) in zip(jobs, results):
        st = C.classify_rc(rc, err)
        if rc in (-9, 137):
            st = "HANG"
        outputs[(name, prog)] = out
        desc = "hawk '%s' on %s (%d bytes%s)" % (PROGS[prog][-1], name, len(data), ", piped in %d chunks" % len(chs) if chs else "")
        rtxt = "# run: %s %s %s\n%s" % (hawk, " ".join("'%s'" % a for a in PROGS[prog]), "<file>" if chs is None else "< (chunks written with pauses): " + fmt_chunks(chs)[:1500], err[-1500:])
        # (1) the property on the real output
        r = ref_decode(data)
        msg = None
        if st != "ok":
            msg = "status %s" % st
        elif r is not None and data.endswith(b"\n"):
            if prog in ("ident", "rejoin") and out != data:
                msg = "well-formed BMP text is not reproduced byte for byte; " + where(out, data)
            elif prog == "length":
                exp = "".join("%d\n" % len(x) for x in data.decode("utf-8", "surrogatepass").split("\n")[:-1]).encode()
                if out != exp:
                    msg = "length() is not the number of characters; " + where(out, exp)
        elif name.endswith("file") and ("pipe" in name) and (name[:-4], prog) in outputs and outputs[(name[:-4], prog)] != out:
            msg = "the same ill-formed bytes give different output when piped in chunks and when read from a file; " + where(outputs[(name[:-4], prog)], out)
        if msg:
            impl_hits.append((desc + ": " + msg, "# input kept at %s\n%s\n" % (keep(name, data), rtxt), cli_sig(err)))
            continue
        # (2) correspondence with the model's answer
        mout, lens, end = model[name]
        exp = mout if prog != "length" else "".join("%d\n" % n for n in lens).encode()
        if out != exp or end != "eof":
            corr_hits.append((desc + ": output differs from the model's (theorems tio_read_* / ident); " + where(out, exp),
                              "# input kept at %s\n%s\n" % (keep(name, data), rtxt)))

    # byte strings: every byte value through getbline, concatenation, substr, sprintf/printf %s, print (oracle = identity)
    blines = [bytes(b for b in range(256) if b != 0x0A), bytes([0]) + b"abc", b"", bytes(range(255, 127, -1)), b"\xe2\x82", b"\xff" * 5000]
    for _ in range(5 if quick else 100):
        blines.append(bytes(rng.choice([rng.randrange(256), rng.randrange(0x80, 0x100)]) for _ in range(rng.choice([1, 7, 100, 2047, 2048, 2049, 4100]))).replace(b"\n", b"\x0b").rstrip(b"\r"))
    data = b"".join(l + b"\n" for l in blines)
    exp = b"".join((l + b"\n") * 4 + b"%d mbs mbs mbs mbs 1 1 1\n" % len(l) for l in blines)
    pf = os.path.join(wdir, "bprog.hawk")
    open(pf, "w").write(BPROG)
    rc, out, err = hawk_run(hawk, ["-f", pf], stdin_bytes=data, size=len(data))
    st = C.classify_rc(rc, err)
    if st != "ok" or out != exp:
        impl_hits.append(("byte-string program (getbline/concat/substr/%%s/print) does not carry bytes unchanged: status %s; %s" % (st, where(out, exp)),
                          "# run: %s -f <prog> < %s\n%s\n%s\n" % (hawk, keep("bytes", data), BPROG, err[-1500:]), cli_sig(err)))
    lit = "".join("\\x%02x" % b for b in range(256))
    prog = 'BEGIN { x = @b"%s"; printf(@b"%%s", x); y = x x; printf(@b"%%s", substr(y, 200, 120)); print length(y); }' % lit
    rc, out, err = hawk_run(hawk, [prog])
    allb = bytes(range(256))
    exp = allb + (allb + allb)[199:319] + b"512\n"
    st = C.classify_rc(rc, err)
    if st != "ok" or out != exp:
        impl_hits.append(("byte-string literal with all 256 values is not printed unchanged (status %s); %s" % (st, where(out, exp)),
                          "# run: %s '<prog>'\n%s\n%s\n" % (hawk, prog, err[-1500:]), cli_sig(err)))
    ncache, chits = cache_family(ctx, hawk, wdir)
    impl_hits += chits[:3]
    nconv, conv_impl, conv_corr = conv_family(ctx, hawk, wdir)
    impl_hits += conv_impl
    corr_hits += conv_corr
    ncache += nconv
    ok_c, got_c = cache_constants_ok()
    if not ok_c:
        corr_hits.append(("the string-cache constants of lib/hawk-prv.h are no longer the ones the many-strings family is laid out around (16 classes x 16 x 128): %r" % (got_c,), ""))
    return len(jobs) + 2 + ncache, impl_hits, corr_hits



# ----------------------------------------------------------------------------
# many strings at once: the block caches of val.c (HAWK_MBS_CACHE_* / HAWK_STR_CACHE_*: 16 size classes of 16 bytes/characters,
# class = align(len + 1, 16) / 16, 128 parked blocks per class) – content identity after cache churn, CLI runs only
# ----------------------------------------------------------------------------
CACHE_UNIT, CACHE_CLASSES, CACHE_SLOTS = 16, 16, 128


def cache_constants_ok():
    """the family is laid out around the constants of hawk-prv.h; say so when they move"""
    try:
        src = open(os.path.join(C.REPO, "lib", "hawk-prv.h")).read()
        import re
        got = {m.group(1): int(m.group(2)) for m in re.finditer(r"#define\s+(HAWK_(?:STR|MBS)_CACHE_\w+)\s+\((\d+)\)", src)}
        return all(got.get("HAWK_%s_CACHE_%s" % (k, n)) == v for k in ("STR", "MBS")
                   for n, v in (("NUM_BLOCKS", CACHE_CLASSES), ("BLOCK_UNIT", CACHE_UNIT), ("BLOCK_SIZE", CACHE_SLOTS))), got
    except OSError:
        return False, {}


def cache_case(kind, cls, N, L1, L2, K, M, release):
    """hawk program + expected output: K values of the next class parked first, N values of class `cls` alive at once (a third of
    them kept alive elsewhere), released together, then fresh values of both classes made by concatenation, substr and
    sprintf("%s"), all alive at once, printed and compared byte for byte"""
    if kind == "mbs":
        base = [b for b in range(0x21, 0x100) if b not in (0x22, 0x5C)]
        P = bytes(base + base[:140])
        lit = '@b"' + "".join("\\x%02x" % b for b in P) + '"'
        B = "@b"
        enc = lambda x: x
        num = lambda fmt, i: (fmt % i).encode()
    else:
        chars = [chr(c) for c in list(range(0x41, 0x5B)) + list(range(0x61, 0x7B)) + [0xE9, 0x20AC, 0xAC00, 0x3B1, 0x416, 0xFF21, 0xD7FF, 0x7FF, 0x800, 0xFFFD]]
        P = "".join(chars[(i * 7) % len(chars)] for i in range(380))
        lit = '"' + P + '"'
        B = ""
        enc = lambda x: x.encode("utf-8")
        num = lambda fmt, i: fmt % i
    sub = lambda s_, l: P[s_ - 1:s_ - 1 + l]
    rel = "delete a;" if release == "delete" else "for (i = 0; i < N; i++) a[i] = 0;"
    prog = """BEGIN {
  N = %d; M = %d; K = %d; L1 = %d; L2 = %d;
  P = %s;
  for (j = 0; j < K; j++) pre[j] = substr(P, 1 + j, L2);
  delete pre;
  for (i = 0; i < N; i++) a[i] = substr(P, 1 + (i %% 37), L1 - 3) sprintf(%s"%%03d", i);
  for (i = 0; i < N; i += 3) keep[i] = a[i];
  %s
  for (i = 0; i < M; i++) {
    b1[i] = substr(P, 2 + (i %% 29), L1 - 2) sprintf(%s"%%02d", i);
    b2[i] = substr(P, 3 + (i %% 31), L2);
    b3[i] = sprintf(%s"%%s%%02d", substr(P, 5 + i, L2 - 2), i);
    b4[i] = substr(P, 7 + i, L1);
  }
  for (i = 0; i < M; i++) {
    printf(%s"%%s\\n", b1[i]); printf(%s"%%s\\n", b2[i]); printf(%s"%%s\\n", b3[i]); printf(%s"%%s\\n", b4[i]);
    print length(b1[i]), length(b2[i]), length(b3[i]), length(b4[i]);
  }
  for (i = 0; i < N; i += 3) printf(%s"%%s\\n", keep[i]);
}
""" % (N, M, K, L1, L2, lit, B, rel, B, B, B, B, B, B, B)
    exp = b""
    for i in range(M):
        b1 = sub(2 + (i % 29), L1 - 2) + num("%02d", i)
        b2 = sub(3 + (i % 31), L2)
        b3 = sub(5 + i, L2 - 2) + num("%02d", i)
        b4 = sub(7 + i, L1)
        for v in (b1, b2, b3, b4):
            exp += enc(v) + b"\n"
        exp += ("%d %d %d %d\n" % (len(b1), len(b2), len(b3), len(b4))).encode()
    for i in range(0, N, 3):
        exp += enc(sub(1 + (i % 37), L1 - 3) + num("%03d", i)) + b"\n"
    return prog, exp


def cache_family(ctx, hawk, wdir):
    quick = ctx.tier == "quick"
    rng = ctx.rng
    cases = []
    Ns = [127, 128, 129, 130, 300] if quick else [100, 127, 128, 129, 130, 140, 300]
    for kind in ("mbs", "str"):
        for cls in (1, 2, 3, 14, 15):
            lo, hi = max(5, CACHE_UNIT * (cls - 1)), CACHE_UNIT * cls - 1          # lengths of class cls
            lo2, hi2 = CACHE_UNIT * cls, CACHE_UNIT * cls + CACHE_UNIT - 1          # lengths of the next class
            for n_i, N in enumerate(Ns):
                variants = [(lo, lo2), (hi, hi2), (hi, lo2), (lo, hi2)]
                for v_i, (L1, L2) in enumerate(variants if not quick else [variants[(n_i + cls) % 4]]):
                    for K in ([1] if quick else [0, 1, 3]):
                        release = "delete" if (quick and (n_i + cls) % 3) or (not quick and (v_i + K) % 2 == 0) else "reassign"
                        cases.append((kind, cls, N, L1, L2, K, 6, release))
    jobs = []
    for c in cases:
        prog, exp = cache_case(*c)
        pf = os.path.join(wdir, "cache_%s_c%d_n%d_%d_%d_k%d_%s.hawk" % (c[0], c[1], c[2], c[3], c[4], c[5], c[7]))
        open(pf, "w").write(prog)
        jobs.append((c, pf, prog, exp))

    def run_job(j):
        return hawk_run(hawk, ["-f", j[1]], size=len(j[2]))
    with ThreadPoolExecutor(max_workers=8) as ex:
        results = list(ex.map(run_job, jobs))
    hits = []
    for (c, pf, prog, exp), (rc, out, err) in zip(jobs, results):
        st = C.classify_rc(rc, err)
        if rc in (-9, 137):
            st = "HANG"
        if st == "ok" and out == exp:
            continue
        k = next((i for i in range(min(len(out), len(exp))) if out[i] != exp[i]), min(len(out), len(exp)))
        keepf = os.path.join(C.VERIF, "replay", "C15", "cache-%s-seed%d-%s" % (ctx.tier, ctx.seed, os.path.basename(pf)))
        os.makedirs(os.path.dirname(keepf), exist_ok=True)
        open(keepf, "w").write(prog)
        hits.append(("%s strings do not keep their content after cache churn: %d values of size class %d (length %d) alive at once and released by %s, %d of the next class "
                     "parked before, then fresh values of lengths %d and %d by concatenation / substr / sprintf: status %s; first difference at output byte %d: got %r expected %r" % (
                         "byte" if c[0] == "mbs" else "character", c[2], c[1], c[3], c[7], c[5], c[3], c[4], st, k, out[max(0, k - 8):k + 20], exp[max(0, k - 8):k + 20]),
                     "# replay: ./check C15 --replay %s\n# run: %s -f %s\n# expected output: the values computed by the same expressions in python (cache_case in vlib/props/c15.py)\n# %s\n" % (
                         keepf, hawk, keepf, err[-2500:].replace("\n", "\n# ")), None))
    return len(jobs), hits


# ----------------------------------------------------------------------------
# the other encodings and the bytes <-> text conversions of values at the language level
# ----------------------------------------------------------------------------
CONV_B2T = r"""BEGIN {
  while ((getbline x) > 0) {
    a = "" x; b = str::frommbs(x); c = str::frommbs(x, "utf8"); d = str::frommbs(x, "mb8"); e = str::frommbs(x, "utf16");
    f = str::frommbs(x, "nosuch"); g = sprintf("%s", x); h = x "";
    print length(a) "|" a; print length(b) "|" b; print length(c) "|" c; print length(d) "|" d; print length(e) "|" e;
    print length(f) "|" f; print length(g) "|" g; printf(@b"%d|%s\n", length(h), h); print hawk::typename(a) hawk::typename(d) hawk::typename(h);
  }
}"""
CONV_T2B = r"""{
  a = @b"" $0; b = str::tombs($0); c = str::tombs($0, "utf8"); d = str::tombs($0, "mb8"); e = str::tombs($0, "utf16"); f = str::tombs($0, "UTF8");
  printf(@b"%d|%s\n", length(a), a); printf(@b"%d|%s\n", length(b), b); printf(@b"%d|%s\n", length(c), c);
  printf(@b"%d|%s\n", length(d), d); printf(@b"%d|%s\n", length(e), e); printf(@b"%d|%s\n", length(f), f);
  g = str::frommbs(str::tombs($0, "utf16"), "utf16"); print (g == $0), hawk::typename(a) hawk::typename(d) hawk::typename(g);
}"""


def conv_family(ctx, hawk, wdir):
    """returns (#runs, impl_hits, corr_hits)"""
    rng = ctx.rng
    quick = ctx.tier == "quick"
    impl, corr = [], []
    nruns = 0

    def keep(name, data):
        k = os.path.join(C.VERIF, "replay", "C15", "conv-%s-seed%d-%s" % (ctx.tier, ctx.seed, name))
        os.makedirs(os.path.dirname(k), exist_ok=True)
        open(k, "wb").write(data)
        return k

    def where(out, exp):
        k = next((i for i in range(min(len(out), len(exp))) if out[i] != exp[i]), min(len(out), len(exp)))
        return "first difference at output byte %d: got %r expected %r" % (k, out[max(0, k - 10):k + 20], exp[max(0, k - 10):k + 20])

    # ---- bytes -> text ------------------------------------------------------------------------------------------
    blines = [b"A\xc3\xa9\xe2\x82\xacZ", b"A\xc3\xa9\xffZ\xe2\x82", b"\xe2\x82", b"\x80\xbf\xc0\x80", b"A\x00B\x00\xac\x20", b"A\x00B", bytes(range(0x20, 0x100)), b"", b"\xed\xa0\x80x",
              b"\x00\xd8\x41\x00", b"\xf0\x90\x80\x80"]
    for _ in range(12 if quick else 300):
        k = rng.random()
        if k < 0.4:
            l = b"".join(u8(rand_char(rng)) for _ in range(rng.randrange(1, 30)))
        elif k < 0.6:
            l = b"".join(enc_cm("utf16", dom_char(rng, "utf16")) for _ in range(rng.randrange(1, 30)))
        else:
            l = b"".join(rand_stream(rng, rng.randrange(1, 30), 0.4))
        blines.append(l.replace(b"\n", b"\x0b").rstrip(b"\r"))
    lines = []
    for l in blines:
        lines += ["dupb utf8 1 %s" % (l.hex() or "-"), "dupb mb8 1 %s" % (l.hex() or "-"), "dupb utf16 1 %s" % (l.hex() or "-")]
    mo = drv(ctx, lines)

    def chars_of(o):
        return p_chars(kv(o)["out"]) if o.startswith("ok ") else None
    exp_model = b""; exp_ref = b""; ref_complete = True
    for j, l in enumerate(blines):
        m8, mm, m16 = (chars_of(mo[3 * j + t]) for t in range(3))
        r8, rm, r16 = ref_decode_cm("utf8", l), ref_decode_cm("mb8", l), ref_decode_cm("utf16", l)

        def txt(cs):
            return ("%d|" % len(cs)).encode() + b"".join(u8(c) for c in cs) + b"\n"
        for model_cs, ref_cs in ((m8, r8), (m8, r8), (m8, r8), (mm, rm), (m16, r16), ([], []), (m8, r8)):
            exp_model += txt(model_cs if model_cs is not None else [])
            exp_ref += txt(ref_cs) if ref_cs is not None else b"\x00?\n"
        tail = ("%d|" % len(l)).encode() + l + b"\nstrstrmbs\n"
        exp_model += tail; exp_ref += tail
    data = b"".join(l + b"\n" for l in blines)
    pf = os.path.join(wdir, "conv_b2t.hawk"); open(pf, "w").write(CONV_B2T)
    rc, out, err = hawk_run(hawk, ["-f", pf], stdin_bytes=data, size=len(data)); nruns += 1
    st = C.classify_rc(rc, err)
    # oracle: the lines whose reference is known (well-formed under the manager) must equal it; the rest is the model's business
    ol, rl = out.split(b"\n"), exp_ref.split(b"\n")
    bad = None
    if st != "ok":
        bad = "status %s" % st
    elif len(ol) != len(rl):
        bad = "%d output lines, expected %d" % (len(ol), len(rl))
    else:
        for k, (a, b) in enumerate(zip(ol, rl)):
            if b != b"\x00?" and a != b:
                bad = "output line %d (input line %d): got %r, reference %r" % (k + 1, k // 9 + 1, a[:60], b[:60])
                break
    if bad:
        impl.append(("bytes -> text conversions of values (\"\" x, str::frommbs with and without an encoding name, sprintf %%s) : %s" % bad,
                     "# run: %s -f <prog> < %s\n%s\n# %s\n" % (hawk, keep("b2t.bin", data), CONV_B2T, err[-2000:].replace("\n", "\n# ")), cli_sig(err)))
    elif out != exp_model:
        corr.append(("bytes -> text conversions of ill-formed byte strings differ from the model's (theorems bytes_to_text_*): " + where(out, exp_model),
                     "# run: %s -f <prog> < %s\n%s\n" % (hawk, keep("b2t.bin", data), CONV_B2T)))

    # ---- text -> bytes (characters every manager carries: below 256) ----------------------------------------------
    tlines = [[0x41, 0xE9, 0xFF, 0x80, 0x20, 0x7F], [0xE9], list(range(0x20, 0x100))]
    for _ in range(8 if quick else 200):
        tlines.append([rng.choice([rng.randrange(0x20, 0x100), 0x41, 0xE9]) for _ in range(rng.randrange(1, 60))])
    tlines = [[c for c in l if c not in (0x0A, 0x0D)] or [0x41] for l in tlines]
    data = b"".join(b"".join(u8(c) for c in l) + b"\n" for l in tlines)
    exp = b""
    for l in tlines:
        b8 = b"".join(u8(c) for c in l); bm = bytes(l); b16 = b"".join(bytes([c, 0]) for c in l)
        for v in (b8, b8, b8, bm, b16, b""):
            exp += ("%d|" % len(v)).encode() + v + b"\n"
        exp += b"1 mbsmbsstr\n"
    pf = os.path.join(wdir, "conv_t2b.hawk"); open(pf, "w").write(CONV_T2B)
    rc, out, err = hawk_run(hawk, ["-f", pf], stdin_bytes=data, size=len(data)); nruns += 1
    st = C.classify_rc(rc, err)
    if st != "ok" or out != exp:
        impl.append(("text -> bytes conversions of values (@b\"\" s, str::tombs with and without an encoding name) and back: status %s; %s" % (st, where(out, exp)),
                     "# run: %s -f <prog> < %s\n%s\n# %s\n" % (hawk, keep("t2b.bin", data), CONV_T2B, err[-2000:].replace("\n", "\n# ")), cli_sig(err)))
    # a character the manager does not carry: rejected (run error), never converted to something else, no sanitizer report
    for prog in ('BEGIN { x = str::tombs("A\\u20acB", "mb8"); printf(@b"[%s]\\n", x); }', 'BEGIN { x = "A\\u0100"; y = str::tombs(x, "mb8"); print length(y); }'):
        rc, out, err = hawk_run(hawk, [prog]); nruns += 1
        st = C.classify_rc(rc, err)
        if st not in ("ok",) and not st.startswith("EXIT"):
            impl.append(("str::tombs of a character the mb8 manager does not carry: status %s" % st, "# run: %s '%s'\n# %s\n" % (hawk, prog, err[-1500:].replace("\n", "\n# ")), cli_sig(err)))
        elif rc == 0 and (b"[A" in out or out.strip().isdigit()):
            impl.append(("str::tombs(\"...\", \"mb8\") converted a character above 255 instead of failing: %r" % out[:60], "# run: %s '%s'\n" % (hawk, prog), None))

    # ---- consoles opened with another encoding -----------------------------------------------------------------------
    jobs = []
    for cm in ("utf16", "mb8"):
        for t in range(2 if quick else 12):
            ls = []
            for _ in range(rng.randrange(3, 40)):
                cs = [dom_char(rng, cm) for _ in range(rng.randrange(0, 80))]
                cs = [c for c in cs if c not in (0x0A,)]
                if cs and cs[-1] == 0x0D:
                    cs[-1] = 0x41
                ls.append(cs)
            if t == 0:
                ls.append([c for c in range(0x20, 0x100)] if cm == "mb8" else [0x0A0A, 0x010A, 0x0A00 + 0x41, 0xFFFF, 0xD7FF, 0xE000, 0x20AC])
            data = b"".join(b"".join(enc_cm(cm, c) for c in l) + enc_cm(cm, 0x0A) for l in ls)
            lens = b"".join(b"".join(enc_cm(cm, ord(ch)) for ch in "%d\n" % len(l)) for l in ls)
            path = os.path.join(wdir, "enc_%s_%d.bin" % (cm, t)); open(path, "wb").write(data)
            jobs.append((cm, "file%d" % t, ["--console-encoding=" + cm, "{print}", path], None, data, data))
            jobs.append((cm, "len%d" % t, ["--console-encoding=" + cm, "{print length($0)}", path], None, data, lens))
            if t < (1 if quick else 4) and len(data) > 4:
                cuts = sorted(set(rng.randrange(1, len(data)) | 1 for _ in range(3)))      # odd offsets: inside a utf16 unit
                chs = [data[a:b] for a, b in zip([0] + cuts, cuts + [len(data)]) if data[a:b]]
                jobs.append((cm, "pipe%d" % t, ["--console-encoding=" + cm, "{print}"], chs, data, data))

    def run_job(j):
        cm, name, args, chs, data, exp = j
        return hawk_run(hawk, args, stdin_chunks=chs, size=len(data)) if chs else hawk_run(hawk, args, size=len(data))
    with ThreadPoolExecutor(max_workers=8) as ex:
        results = list(ex.map(run_job, jobs))
    nruns += len(jobs)
    for (cm, name, args, chs, data, exp), (rc, out, err) in zip(jobs, results):
        st = C.classify_rc(rc, err)
        if st == "ok" and out == exp:
            continue
        sig = cli_sig(err)
        if cm == "utf16" and chs and st == "ok":
            # is this what the unrepaired decoder does with these read boundaries?
            # (reads may merge adjacent writes when the machine is busy: try every merging of neighbours)
            import itertools
            cands = []
            for mask in itertools.product([0, 1], repeat=len(chs) - 1):
                m = [chs[0]]
                for bit, c in zip(mask, chs[1:]):
                    if bit:
                        m[-1] = m[-1] + c
                    else:
                        m.append(c)
                cands.append(m)
            for o2 in drv(ctx, ["ident 2048 iUK 2048 %s" % fmt_chunks(m) for m in cands]):
                mo2 = p_bytes(kv(o2)["out"])
                if out in (mo2, mo2 + enc_cm("utf16", 0x0A)):      # print ends a last record that lost its newline
                    sig = SIG_U16_INCOMPLETE
                    break
        impl.append(("hawk %s '%s' on well-formed %s text (%d bytes%s) does not reproduce it: status %s; %s" % (args[0], args[1], cm, len(data), ", piped in %d chunks at odd offsets" % len(chs) if chs else "", st, where(out, exp)),
                     "# run: %s %s %s\n# input kept at %s%s\n# %s\n" % (hawk, args[0], "'%s'" % args[1], keep("enc-%s-%s.bin" % (cm, name), data), "\n# chunks: " + fmt_chunks(chs)[:1500] if chs else "", err[-1500:].replace("\n", "\n# ")), sig))
    return nruns, impl, corr

# ----------------------------------------------------------------------------
THEOREMS_HINT = "theorems of HawkModel/Props/C15.lean speak about HawkModel/Utf8.lean and HawkModel/Tio.lean (decode_encode, encode_decode, decode_in_bounds, tio_read_chunk_independent, tio_write_roundtrip, …)"


def run(ctx):
    from extract import utf8_table
    trans_err = None
    try:
        info = utf8_table.generate()
        ctx.log("translator: %d rows, hawk_uch_t %d bits, changed=%s" % (len(info["rows"]), info["uch_bits"], info["changed"]))
    except utf8_table.TranslateError as e:
        # fail closed, but go on with the table generated last so that a concrete failing input can still be found
        trans_err = str(e)
        info = dict(rows=[], uch_bits=0, changed=False)
        ctx.log("translator FAILED: %s" % trans_err)
    proof = C.prove(ctx, "HawkModel.Props.C15", leanchecker=(ctx.tier == "thorough"))
    from .. import ctie
    tie = ctie.tie(ctx, "C15", leanchecker=(ctx.tier == "thorough"))   # byte expressions of hawk_uc_to_utf8: translated C = model
    libdir = C.build_libhawk(ctx)
    exe = C.cc_harness(ctx, os.path.join(C.VERIF, "harness", "utf8_h.c"), link_lib=libdir)
    # corpus first
    lines = []
    cdir = os.path.join(C.VERIF, "corpus", "C15")
    if os.path.isdir(cdir):
        for f in sorted(os.listdir(cdir)):
            lines += [l.strip() for l in open(os.path.join(cdir, f)) if l.strip() and not l.startswith("#")]
    ncorpus = len(lines)
    for name, g in [("codec", gen_codec), ("conv", gen_conv), ("tio", gen_tio), ("write", gen_write), ("cmgr", gen_cmgr)]:
        t = time.time()
        ls = g(ctx)
        lines += ls
        ctx.log("generated %d %s ops in %.1fs" % (len(ls), name, time.time() - t))
    t = time.time()
    drv(ctx, ["enc 41 1"])   # build the driver once before fanning out
    nb = 8
    step = (len(lines) + nb - 1) // nb
    slices = [(a, min(len(lines), a + step)) for a in range(0, len(lines), step)]

    def run_slice(ab):
        a, b = ab
        return run_c(ctx, exe, lines[a:b]), drv(ctx, lines[a:b])
    with ThreadPoolExecutor(max_workers=8) as ex:
        res = list(ex.map(run_slice, slices))
    cout, mout, aborts, skipped, notrun = [], [], [], set(), 0
    for (a, b), ((co, ab, sk, nr), mo) in zip(slices, res):
        cout += co; mout += mo + [None] * (b - a - len(mo))
        aborts += [(a + k, st, ce, sig) for k, st, ce, sig in ab]
        skipped |= {a + k for k in sk}; notrun += nr
    ctx.log("ran %d ops on both sides in %.1fs (%d harness aborts, %d ops skipped as predicted repeats of a recorded defect, %d not run)" % (
        len(lines), time.time() - t, len(aborts), len(skipped), notrun))
    dist = {}
    for l in lines:
        k = l.split()[0]
        dist[k] = dist.get(k, 0) + 1

    # ---- (1) the property itself, on the implementation's own output ------------------------------------
    reported = 0
    seen_sig = set()
    for k, status, cerr, sig in aborts:
        if (sig and sig in seen_sig) or reported >= 6:
            continue
        seen_sig.add(sig)

        def same_abort(l, sig=sig):
            co, ab, _, _ = run_c(ctx, exe, [l])
            return bool(ab) and ab[0][3] == sig
        small = shrink_tio(ctx, exe, lines[k], same_abort) if status == "ASAN" else lines[k]
        ctx.problem("impl", "the real code aborts (%s) on op %r" % (status, small[:300]),
                    "# feed to harness/utf8_h.c (built against the repo) and to `hawkdrv utf8`\n" + small + "\n# sanitizer:\n" + cerr[-3000:] + "\n",
                    found_input=True, sig=sig)
        reported += 1
    if notrun:
        ctx.problem("impl", "too many harness aborts (%d); %d ops were not run" % (len(aborts), notrun), "", found_input=False)
    hits = []
    for i, l in enumerate(lines):
        m = oracle_line(l, cout[i])
        if m:
            hits.append((i, m))
    hits += oracle_groups(lines, cout)
    hits.sort()
    ksig = known_sigs(ctx, lines, cout, [i for i, _ in hits])
    report = [(i, m) for i, m in hits if i not in ksig][:3]
    for sg in sorted(set(ksig.values())):
        report.append(next((i, m) for i, m in hits if ksig.get(i) == sg))
    for i, m in report:
        def still(l, want=ksig.get(i)):
            co, ab, mo, om = one(ctx, exe, l)
            if om is None:
                return False
            return known_sigs(ctx, [l], [co], [0]).get(0) == want
        def still_unused(l):
            co, ab, mo, om = one(ctx, exe, l)
            return om is not None
        small = shrink_tio(ctx, exe, lines[i], still) if not m.startswith("the same") else lines[i]
        co, ab, mo, om = one(ctx, exe, small)
        ctx.problem("impl", "op %r breaks the property on the real code: %s" % (small[:300], om or m),
                    "# feed to harness/utf8_h.c (built against the repo) and to `hawkdrv utf8`\n" + small + "\n# impl:\n" + str(co) + "\n# model:\n" + mo + "\n",
                    found_input=True, sig=ksig.get(i))
    t = time.time()
    ncli, cli_impl, cli_corr = language_level(ctx, libdir)
    ctx.log("language level: %d runs in %.1fs" % (ncli, time.time() - t))
    seen_cli = set()
    for what, rtxt, sig in cli_impl:
        if (sig in seen_cli and sig) or len(seen_cli) >= 5:
            continue
        seen_cli.add(sig or what)
        ctx.problem("impl", what, rtxt, found_input=True, sig=sig)
    oracle_hits = len(hits) + len(cli_impl) + len(aborts)

    # ---- (2) correspondence with the Lean model --------------------------------------------------------------
    ndiff = 0
    hitset = {i for i, _ in hits}
    diffs = [i for i, (a, b) in enumerate(zip(cout, mout)) if a is not None and i not in hitset and a != b]
    dsig = known_sigs(ctx, lines, cout, diffs)
    for sg in sorted(set(dsig.values())):
        i = next(i for i in diffs if dsig.get(i) == sg)
        ctx.problem("impl", "op %r: the code does what the model of the unrepaired utf16.c does: impl %r vs model %r" % (lines[i][:200], str(cout[i])[:200], str(mout[i])[:200]),
                    "# feed to harness/utf8_h.c and to `hawkdrv utf8`\n" + lines[i] + "\n# impl:\n" + str(cout[i]) + "\n# model:\n" + str(mout[i]) + "\n", found_input=True, sig=sg)
    for i, (a, b) in enumerate(zip(cout, mout)):
        if a is None or i in hitset or a == b or i in dsig:
            continue
        ndiff += 1
        if ndiff <= 2:
            def differs(l):
                co, ab, mo, om = one(ctx, exe, l)
                return co is not None and co != mo
            small = shrink_tio(ctx, exe, lines[i], differs)
            co, ab, mo, om = one(ctx, exe, small)
            ctx.problem("corr", "the code no longer matches the Lean model although the property oracle is clean on this op: %r: impl %r vs model %r; %s" % (
                small[:200], str(co)[:200], mo[:200], THEOREMS_HINT),
                "# first differing op (feed to harness/utf8_h.c and to `hawkdrv utf8`)\n" + small + "\n# impl:\n" + str(co) + "\n# model:\n" + mo + "\n# " + THEOREMS_HINT + "\n",
                found_input=False)
    if len([m for m in mout if m is not None]) != len(lines):
        ctx.problem("corr", "driver produced %d lines for %d ops" % (len(mout), len(lines)), "", found_input=False)
    for what, rtxt in cli_corr[:2]:
        ctx.problem("corr", what + "; " + THEOREMS_HINT, rtxt, found_input=False)
    evaluations = len(lines) + ncli
    if trans_err:
        ctx.problem("corr", "translator extract/utf8_table.py no longer understands lib/utf8.c (%s); the generated table and the theorems about it may not describe this code" % trans_err,
                    trans_err + "\n", found_input=False)

    def nontrivial(l):
        w = l.split()
        if w[0] == "tior":
            chs = [] if w[4] == "." else w[4].split("/")
            data = b"".join(bytes.fromhex(c) for c in chs if c != "-")
            return any(b >= 0x80 for b in data) and (len(chs) > 1 or len(data) > int(w[1]) or len(data) > int(w[3]))
        if w[0] == "tiow":
            return any(int(c, 16) >= 0x80 for sg in w[3].split("/") if sg != "-" for c in sg.split(",")) and len(w[3]) > 2 * int(w[1])
        if w[0] == "dec":
            return len(w[1]) >= 4 and int(w[1][:2], 16) >= 0x80
        if w[0] == "tiox":
            sc = w[3].split(",")
            return any(t not in ("-", "f", "0") for t in sc) and ("f" in sc or "0" in sc)
        if w[0] == "prt":
            return w[1] != "-"
        return False
    nontriv = len({l for l in lines if nontrivial(l)})
    samples = [l[:160] for l in (lines[ncorpus:ncorpus + 2] + [x for x in lines if x.startswith("tior")][5:8] + [x for x in lines if x.startswith("tiow")][:1])]
    return C.finish(ctx, [proof] + tie, evaluations, nontriv,
                    "ops = corpus + exhaustive (every BMP value encoded/decoded/truncated, all 1- and 2-byte sequences, 3-byte grid, overlong/4/5/6-byte/FE/FF forms) + seeded random "
                    "conversion calls + tio read runs (all 2-chunk splits of seed streams, a multibyte character at every offset around the staging-buffer size, the 2048/2048 sio/rio sizes, "
                    "random streams each under two schedules (chunking x capacity x read size), with and without IGNOREECERR, well- and ill-formed) + tio write runs; decided first by a "
                    "model-independent oracle (python's UTF-8 codec as reference for well-formed BMP text, byte identity, equal characters under two schedules, bounds, determinism, sanitizer/hang), "
                    "then line by line against the Lean model (every call's result and the staging cursor/length/status/unread bytes); language level: identity / re-join / length programs over every "
                    "BMP scalar at several alignments, edge placements, ill-formed files, piped chunks vs file, byte-string programs over all 256 byte values, the many-strings family around the val.c cache size classes (byte and character strings); write side against a scripted handler (accept k / accept nothing / fail at call j): every script of length <= 3 over a 5-reply "
                    "alphabet x call lists + random (`tiox`: return values, outbuf_len, staged bytes, handler calls, accepted slices) and print on the std console with write(2) interposed in-process (`prt`); "
                    "oracle there: accepted + staged = whole text of calls that reported success and a prefix for calls that reported failure, nothing twice, a final flush completes. "
                    "distinct_nontrivial = distinct tio reads whose "
                    "stream has a byte >= 0x80 and is split by chunks, the staging capacity or the read size, + distinct tio writes with multibyte characters beyond twice the capacity + distinct "
                    "decodes of >= 2 bytes with a non-ASCII lead",
                    samples, extra_cov=dict(op_distribution=dist, harness_aborts=len(aborts), skipped_predicted_repeats=len(skipped), oracle_hits=oracle_hits,
                                            differing_ops=ndiff, cli_runs=ncli, table_rows=len(info["rows"])),
                    trusted=["utf8.c/utl.c/tio.c loops modelled by hand in HawkModel/Utf8.lean and HawkModel/Tio.lean; only utf8_table[] is machine-translated (extract/utf8_table.py checks the loop constants textually)",
                             "byte-string value paths (val.c, run.c concat, fnc.c substr, fmt %s, rio byte reads) are identity on lists in the model and tied only by the language-level runs",
                             "the value caches of val.c (str/mbs block caches, 16 size classes x 128 parked blocks) are not modelled: the many-strings family (N in 100..300 values per size class alive at once, released together, fresh values of the same and the next class by concatenation/substr/sprintf, compared with python under ASan) ties them by CLI runs only",
                             "output handler modelled as a reply script (accept 1..offered bytes / 0 / fail); a handler claiming more than it was offered is not modelled; print's segmentation into value + ORS writes (rio.c) is assumed by the `prt` stage and checked only by correspondence"],
                    assumptions=["hawk_uch_t is the unsigned 16-bit type of the checked build (-fshort-wchar); default cmgr utf8",
                                 "staging capacities >= HAWK_TIO_MININBUFCAPA/MINOUTBUFCAPA as hawk_tio_attachin/out enforce",
                                 "a CR directly before a newline belongs to the line terminator (rio.c), so generated lines never end in CR"])


def replay(ctx, path):
    libdir = C.build_libhawk(ctx)
    if path.endswith(".hawk"):
        # a kept many-strings program: cache-<tier>-seed<n>-cache_<kind>_c<cls>_n<N>_<L1>_<L2>_k<K>_<release>.hawk
        import re
        m = re.search(r"cache_(mbs|str)_c(\d+)_n(\d+)_(\d+)_(\d+)_k(\d+)_(delete|reassign)\.hawk$", path)
        if not m:
            print("not a many-strings program kept by this check:", path)
            return 2
        prog, exp = cache_case(m.group(1), int(m.group(2)), int(m.group(3)), int(m.group(4)), int(m.group(5)), int(m.group(6)), 6, m.group(7))
        rc, out, err = hawk_run(os.path.join(libdir, "hawk"), ["-f", path], size=len(prog))
        st = C.classify_rc(rc, err)
        print("status:", st, "| output equals the values computed in python:", out == exp)
        print(err[-2500:])
        return 0 if (st == "ok" and out == exp) else 1
    if path.endswith(".bin"):
        data = open(path, "rb").read()
        f = kv(drv(ctx, ["ident 2048 i 2048 %s" % fmt_chunks([data])])[0])
        rc, out, err = hawk_run(os.path.join(libdir, "hawk"), ["{print}", path], size=len(data))
        st = C.classify_rc(rc, err)
        r = ref_decode(data)
        print("status:", st, "| equals input:", out == data, "(well-formed BMP input: %s)" % (r is not None), "| equals model:", out == p_bytes(f["out"]))
        print(err[-2000:])
        return 0 if (st == "ok" and out == p_bytes(f["out"]) and (r is None or out == data)) else 1
    exe = C.cc_harness(ctx, os.path.join(C.VERIF, "harness", "utf8_h.c"), link_lib=libdir)
    lines = []
    for l in open(path):
        l = l.strip()
        if l.startswith("# impl:") or l.startswith("# sanitizer:"):
            break
        if l and not l.startswith("#"):
            lines.append(l)
    co, ab, _, _ = run_c(ctx, exe, lines)
    mo = drv(ctx, lines)
    bad = bool(ab)
    for i, l in enumerate(lines):
        om = oracle_line(l, co[i])
        print("%s\n  impl  : %s\n  model : %s\n  oracle: %s" % (l[:200], co[i] if co[i] is not None else "<aborted, see below>", mo[i] if i < len(mo) else "<none>",
                                                                om or ("clean" if co[i] is not None else "sanitizer/hang")))
        bad = bad or co[i] != mo[i] or om is not None
    for k, st, ce, sig in ab:
        print("abort at op %d: %s %s\n%s" % (k, st, sig or "", ce[-1500:]))
    return 1 if bad else 0
