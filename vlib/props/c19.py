"""C19 — sparse arrays (lib/arr.c): proof on HawkModel.Arr + correspondence with the real code."""
import os, itertools, time
from .. import common as C
from .. import ctie

IDX_POOL = [0, 1, 2, 3, 63, 64, 65, 127, 128, 129, 255, 256, 1000, 1000000]
ORCS = ["-"] * 12 + ["f", "sf", "sff", "sfff", "ss", "fs", "sfs"]


def gen_history(rng, n, big=True):
    """one 'new' followed by n ops; indices drawn around size/capacity edges"""
    lines = ["new"]
    size_guess = 0
    for _ in range(n):
        k = rng.random()
        pool = IDX_POOL if big else IDX_POOL[:8]
        idx = rng.choice(pool + [size_guess, size_guess + 1, max(0, size_guess - 1), rng.randrange(0, 70)])
        if rng.random() < 0.08 and big:
            idx = rng.choice([2 * 64, 4 * 64 + 1, 1023, 1024, 4096, 70000])
        v = rng.randrange(0, 50)
        o = rng.choice(ORCS)
        if k < 0.30:
            lines.append("upsert %d %d %s" % (idx, v, o)); size_guess = max(size_guess, idx + 1)
        elif k < 0.50:
            lines.append("insert %d %d %s" % (idx, v, o)); size_guess = max(size_guess + 1, idx + 1)
        elif k < 0.62:
            lines.append("update %d %d %s" % (idx, v, o))
        elif k < 0.76:
            c = rng.choice([0, 1, 1, 2, 3, size_guess, 10 ** 7])
            lines.append("delete %d %d" % (idx, c)); size_guess = max(0, size_guess - min(c, 3))
        elif k < 0.86:
            lines.append("uplete %d %d" % (idx, rng.choice([0, 1, 1, 2, size_guess, 10 ** 7])))
        elif k < 0.89:
            lines.append("spush %d %s" % (v, o)); size_guess += 1
        elif k < 0.91:
            lines.append("spop"); size_guess = max(0, size_guess - 1)
        elif k < 0.94:
            lines.append("clear"); size_guess = 0
        else:
            lines.append("setcapa %d %s" % (rng.choice([0, 1, 64, 65, 128, size_guess, size_guess // 2, 2000]), rng.choice(["-", "-", "f"])))
    return lines


W = 2 ** 64
MAXCAPA = (W - 1) // 8
FAR = [2 ** 32, 2 ** 40 + 1, 2 ** 60, 2 ** 60 + 1, MAXCAPA - 1, MAXCAPA, MAXCAPA + 1, 2 ** 62, 2 ** 63 - 1, 2 ** 63, W - 2, W - 1]
REFUSE_ALL = "s" + "f" * 80      # slot granted, every table request refused (the retry loop makes at most 66)


def gen_extreme(rng, n):
    """machine-word extremes: positions, counts and capacities near 2^61 (largest table that fits the word), 2^63 and
    2^64. A table that large cannot exist, so every growth request is answered by a scripted refusal (or refused by
    arr.c itself before the allocator is asked); counts and indices of delete/uplete/update need no memory at all."""
    lines = ["new"]
    for _ in range(rng.randrange(0, 6)):
        lines.append("upsert %d %d -" % (rng.choice([0, 1, 2, 5, 63, 64, 65, 127, 128, 1000]), rng.randrange(0, 50)))
    size_guess = 1001
    for _ in range(n):
        k = rng.random()
        far = rng.choice(FAR)
        idx = rng.choice([0, 1, 2, 5, 64, 128, 1000, 1001])
        if k < 0.22:
            lines.append("%s %d %d %s" % (rng.choice(["insert", "upsert"]), far, rng.randrange(0, 50), rng.choice([REFUSE_ALL, REFUSE_ALL, "f", "sf" + "f" * 70])))
        elif k < 0.30:
            lines.append("update %d %d -" % (far, rng.randrange(0, 50)))
        elif k < 0.55:
            lines.append("uplete %d %d" % (idx, rng.choice([W - 1, W - 1 - idx, W - idx, W - 2, 2 ** 63, 2 ** 63 - idx, far])))
        elif k < 0.75:
            lines.append("delete %d %d" % (idx, rng.choice([W - 1, W - 1 - idx, W - idx, W - 2, 2 ** 63, 2 ** 63 - idx, far])))
        elif k < 0.80:
            lines.append("%s %d %d" % (rng.choice(["delete", "uplete"]), far, rng.choice([0, 1, W - 1])))
        elif k < 0.88:
            lines.append("setcapa %d %s" % (far, "f"))
        else:
            lines.append("upsert %d %d -" % (rng.choice([0, 1, 2, 5, 63, 64, 65, 127, 128, 1000]), rng.randrange(0, 50)))
    return lines


def gen_retry(rng):
    """the lower-the-capacity-and-retry loop of hawk_arr_insert: the first k table requests refused, then granted —
    the capacity obtained shows in the dump (c=), so the retry sequence itself is compared with the model"""
    lines = ["new"]
    if rng.random() < 0.7:
        lines.append("upsert %d 1 -" % rng.choice([0, 10, 63, 64, 100]))
    for _ in range(rng.randrange(1, 4)):
        pos = rng.choice([65, 100, 127, 128, 129, 200, 1000, 5000, 100000])
        lines.append("%s %d %d s%ss" % (rng.choice(["insert", "upsert"]), pos, rng.randrange(0, 50), "f" * rng.randrange(0, 22)))
    return lines


def gen_heap(rng, n):
    lines = ["new"]
    sz = 0
    for _ in range(n):
        k = rng.random()
        if k < 0.5 or sz == 0:
            lines.append("hpush %d" % rng.randrange(0, 40)); sz += 1
        elif k < 0.75:
            lines.append("hdel %d" % rng.randrange(0, sz + 1)); sz = max(0, sz - 1)
        else:
            lines.append("hupd %d %d" % (rng.randrange(0, sz + 1), rng.randrange(0, 40)))
    return lines


def gen_pheap(rng, n):
    """heap whose items carry a position back-pointer (heap_pos_offset set): push / delete-at / pop / update-at;
    keys from a small range so that equal keys (no move, no replacement) are frequent"""
    lines = ["new"]
    sz = 0
    hi = rng.choice([4, 10, 40, 1000])
    for _ in range(n):
        k = rng.random()
        if k < 0.45 or sz == 0:
            lines.append("ppush %d" % rng.randrange(0, hi)); sz += 1
        elif k < 0.62:
            lines.append("pdel %d" % rng.choice([0, sz - 1, sz, rng.randrange(0, sz + 1)])); sz = max(0, sz - 1)
        elif k < 0.72:
            lines.append("ppop"); sz = max(0, sz - 1)
        else:
            lines.append("pupd %d %d" % (rng.choice([0, sz - 1, sz, rng.randrange(0, sz + 1)]), rng.randrange(0, hi)))
    return lines


def exhaustive_pheap():
    """all push orders of 4 distinct keys followed by every (delete-at | update-at to a smaller/equal/larger key) —
    every sift_up / sift_down path of a 4-item heap, with back-pointers"""
    out = []
    for perm in itertools.permutations([1, 3, 5, 7]):
        for tail in [["pdel %d" % i] for i in range(5)] + [["pupd %d %d" % (i, v)] for i in range(4) for v in (0, 4, 8, perm[0])] + [["ppop", "ppop"]]:
            out.append("new")
            out.extend("ppush %d" % k for k in perm)
            out.extend(tail)
    return out


def exhaustive_small():
    """all op sequences of length 3 over a small alphabet (deterministic, runs in every tier)"""
    alpha = ["upsert 0 1 -", "upsert 2 2 -", "upsert 130 3 -", "insert 0 4 -", "insert 1 5 -", "insert 65 6 -",
             "update 0 7 -", "update 1 1 -", "delete 0 1", "delete 1 0", "delete 0 2", "uplete 0 1", "uplete 1 5",
             "clear", "setcapa 1 -", "insert 3 8 sf"]
    out = []
    for seq in itertools.product(alpha, repeat=3):
        out.append("new")
        out.extend(seq)
    return out


def nontrivial_signature(block):
    """a history is non-trivial if it contains growth beyond 2x capacity or a shifting delete/insert on a non-empty array"""
    far = any(l.split()[0] in ("upsert", "insert") and int(l.split()[1]) >= 128 for l in block)
    shift = any(l.startswith("delete") and l.split()[2] != "0" for l in block) and any(l.startswith("insert") for l in block)
    return far or shift


def split_blocks(lines):
    blocks, cur = [], []
    for l in lines:
        if l == "new" and cur:
            blocks.append(cur); cur = []
        cur.append(l)
    if cur:
        blocks.append(cur)
    return blocks


def parse_dump(line):
    """'r=.. e=.. s=N t=N c=N [..]' -> (ret, size, tally, slots)"""
    parts = line.split(" ")
    ret = parts[0][2:]
    size = int(parts[2][2:]); tally = int(parts[3][2:])
    body = line[line.index("[") + 1:line.rindex("]")]
    slots = []
    for tok in [x for x in body.split(",") if x]:
        if tok.startswith("_x"):
            slots.extend([None] * int(tok[2:]))
        else:
            slots.append(int(tok))
    return ret, size, tally, slots


def oracle(lines, cout):
    """The English property evaluated directly on the implementation's dumps, independently of the Lean model:
    a plain python list is the ideal array. Returns (index, message) of the first op whose result breaks the
    property, or None. (The impl's own success/failure report is followed: allocation outcomes are its business.)"""
    shadow = []
    heap = []
    prev_h = []
    pheap = []
    prev_p = []
    for i, l in enumerate(lines):
        if i >= len(cout):
            return (i, "no output for this op (crash or hang)")
        o = cout[i]
        if o == "HANG":
            return (i, "call did not return")
        w = l.split()
        if w[0] == "new":
            shadow, heap, prev_h, pheap, prev_p = [], [], [], [], []
            continue
        if o == "bad-op":
            continue
        try:
            if w[0] in ("ppush", "pdel", "ppop", "pupd"):
                if "word-size-not-modelled" in o:
                    return (i, "the harness was built with a word or pointer size the model does not describe")
                if o.startswith("offset-not-kept"):
                    return (i, "hawk_arr_getheapposoffset does not return what hawk_arr_setheapposoffset stored")
                body = o[o.index("[") + 1:o.index("]")]
                items = [x.strip().split(":") for x in body.split(",") if x.strip()]
                if any(a == "?" for a, b in items):
                    return (i, "heap has an empty slot below its size: %s" % body)
                pk = [int(a) for a, b in items]
                pp = [int(b) for a, b in items]
                if w[0] == "ppush":
                    pheap = pheap + [int(w[1])]
                elif w[0] in ("pdel", "ppop"):
                    k = int(w[1]) if w[0] == "pdel" else 0
                    if k < len(prev_p):
                        pheap = list(pheap); pheap.remove(prev_p[k])
                elif w[0] == "pupd":
                    k = int(w[1])
                    if k < len(prev_p):
                        pheap = list(pheap); pheap.remove(prev_p[k]); pheap.append(int(w[2]))
                prev_p = pk
                if sorted(pk) != sorted(pheap):
                    return (i, "heap contents %s are not the expected multiset %s" % (pk, sorted(pheap)))
                if any(pk[j] > pk[(j - 1) // 2] for j in range(1, len(pk))):
                    return (i, "heap order broken: %s" % pk)
                if any(pp[j] != j for j in range(len(pp))):
                    return (i, "position back-pointer wrong: items (key:pos) %s — some item does not record the slot it is in" % body)
                continue
            if w[0][0] == "h":
                body = o[o.index("[") + 1:o.index("]")]
                h = [int(x) for x in body.split(",") if x.strip()]
                if w[0] == "hpush":
                    heap = heap + [int(w[1])]
                elif w[0] == "hdel":
                    k = int(w[1])
                    if k < len(prev_h):
                        heap = list(heap); heap.remove(prev_h[k])
                elif w[0] == "hupd":
                    k = int(w[1])
                    if k < len(prev_h):
                        heap = list(heap); heap.remove(prev_h[k]); heap.append(int(w[2]))
                prev_h = h
                if sorted(h) != sorted(heap):
                    return (i, "heap contents %s are not the expected multiset %s" % (h, sorted(heap)))
                if any(h[j] > h[(j - 1) // 2] for j in range(1, len(h))):
                    return (i, "heap order broken: %s" % h)
                continue
            ret, size, tally, slots = parse_dump(o)
        except Exception as e:
            return (i, "unparsable impl output %r" % o[:100])
        ok = ret not in ("ENOMEM", "EINVAL", "EBUFFULL", "NULL", "E?")
        if w[0] == "spush":
            w = ["insert", str(len(shadow)), w[1]]
        elif w[0] == "spop":
            w = ["delete", str(max(0, len(shadow) - 1)), "1"]
            ret = "1" if shadow else "0"
        if w[0] in ("insert", "upsert", "update") and ok:
            pos, v = int(w[1]), int(w[2])
            if w[0] == "update" or (w[0] == "upsert" and pos < len(shadow)):
                if pos >= len(shadow):
                    return (i, "update beyond size reported success")
                shadow[pos] = v
            elif pos >= len(shadow):
                shadow = shadow + [None] * (pos - len(shadow)) + [v]
            else:
                shadow = shadow[:pos] + [v] + shadow[pos:]
            if ret != str(pos):
                return (i, "returned %s, expected position %d" % (ret, pos))
        elif w[0] == "delete":
            idx, c = int(w[1]), int(w[2])
            n = 0 if idx >= len(shadow) else min(c, len(shadow) - idx)
            shadow = shadow[:idx] + shadow[idx + n:]
            if ret != str(n):
                return (i, "delete returned %s, expected %d" % (ret, n))
        elif w[0] == "uplete":
            idx, c = int(w[1]), int(w[2])
            n = 0 if idx >= len(shadow) else min(c, len(shadow) - idx)
            shadow = shadow[:idx] + [None] * n + shadow[idx + n:]
        elif w[0] == "clear":
            shadow = []
        elif w[0] == "setcapa":
            c = int(w[1])
            if c < len(shadow) and (ok or True):
                shadow = shadow[:c]
        if slots != shadow:
            return (i, "array content differs from the ideal array after %r" % l)
        if size != len(shadow):
            return (i, "size %d but last used index + 1 = %d" % (size, len(shadow)))
        if tally != sum(1 for x in shadow if x is not None):
            return (i, "tally %d but %d occupied slots" % (tally, sum(1 for x in shadow if x is not None)))
    return None


def compare(ctx, exe, lines, wd=10):
    """run both sides; returns (index of first differing line | None, impl_out, model_out, status)"""
    rc, cout, cerr = C.run_harness(exe, [str(wd)], lines, timeout=max(60, wd * 4))
    mout = C.run_driver(ctx, "arr", lines)
    status = C.classify_rc(rc, cerr)
    if cout and cout[-1] == "HANG":
        status = "HANG"
    d = C.diff_streams(cout, mout)
    return d, cout, mout, status, cerr


def hawk_level(ctx, libdir):
    """language-level half: programs over hawk::array(), @argv-free, splita(); hawk must terminate and agree with the model's abstract list"""
    hawk = os.path.join(libdir, "hawk")
    rng = ctx.rng
    n = 60 if ctx.tier == "quick" else 600
    evals = 0
    for t in range(n):
        ops = []
        model = ["new"]
        stmts = ["x = hawk::array();"]
        if rng.random() < 0.4:
            # start from what str::splita() builds: a fresh array holding the pieces at 1..n (slot 0 empty)
            vals = [rng.randrange(1, 50) for _ in range(rng.randrange(0, 9))]
            stmts = ['n0 = str::splita("%s", x); if (n0 != %d) print "splita returned", n0;' % (" ".join(map(str, vals)), len(vals))]
            model += ["upsert %d %d -" % (k + 1, v) for k, v in enumerate(vals)]
        for _ in range(rng.randrange(1, 7)):
            i = rng.choice([1, 2, 3, 64, 65, 129, 200, 1000, 5000])
            if rng.random() < 0.7:
                v = rng.randrange(1, 50)
                stmts.append("x[%d] = %d;" % (i, v)); model.append("upsert %d %d -" % (i, v))
            else:
                stmts.append("delete x[%d];" % i); model.append("uplete %d 1" % i)
        stmts.append('n = 0; s = ""; for (k in x) { n++; s = s k "=" x[k] ","; } print length(x), n, s;')
        prog = "BEGIN { " + " ".join(stmts) + " }"
        rc, out, err = C.sh(["timeout", "-s", "KILL", "20", hawk, prog], timeout=30, env=C.ASAN_ENV)
        evals += 1
        mout = C.run_driver(ctx, "arr", model)
        # expected from the model's final dump
        last = mout[-1]
        body = last[last.index("[") + 1:last.rindex("]")]
        idx = 0
        pairs = []
        for tok in [x for x in body.split(",") if x]:
            if tok.startswith("_x"):
                idx += int(tok[2:])
            else:
                pairs.append((idx, int(tok))); idx += 1
        exp = ("%d %d %s" % (len(pairs), len(pairs), "".join("%d=%d," % p for p in pairs))).strip()
        got = out.decode(errors="replace").strip()
        st = C.classify_rc(rc, err.decode(errors="replace"))
        if rc in (-9, 137):
            st = "HANG"
        if st != "ok" or got != exp:
            ctx.problem("impl", "hawk-level array program disagrees with the model (%s): got %r expected %r" % (st, got[:200], exp[:200]),
                        "# run: hawk '<prog>'\n" + prog + "\n# model ops:\n" + "\n".join(model) + "\n", found_input=True)
            break
    # @argv: the variadic arguments read as an array — @argv[i] is the i-th argument for 0 <= i < @argc and empty beyond,
    # (i in @argv) holds exactly there, for-in visits every index below @argc once. The ideal array is the argument list.
    for t in range(10 if ctx.tier == "quick" else 120):
        n = rng.randrange(0, 13)
        args = [rng.randrange(1, 99) for _ in range(n)]
        probes = rng.sample([0, 1, 2, n - 1, n, n + 1, 63, 64, 65, 1000, 2 ** 61 - 1, 2 ** 62, -1], 5)
        pr = " ".join('v = @argv[%d]; s = s "[" v "]" (%d in @argv);' % (q, q) for q in probes)
        prog = 'function f(...) { s = @argc ":"; for (k in @argv) { v = @argv[k]; s = s k "=" v ","; } s = s ":"; %s return s; } BEGIN { print f(%s); }' % (pr, ", ".join(map(str, args)))
        rc, out, err = C.sh(["timeout", "-s", "KILL", "20", hawk, prog], timeout=30, env=C.ASAN_ENV)
        evals += 1
        got = out.decode(errors="replace").strip()
        st = C.classify_rc(rc, err.decode(errors="replace"))
        parts = got.split(":")
        okk = (st == "ok" and len(parts) == 3 and parts[0] == str(n)
               and sorted(x for x in parts[1].split(",") if x) == sorted("%d=%d" % (k, a) for k, a in enumerate(args))
               and parts[2] == "".join("[%s]%d" % ((args[q], 1) if 0 <= q < n else ("", 0)) for q in probes))
        if not okk:
            ctx.problem("impl", "@argv does not read back the argument list (%s): got %r for %d arguments %s, probes %s" % (st, got[:200], n, args, probes),
                        "# run: hawk '<prog>'\n" + prog + "\n", found_input=True)
            return evals
    # subscripts no table can hold (the language admits subscripts up to 2^61 - 1): the assignment must end in an error —
    # not in a wedge (one failing allocation per slot of the gap), a freed slot table or a signal
    for idx in (2 ** 40 + 1, 2 ** 50, 2 ** 60, 2 ** 60 + 1, MAXCAPA - 1, MAXCAPA, 2 ** 61 - 1):
        for pre in ("", "x[1] = 1; ", "x[70] = 1; x[3] = 2; "):
            prog = 'BEGIN { x = hawk::array(); %sx[%d] = 1; print "stored", length(x) }' % (pre, idx)
            t1 = time.time()
            rc, out, err = C.sh(["timeout", "-s", "KILL", "20", hawk, prog], timeout=30, env=C.ASAN_ENV)
            evals += 1
            e = err.decode(errors="replace")
            # a refused allocation makes ASan print a WARNING line; only an ERROR report is a defect
            st = "ASAN" if "ERROR: AddressSanitizer" in e else "UBSAN" if "runtime error:" in e else "HANG" if rc in (-9, 137) else "SIG" if rc < 0 or 128 <= rc < 255 else "ok"
            if st in ("HANG", "ASAN", "UBSAN") or st.startswith("SIG") or rc not in (0, 255) or (rc == 0 and b"stored" not in out):
                ctx.problem("impl", "assignment to a far array subscript does not end in an error or a stored element (%s, rc=%s, %.1fs): %s" % (st, rc, time.time() - t1, prog),
                            "# run: hawk '<prog>' (sanitized CLI built from /repo)\n" + prog + "\n# stderr:\n" + e[-2000:] + "\n", found_input=True)
                return evals
    return evals


def run(ctx):
    t0 = time.time()
    proof = C.prove(ctx, "HawkModel.Props.C19", leanchecker=(ctx.tier == "thorough"))
    tie = ctie.tie(ctx, "C19", leanchecker=(ctx.tier == "thorough"))   # capacity arithmetic of arr.c: translated C = model
    libdir = C.build_libhawk(ctx)
    exe = C.cc_harness(ctx, os.path.join(C.VERIF, "harness", "arr_h.c"), link_lib=libdir)
    rng = ctx.rng
    # corpus first
    lines = []
    cdir = os.path.join(C.VERIF, "corpus", "C19")
    if os.path.isdir(cdir):
        for f in sorted(os.listdir(cdir)):
            lines += [l.strip() for l in open(os.path.join(cdir, f)) if l.strip() and not l.startswith("#")]
    ncorpus = len(lines)
    lines += exhaustive_small()
    nhist = 300 if ctx.tier == "quick" else 6000
    for _ in range(nhist):
        lines += gen_history(rng, rng.randrange(3, 40))
    for _ in range(nhist // 3):
        lines += gen_heap(rng, rng.randrange(3, 60))
    for _ in range(nhist // 4):
        lines += gen_extreme(rng, rng.randrange(3, 25))
    for _ in range(nhist // 4):
        lines += gen_retry(rng)
    lines += exhaustive_pheap()
    for _ in range(nhist // 3):
        lines += gen_pheap(rng, rng.randrange(3, 60))
    blocks = split_blocks(lines)
    # batches of whole histories, run in parallel; each batch gets a time budget proportional to its size
    batches, cur, n = [], [], 0
    for b in blocks:
        cur.append(b); n += len(b)
        if n >= 4000:
            batches.append(cur); cur, n = [], 0
    if cur:
        batches.append(cur)
    C.driver_exe(ctx)  # build once before fanning out

    def run_batch(bs):
        ls = [l for b in bs for l in b]
        rc, cout, cerr = C.run_harness(exe, ["20"], ls, timeout=120 + len(ls) // 10)
        mout = C.run_driver(ctx, "arr", ls, timeout=120 + len(ls) // 10)
        st = C.classify_rc(rc, cerr)
        if cout and cout[-1] == "HANG":
            st = "HANG"
        return bs, C.diff_streams(cout, mout), st, oracle(ls, cout)
    from concurrent.futures import ThreadPoolExecutor
    with ThreadPoolExecutor(max_workers=8) as ex:
        results = list(ex.map(run_batch, batches))
    evaluations = len(lines)
    dist = {}
    for l in lines:
        dist[l.split()[0]] = dist.get(l.split()[0], 0) + 1
    status = "ok"

    def locate(bs, d):
        upto = 0
        for b in bs:
            if upto <= d < upto + len(b):
                return b
            upto += len(b)
        return None

    def norm(sub):
        return sub if sub and sub[0] == "new" else ["new"] + [x for x in sub if x != "new"]

    # (1) the property itself, evaluated on the implementation (oracle) — a hit is a concrete failing input
    for bs, d, st, orc in results:
        if orc is None and st == "ok":
            continue
        status = st
        bad = locate(bs, orc[0]) if orc else None
        if bad is None:
            for b in bs:
                dd, co, mo, st2, ce = compare(ctx, exe, b, wd=10)
                if st2 != "ok" or oracle(b, co):
                    bad = b; break
        if bad is None:
            ctx.problem("corr", "batch failed (%s) but no single history reproduces it" % st,
                        "\n".join(l for b in bs for l in b)[:200000], found_input=False)
            break

        def fails_prop(sub):
            sub = norm(sub)
            dd, co, mo, st2, ce = compare(ctx, exe, sub, wd=5)
            return st2 != "ok" or oracle(sub, co) is not None
        small = norm(C.ddmin(bad, fails_prop, max_tests=150))
        dd, co, mo, st2, ce = compare(ctx, exe, small, wd=5)
        o2 = oracle(small, co)
        if o2 is None and st2 == "ok":
            small = bad
            dd, co, mo, st2, ce = compare(ctx, exe, small, wd=10)
            o2 = oracle(small, co)
        what = "arr.c breaks the property on a %d-op history (status %s): %s" % (
            len(small) - 1, st2, ("op %r: %s" % (small[min(o2[0], len(small) - 1)], o2[1])) if o2 else "sanitizer/hang")
        ctx.problem("impl", what, "# feed to harness/arr_h.c (built against /repo) and to `hawkdrv arr`\n" + "\n".join(small) + "\n# impl:\n" + "\n".join(co) + "\n# model:\n" + "\n".join(mo) + "\n" + ce[-1500:], found_input=True)
        break
    # (2) correspondence with the Lean model — a break here means the theorems no longer speak about this code;
    #     it is reported as a violation without a failing input unless (1) produced one
    if not ctx.problems:
        for bs, d, st, orc in results:
            if d is None:
                continue
            bad = locate(bs, d) or bs[0]

            def fails_corr(sub):
                dd, co, mo, st2, ce = compare(ctx, exe, norm(sub), wd=5)
                return dd is not None
            small = norm(C.ddmin(bad, fails_corr, max_tests=150))
            dd, co, mo, st2, ce = compare(ctx, exe, small, wd=5)
            if dd is None:
                small = bad
                dd, co, mo, st2, ce = compare(ctx, exe, small, wd=10)
            k = dd if dd is not None else 0
            what = "correspondence broken: arr.c and the model differ on a %d-op history although the implementation still satisfies the property on all %d generated ops: op %r: impl %r vs model %r (theorems of Props/C19 are about the model)" % (
                len(small) - 1, evaluations, small[min(k, len(small) - 1)], co[k] if k < len(co) else "<no output>", mo[k] if k < len(mo) else "<none>")
            ctx.problem("corr", what, "# correspondence HawkModel.Arr <-> lib/arr.c no longer holds; first differing line below\n" + "\n".join(small) + "\n# impl:\n" + "\n".join(co) + "\n# model:\n" + "\n".join(mo) + "\n", found_input=False)
            break
    evaluations += hawk_level(ctx, libdir)
    nontriv = len({tuple(b) for b in blocks if nontrivial_signature(b)})
    samples = [" ; ".join(b[:8]) for b in blocks[ncorpus and 1 or 0:][-3:]] + [" ; ".join(blocks[len(blocks) // 2][:10])]
    return C.finish(ctx, [proof] + tie, evaluations, nontriv,
                    "histories = corpus + all 16^3 sequences over a 16-op alphabet + seeded random histories (indices around 0/63..65/127..129/1000/10^6 and size±1, allocator refusal scripts) + random heap histories + heaps with position back-pointers (all 24 push orders of 4 keys x every delete/update/pop, and random histories) + stack push/pop + machine-word extremes (positions/counts/capacities around 2^61, 2^63, 2^64 with scripted refusals) + retry-loop scripts (k refusals then a grant) + hawk-level hawk::array / str::splita programs and @argv reads; "
                    "every op's return value, callback events and full (size,tally,capa,slot table) dump compared with the Lean model; distinct_nontrivial = distinct histories containing growth to index>=128 or a shifting delete after an insert",
                    samples, extra_cov=dict(op_distribution=dist, histories=len(blocks), impl_status=status),
                    trusted=[ctie.TRUSTED % "C19", "arr.c modelled by hand in HawkModel/Arr.lean (slot table beyond `size` not modelled; payload = small integers; INLINE copier not exercised)",
                             "heap_pos_offset back-pointers: items modelled as (key,pos) values; a slot store and its HEAP_UPDATE_POS are one model step (`stamp`), pointer aliasing inside a sift is not modelled but every dump compares each item's pos field",
                             "hawk_arr_walk/rwalk (caller-directed traversal) are not modelled"],
                    assumptions=["allocator modelled as an oracle answering each request", "64-bit hawk_oow_t and 8-byte slot pointers (checked by the harness at start); arithmetic on positions below maxCapa = (2^64-1)/8 does not wrap (insert refuses larger ones first)"])


def replay(ctx, path):
    libdir = C.build_libhawk(ctx)
    exe = C.cc_harness(ctx, os.path.join(C.VERIF, "harness", "arr_h.c"), link_lib=libdir)
    lines = []
    for l in open(path):
        l = l.strip()
        if l.startswith("# impl:"):
            break
        if l and not l.startswith("#"):
            lines.append(l)
    d, co, mo, st, ce = compare(ctx, exe, lines, wd=5)
    for i, l in enumerate(lines):
        print("%-28s impl: %-50s model: %s" % (l, co[i] if i < len(co) else "<none>", mo[i] if i < len(mo) else "<none>"))
    print("status:", st)
    return 1 if (d is not None or st != "ok") else 0
