"""C09, round 5: the object level of the embedding API over SEVERAL hawk_t and their runtimes.

harness/ctxapi_h.c (real API, one counting + owner-tagging memory manager per hawk_t, ASan) against
`hawkdrv ctxapi` (lean/HawkModel/CtxApi.lean).  Decision as in c09.py:
 (1) property oracle on the real code alone:
     * every generated interleaving over 2-3 hawk_t is also run as its per-hawk projections; everything observable
       of hawk i (call results, callback log, the whole state dump of i and its runtimes, and i's allocator
       counters live/allocs/frees) must be identical line by line            -- non-interference / commutation
     * inside the interleaved run a call on hawk i changes nothing of hawk j (dump section, allocator counters)
     * no block is ever freed through another hawk's manager, no unknown block is freed, live(i) = 0 after
       hawk_close(i) and after the final teardown                               -- ownership ledger
     * a call on one runtime never changes the error number / exit level of a sibling runtime; hawk_rtx_halt
       stops only its own runtime, after hawk_haltall every admitted call on every runtime of that hawk ends
       aborted                                                                  -- error state / halt
     * hawk_close runs every pushed-and-not-popped callback set exactly once, top first, clear before close;
       hawk_rtx_close likewise (python shadow stacks)                           -- callbacks
     * sanitizer report, signal, hang
 (2) line-by-line correspondence with the Lean driver.
"""
import os, re
from concurrent.futures import ThreadPoolExecutor
from .. import common as C

NH, NR, NK = 3, 3, 4
FUNS = ["getg", "setg", "boom", "quit", "two", "hf", "nosuch"]
TEXTS = ["a", "bc", "x1", "hello", "q", "zz9", "7", "42"]
THEOREMS = ("Props/C09 section 8 (api_other_hawk_untouched, api_noninterference, api_commute, api_error_per_object, "
            "api_halt_one, api_haltall, api_hclose_callbacks, api_rclose_callbacks, ...) are about HawkModel/CtxApi.lean")
SIG_DELGBL = "delgbl-null-slot"


class Shadow:
    """what the generator believes (only used to keep the histories mostly valid)"""
    def __init__(self):
        self.hawk = [None] * NH

    def open(self, h):
        self.hawk[h] = dict(prog=None, rtx=[None] * NR, ecb=[], fnc=set(), gbl=[], deleted=False)


def gen_case(rng, nops, nh=None, delgbl=False):
    sh = Shadow()
    nh = nh or rng.choice([2, 2, 3])
    ops = []
    hawks = list(range(nh))
    for h in hawks:
        if rng.random() < 0.8:
            ops.append("hopen %d" % h); sh.open(h)
    while len(ops) < nops:
        h = rng.choice(hawks)
        H = sh.hawk[h]
        if H is None:
            ops.append("hopen %d" % h); sh.open(h); continue
        openr = [r for r in range(NR) if H["rtx"][r] is not None]
        roll = rng.random()
        if roll < 0.30 or not openr:
            # hawk-level
            c = rng.random()
            if c < 0.22 and not openr:
                cand = [0, 1, 2, 4, 0, 1, 2, 4, 3]
                if H["deleted"] and not delgbl:
                    continue
                p = rng.choice(cand); ops.append("hparse %d %d" % (h, p))
                ok = p != 3 and not (p == 4 and "ga" in H["gbl"])
                H["prog"] = p if ok else None
            elif c < 0.40:
                r = rng.randrange(NR if rng.random() < 0.5 else 2)
                ops.append("ropen %d %d" % (h, r))
                if H["rtx"][r] is None:
                    H["rtx"][r] = dict(h=[None] * NK, ecb=[], nstr=0)
            elif c < 0.48:
                e = rng.randrange(4); ops.append("hpushecb %d %d" % (h, e))
                if e not in H["ecb"]: H["ecb"].insert(0, e)
            elif c < 0.52:
                ops.append("hpopecb %d" % h)
                if H["ecb"]: H["ecb"].pop(0)
            elif c < 0.58 and not openr:
                n = rng.choice(["ga", "gb"])
                if H["deleted"] and not delgbl:
                    continue
                ops.append("haddgbl %d %s" % (h, n))
                if H["prog"] is None and n not in H["gbl"]: H["gbl"].append(n)
            elif c < 0.60 and not openr and delgbl:
                n = rng.choice(["ga", "gb"]); ops.append("hdelgbl %d %s" % (h, n))
                if H["prog"] is None and n in H["gbl"]: H["gbl"].remove(n); H["deleted"] = True
            elif c < 0.68:
                ops.append("haddfnc %d %s" % (h, rng.choice(["hf0", "hf0", "hf1"])))
            elif c < 0.70 and H["prog"] is None:
                ops.append("hdelfnc %d %s" % (h, rng.choice(["hf0", "hf1"])))
            elif c < 0.76:
                ops.append("hseterr %d %d" % (h, rng.randrange(5)))
            elif c < 0.82:
                ops.append("hhaltall %d" % h)
            elif c < 0.86:
                ops.append("hsetopt %d %d" % (h, rng.randrange(0, 9)))
            elif c < 0.90:
                ops.append("hxtn %d %d" % (h, rng.randrange(100)))
            elif c < 0.94 and not openr:
                ops.append("hclear %d" % h); H["prog"] = None
            elif c < 0.97:
                ops.append("hclose %d" % h)
                if not openr: sh.hawk[h] = None
            else:
                ops.append("hclear %d" % h)
                if not openr: H["prog"] = None
            continue
        r = rng.choice(openr) if rng.random() < 0.93 else rng.randrange(NR)
        R = H["rtx"][r]
        k = rng.randrange(NK)
        c = rng.random()
        if c < 0.24:
            ops.append("rcall %d %d %s %s" % (h, r, rng.choice(FUNS), rng.choice(TEXTS)))
        elif c < 0.30:
            ops.append("rloop %d %d" % (h, r))
        elif c < 0.34:
            ops.append("rhalt %d %d" % (h, r))
        elif c < 0.46:
            kind = rng.choice("sssin")
            ops.append("rmk %d %d %d %s %s" % (h, r, k, kind, str(rng.randrange(-50, 999)) if kind == "i" else rng.choice(TEXTS)))
        elif c < 0.52:
            ops.append("rup %d %d %d" % (h, r, k))
        elif c < 0.60:
            ops.append("rdown %d %d %d" % (h, r, k))
        elif c < 0.65:
            ops.append("rdownnf %d %d %d" % (h, r, k))
        elif c < 0.72:
            ops.append("rsetgbl %d %d %d" % (h, r, k))
        elif c < 0.77:
            ops.append("rgetgbl %d %d %d" % (h, r, k))
        elif c < 0.81:
            ops.append("rgetstr %d %d %d" % (h, r, k))
        elif c < 0.85:
            ops.append("rfreestr %d %d" % (h, r))
        elif c < 0.90:
            ops.append("rtostr %d %d %d %s" % (h, r, k, rng.choice(["cpl", "cpy2", "cpy16", "dup"])))
        elif c < 0.92:
            ops.append("rseterr %d %d %d" % (h, r, rng.randrange(5)))
        elif c < 0.93:
            ops.append("rxtn %d %d %d" % (h, r, rng.randrange(100)))
        elif c < 0.955:
            ops.append("rpushecb %d %d %d" % (h, r, rng.randrange(4)))
        elif c < 0.965:
            ops.append("rpopecb %d %d" % (h, r))
        else:
            ops.append("rclose %d %d" % (h, r))
            if R is not None: H["rtx"][r] = None
    return ops


def gen_delgbl_case(rng):
    """hawk_delgbl*() followed by calls that walk the global table (add, parse, delete again), next to a busy second hawk"""
    ops = ["hopen 0", "hopen 1", "hparse 1 %d" % rng.choice([0, 1]), "ropen 1 0"]
    names = ["ga", "gb"]
    rng.shuffle(names)
    ops += ["haddgbl 0 " + names[0]]
    if rng.random() < 0.6: ops.append("haddgbl 0 " + names[1])
    ops.append("hdelgbl 0 " + names[0])
    for _ in range(rng.randrange(1, 5)):
        c = rng.random()
        if c < 0.3: ops.append("haddgbl 0 " + rng.choice(names))
        elif c < 0.5: ops.append("hdelgbl 0 " + rng.choice(names))
        elif c < 0.8: ops.append("hparse 0 %d" % rng.choice([0, 1, 4, 3]))
        elif c < 0.9: ops.append("hclear 0")
        else: ops.append("rcall 1 0 %s %s" % (rng.choice(FUNS), rng.choice(TEXTS)))
    if rng.random() < 0.5: ops += ["ropen 0 0", "rcall 0 0 two k", "rclose 0 0"]
    ops.append("hclose 0")
    return ops


def op_hawk(l):
    return int(l.split()[1])


SEC_H = re.compile(r" H(\d)\[[^\]]*\]")
SEC_R = re.compile(r" R(\d)\.(\d)\[([^\]]*)\]")
MM = re.compile(r"m(\d)=(-?\d+)/(\d+)/(\d+)/(\d+)/(\d+)")


def parse_line(o):
    """-> dict(res, log, hawk={i: text}, rtx={(i,r): fields}, mm={i: (live, allocs, frees, foreign, bad)}, flags)"""
    d = dict(raw=o, res=None, log="-", hawk={}, mm={}, rtx={}, leak="!DUMPLEAK" in o)
    if " |" not in o:
        d["res"] = o.split(" #")[0]
    else:
        d["res"] = o.split(" |")[0]
    body = o.split(" #")[0]
    m = re.search(r" log=(\S+)$", body)
    if m: d["log"] = m.group(1)
    for i in range(NH):
        secs = [s.group(0) for s in SEC_H.finditer(body) if int(s.group(1)) == i] + \
               [s.group(0) for s in SEC_R.finditer(body) if int(s.group(1)) == i]
        d["hawk"][i] = "".join(secs)
    for s in SEC_R.finditer(body):
        f = dict(x.split("=", 1) for x in s.group(3).split(" ") if "=" in x)
        d["rtx"][(int(s.group(1)), int(s.group(2)))] = f
    for s in SEC_H.finditer(body):
        f = dict(x.split("=", 1) for x in s.group(0)[4:-1].split(" ") if "=" in x)
        d.setdefault("hf", {})[int(s.group(1))] = f
    if " #" in o:
        for s in MM.finditer(o.split(" #")[1]):
            d["mm"][int(s.group(1))] = tuple(int(x) for x in s.groups()[1:])
    return d


def oracle_case(ops, outs):
    """the property evaluated on the implementation's own output of ONE interleaved run (ops[0] == 'reset', last == 'reset')"""
    prev = None
    hecb = {}            # shadow callback stacks
    recb = {}
    for idx, (l, o) in enumerate(zip(ops, outs)):
        t = l.split()
        if t[0] == "reset":
            m = dict((int(s.group(1)), tuple(int(x) for x in s.groups()[1:])) for s in MM.finditer(o))
            for i, v in m.items():
                if v[0] != 0: return "op %d (%s): %d blocks of hawk %d are still live after everything was closed" % (idx, l, v[0], i)
                if v[3] or v[4]: return "op %d (%s): hawk %d: %d foreign / %d unknown frees" % (idx, l, i, v[3], v[4])
            prev = None; hecb = {}; recb = {}
            continue
        d = parse_line(o)
        if d["leak"]: return "op %d (%s): a value-to-text conversion leaked a block" % (idx, l)
        h = int(t[1])
        for i, v in d["mm"].items():
            if v[3] or v[4]: return "op %d (%s): hawk %d: %d blocks freed through a foreign manager, %d unknown blocks freed" % (idx, l, i, v[3], v[4])
        if prev is not None:
            for j in range(NH):
                if j == h: continue
                if d["hawk"][j] != prev["hawk"][j]:
                    return "op %d (%s) on hawk %d changed the state of hawk %d: %s -> %s" % (idx, l, h, j, prev["hawk"][j], d["hawk"][j])
                if d["mm"].get(j) != prev["mm"].get(j):
                    return "op %d (%s) on hawk %d touched the allocator of hawk %d: %s -> %s" % (idx, l, h, j, prev["mm"].get(j), d["mm"].get(j))
            if t[0][0] == "r" and len(t) > 2:
                r = int(t[2])
                # a call on a runtime may change the error number of its hawk_t and nothing else of it
                pf, nf = prev.get("hf", {}).get(h), d.get("hf", {}).get(h)
                if pf is not None and nf is not None and {k: v for k, v in pf.items() if k != "e"} != {k: v for k, v in nf.items() if k != "e"}:
                    return "op %d (%s): a call on runtime %d.%d changed its hawk_t beyond the error number: %s -> %s" % (idx, l, h, r, pf, nf)
                if t[0] == "rloop" and d["res"].startswith("ret=") and d["rtx"].get((h, r), {}).get("xl") != "0":
                    return "op %d (%s): hawk_rtx_loop returned with exit level %s: the runtime stays latched" % (idx, l, d["rtx"].get((h, r), {}).get("xl"))
                for (i, q), f in d["rtx"].items():
                    if i == h and q != r and (i, q) in prev["rtx"]:
                        pf = prev["rtx"][(i, q)]
                        if f != pf:
                            return "op %d (%s) on runtime %d.%d changed its sibling %d.%d: %s -> %s" % (idx, l, h, r, i, q, pf, f)
                # halt-all: an admitted call ends aborted
                if t[0] == "rcall" and (h, r) in prev["rtx"] and prev.get("hf", {}).get(h, {}).get("ha") == "1" and d["res"].startswith("ret="):
                    if d["res"] != "ret=nil/0" or d["rtx"][(h, r)]["xl"] != "6":
                        return "op %d (%s): hawk_haltall was called on hawk %d but the call ran to %s (exit level %s)" % (idx, l, h, d["res"], d["rtx"][(h, r)]["xl"])
        if t[0] in ("hclear", "hparse") and (d["res"] == "ok" or d["res"].startswith("fail:")):
            hf = d.get("hf", {}).get(h, {})
            if hf.get("ha") != "0":
                return "op %d (%s): the interpreter was reset but hawk_haltall is still in force (a fresh interpreter runs)" % (idx, l)
            if d["res"].startswith("fail:") and hf.get("p") != "-":
                return "op %d (%s): a failed parse left a program behind" % (idx, l)
        if t[0] == "hclose" and d["res"] == "ok" and d["mm"].get(h, (0,))[0] != 0:
            return "op %d (%s): %d blocks of hawk %d are live after hawk_close" % (idx, l, d["mm"][h][0], h)
        # callback discipline (shadow stacks)
        if t[0] == "hopen" and d["res"] == "ok": hecb[h] = []
        if t[0] == "hpushecb" and d["res"] == "ok": hecb.setdefault(h, []).insert(0, int(t[2]))
        if t[0] == "hpopecb" and d["res"].startswith("popped:"):
            if not hecb.get(h) or hecb[h][0] != int(d["res"][7:]): return "op %d (%s): popped %s, pushed order was %s" % (idx, l, d["res"], hecb.get(h))
            hecb[h].pop(0)
        if t[0] == "rpushecb" and d["res"] == "ok": recb.setdefault((h, int(t[2])), []).insert(0, int(t[3]))
        if t[0] == "rpopecb" and d["res"].startswith("popped:"):
            key = (h, int(t[2]))
            if not recb.get(key) or recb[key][0] != int(d["res"][7:]): return "op %d (%s): popped %s, pushed order was %s" % (idx, l, d["res"], recb.get(key))
            recb[key].pop(0)
        if t[0] == "ropen" and d["res"] == "ok": recb[(h, int(t[2]))] = []
        if t[0] == "hclose" and d["res"] == "ok":
            want = ["hclear%d:%d" % (h, e) for e in hecb.get(h, [])] + ["hclose%d:%d" % (h, e) for e in hecb.get(h, [])]
            if (",".join(want) or "-") != d["log"]:
                return "op %d (%s): hawk_close ran the callbacks %s, the pushed sets top-first are %s" % (idx, l, d["log"], want)
            hecb[h] = []
        if t[0] == "hclear" and d["res"] == "ok":
            want = ["hclear%d:%d" % (h, e) for e in hecb.get(h, [])]
            if (",".join(want) or "-") != d["log"]:
                return "op %d (%s): hawk_clear ran the callbacks %s, expected %s" % (idx, l, d["log"], want)
        if t[0] == "rclose" and d["res"].startswith("ok"):
            key = (h, int(t[2]))
            want = ["rclose%d.%d:%d" % (h, key[1], e) for e in recb.get(key, [])]
            if (",".join(want) or "-") != d["log"]:
                return "op %d (%s): hawk_rtx_close ran the callbacks %s, expected %s" % (idx, l, d["log"], want)
            recb[key] = []
        prev = d
    return None


def obs_of(ops, outs, h):
    """what is observable of hawk h: per op ON h, (result, log, dump section of h, allocator counters of h)"""
    res = []
    for l, o in zip(ops, outs):
        t = l.split()
        if t[0] == "reset" or int(t[1]) != h: continue
        d = parse_line(o)
        res.append((l, d["res"], d["log"], d["hawk"][h], d["mm"].get(h)))
    return res


def runs_of(ops):
    """the interleaved run and its per-hawk projections, each bracketed by reset"""
    hs = sorted({op_hawk(l) for l in ops})
    runs = [["reset"] + ops + ["reset"]]
    for h in hs:
        runs.append(["reset"] + [l for l in ops if op_hawk(l) == h] + ["reset"])
    return hs, runs


def run_batch(exe, cases):
    """cases: list of op lists.  -> per case dict(prop, corr, outs, crash)"""
    lines, spans = [], []
    for ops in cases:
        hs, runs = runs_of(ops)
        sp = []
        for r in runs:
            sp.append((len(lines), len(lines) + len(r))); lines += r
        spans.append((hs, runs, sp))
    rc, out, err = C.run_harness(exe, [], lines, timeout=30 + len(lines) // 200)
    return lines, spans, rc, out, err


def judge(ctx, exe, cases, model=True):
    lines, spans, rc, out, err = run_batch(exe, cases)
    cls = C.classify_rc(rc, err)
    res = []
    mod = None
    if model and cls == "ok":
        mod = C.run_driver(ctx, "ctxapi", lines)
    for ops, (hs, runs, sp) in zip(cases, spans):
        r = dict(prop=None, corr=None, crash=None, err="")
        a, b = sp[0]
        if len(out) < sp[-1][1]:
            # the process died inside or before this case
            if len(out) >= a and len(out) < sp[-1][1] and cls != "ok":
                r["crash"] = cls; r["err"] = err[:1600] + "\n...\n" + err[-600:]
                r["prop"] = "run ended with %s at op: %s" % (cls, lines[len(out)] if len(out) < len(lines) else "?")
            elif cls != "ok":
                r["prop"] = None; r["crash"] = "batch"
            res.append(r); continue
        r["prop"] = oracle_case(runs[0], out[a:b])
        if r["prop"] is None:
            for k, h in enumerate(hs):
                pa, pb = sp[1 + k]
                oi = obs_of(runs[0], out[a:b], h); op = obs_of(runs[1 + k], out[pa:pb], h)
                if oi != op:
                    j = next((j for j in range(min(len(oi), len(op))) if oi[j] != op[j]), min(len(oi), len(op)))
                    r["prop"] = "hawk %d observes the other hawks: its %d-th own call differs between the interleaved run and the run of its own calls alone: %s vs %s" % (
                        h, j, oi[j] if j < len(oi) else None, op[j] if j < len(op) else None)
                    break
        if mod is not None:
            for j in range(a, sp[-1][1]):
                if out[j].split(" #")[0] != mod[j]:
                    r["corr"] = "line %d (%s): C: %s | model: %s" % (j - a, lines[j], out[j].split(" #")[0][:400], mod[j][:400]); break
        res.append(r)
    return res


def replay_text(ops, r, note):
    return "\n".join(["# C09 API-ownership case (harness/ctxapi_h.c <-> hawkdrv ctxapi): " + note,
                      "# replay: feed the lines below to the harness built by vlib/props/c09_api.py (./check C09 runs it)",
                      "reset"] + ops + ["reset", "# property oracle: %s" % r.get("prop"), "# correspondence: %s" % r.get("corr"),
                                        "# stderr tail: %s" % r.get("err", "")[-1200:].replace("\n", "\n# ")])


def corpus_cases():
    d = os.path.join(C.VERIF, "corpus", "C09")
    out = []
    for f in sorted(os.listdir(d)):
        if f.startswith("api-") and f.endswith(".txt"):
            ops = [l.strip() for l in open(os.path.join(d, f)) if l.strip() and not l.startswith("#") and l.strip() != "reset"]
            out.append((f, ops))
    return out


def run_api(ctx, libdir):
    """-> stats dict; registers ctx.problem on a hit"""
    exe = C.cc_harness(ctx, os.path.join(C.VERIF, "harness", "ctxapi_h.c"), link_lib=libdir)
    C.driver_exe(ctx)
    rng = ctx.rng
    quick = ctx.tier == "quick"
    cases, kinds = [], []
    for f, ops in corpus_cases():
        cases.append(ops); kinds.append("corpus:" + f)
    for _ in range(150 if quick else 3000):
        cases.append(gen_case(rng, rng.randrange(12, 70))); kinds.append("gen")
    for _ in range(12 if quick else 120):
        cases.append(gen_delgbl_case(rng)); kinds.append("delgbl")
    per = 15
    batches = [list(range(i, min(i + per, len(cases)))) for i in range(0, len(cases), per)]
    results = [None] * len(cases)

    def do(b):
        rs = judge(ctx, exe, [cases[i] for i in b])
        if any(r["crash"] for r in rs):
            # isolate: run the cases of a crashed batch one by one
            rs = [judge(ctx, exe, [cases[i]])[0] for i in b]
        return b, rs
    with ThreadPoolExecutor(max_workers=4) as ex:
        for b, rs in ex.map(do, batches):
            for i, r in zip(b, rs): results[i] = r
    nlines = sum(sum(len(x) for x in runs_of(c)[1]) for c in cases)
    dist = {}
    for c in cases:
        for l in c: dist[l.split()[0]] = dist.get(l.split()[0], 0) + 1
    status = "ok"

    def fails_prop(crash):
        def f(ops):
            if not ops: return False
            rr = judge(ctx, exe, [list(ops)], model=False)[0]
            return rr["prop"] is not None and (bool(rr["crash"]) == crash)
        return f
    classes = set()
    for i, r in enumerate(results):
        if r["prop"] is None: continue
        status = "property-broken"
        cls = SIG_DELGBL if (r["crash"] and ("find_global" in r["err"] or "get_global" in r["err"])) else "other"
        if cls in classes: continue          # one report per class of failure
        classes.add(cls)
        small = C.ddmin(cases[i], fails_prop(bool(r["crash"])), max_tests=150)
        rr = judge(ctx, exe, [list(small)], model=False)[0]
        if rr["prop"] is None: small, rr = cases[i], r
        sig = None
        if rr["crash"] and ("find_global" in rr["err"] + r["err"] or "get_global" in rr["err"] + r["err"]):
            sig = SIG_DELGBL
        ctx.problem("impl", "the real embedding API breaks C09 on a %d-call history over several hawk_t: %s" % (len(small), rr["prop"]),
                    replay_text(list(small), rr, rr["prop"]), found_input=True, sig=sig)
    if not [p for p in ctx.problems if p["sig"] is None]:
        for i, r in enumerate(results):
            if r["corr"] is None or r["prop"] is not None: continue
            status = "correspondence-broken"

            def f2(ops):
                if not ops: return False
                rr = judge(ctx, exe, [list(ops)])[0]
                return rr["prop"] is None and rr["corr"] is not None
            small = C.ddmin(cases[i], f2, max_tests=120)
            rr = judge(ctx, exe, [list(small)])[0]
            if rr["corr"] is None: small, rr = cases[i], r
            ctx.problem("corr", "API-ownership correspondence broken: the implementation satisfies the property oracle on all %d histories, but it and the model differ: %s (%s)" % (
                len(cases), rr["corr"], THEOREMS), replay_text(list(small), rr, "model/implementation difference"), found_input=False)
            break
    nontriv = len({tuple(c) for c, k in zip(cases, kinds) if k == "gen" and len({op_hawk(l) for l in c if l.startswith("rcall")}) >= 2
                   and any(l.startswith(("hhaltall", "rhalt")) for l in c)})
    return dict(cases=len(cases), evaluations=nlines, nontrivial=nontriv, op_distribution=dist, status=status)
