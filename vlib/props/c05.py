"""C05 — everything printed is delivered once, in order, and streams are closed (lib/rio.c write side,
run_print/run_printf, fnc_close/fnc_fflush, end-of-run flush, teardown).

prove HawkModel.Props.C05  ->  build libhawk + harness/rio_h.c  ->  corpus + exhaustive + random cases
->  (1) evaluate the property clauses (a)-(d) directly on the REAL handler call log,
    (2) diff the real log / chain dumps / statement values against the Lean model (`hawkdrv rio`)
->  shrink, classify, report.

A case = header `case <tolerant> <ors> <reply script>` + abstract statements + `end` (see harness/rio_h.c).
"""
import os, itertools, time, re
from .. import common as C

NAMES = ["n1", "n2", "n3"]
OUTK = ["file", "apfile", "pipe", "rwpipe", "console"]
INK = ["file", "pipe", "rwpipe", "console"]
ITEMS = ["a", "bc", "def", "_", "x1y2z3", "q"]
OFS = " "


# ----------------------------------------------------------------------------- generation
def gen_script(rng, n):
    mode = rng.random()
    if mode < 0.15:
        return "-"
    if mode < 0.30:
        return ",".join(["a1"] * n)
    toks = [rng.choice(["A", "A", "a1", "a1", "a2", "a3"]) for _ in range(n)]
    if mode < 0.60:
        return ",".join(toks)
    nbad = 1 if mode < 0.85 else rng.randrange(2, 5)
    for _ in range(nbad):
        i = rng.randrange(0, n)
        toks[i] = rng.choice(["f", "f", "f", "e", "e"])
        if toks[i] == "e" and i + 1 < n and rng.random() < 0.5:
            toks[i + 1] = rng.choice(["e", "f"])      # e.g. console READ->0 followed by NEXT->0 / NEXT->fail
    return ",".join(toks)


def gen_stmt(rng, names):
    k = rng.random()
    nm = rng.choice(names)
    if k < 0.36:
        kind = rng.choice(OUTK)
        items = rng.choice(["-"] + [",".join(rng.choice(ITEMS) for _ in range(rng.randrange(1, 4))) for _ in range(5)])
        mode = "b" if (rng.random() < 0.15 and items != "-") else "s"
        return "p %s %s %s %s" % (kind, "-" if kind == "console" else nm, mode, items)
    if k < 0.50:
        kind = rng.choice(OUTK)
        d = rng.choice(["ab", "c", "-", "hello", "w$"])
        return "pf %s %s %s %s" % (kind, "-" if kind == "console" else nm, "b" if rng.random() < 0.15 else "s", d)
    if k < 0.72:
        o = rng.choice(["", "", " r", " w"])
        return "c %s%s" % (nm, o)
    if k < 0.76:
        return "ff"
    if k < 0.84:
        return "ffn %s" % rng.choice([nm, nm, "-"])
    if k < 0.97:
        kind = rng.choice(INK)
        return "g %s %s" % (kind, "-" if kind == "console" else nm)
    return "no"


def gen_case(rng, maxn=10):
    n = rng.randrange(1, maxn + 1)
    names = NAMES[:rng.choice([1, 2, 2, 3])]
    tol = rng.choice([0, 1])
    ors = rng.choice(["$", "$", "$", "-", ";;"])
    lines = ["case %d %s %s" % (tol, ors, gen_script(rng, rng.choice([8, 20, 60])))]
    for _ in range(n):
        lines.append(gen_stmt(rng, names))
    lines.append("end")
    return lines


EXH_ALPHA = ["p file n1 s a,bc", "p apfile n1 s q", "pf file n1 s ab", "pf apfile n1 s c", "p pipe n1 s a", "p rwpipe n1 s bc",
             "p console - s a", "g rwpipe n1", "g file n1", "g console -", "c n1", "c n1 r", "c n1 w", "ffn n1", "ffn -", "ff", "no"]
EXH_SCRIPTS = ["-", "a1,a1,a1,a1,a1,a1,a1,a1,a1,a1,a1,a1,a1,a1,a1,a1,a1,a1,a1,a1,a1,a1,a1,a1"]


def exhaustive_cases(depth, fault_depth):
    """all statement sequences up to `depth` over EXH_ALPHA (tolerant and not) with the all-accept and the
    one-character-at-a-time scripts; and, for sequences up to `fault_depth`, a failure / eof at every call position"""
    out = []
    for d in range(1, depth + 1):
        for seq in itertools.product(EXH_ALPHA, repeat=d):
            for tol in (0, 1):
                for sc in EXH_SCRIPTS:
                    out.append(["case %d $ %s" % (tol, sc)] + list(seq) + ["end"])
    for d in range(1, fault_depth + 1):
        for seq in itertools.product(EXH_ALPHA, repeat=d):
            for tol in (0, 1):
                for pos in range(0, 4 * d + 2):
                    for bad in ("f", "e"):
                        out.append(["case %d $ %s" % (tol, ",".join(["a2"] * pos + [bad]))] + list(seq) + ["end"])
    # console getline at the end of a stream: READ->0 is followed by NEXT; answer that NEXT with 0 / failure / ok-then-0-again
    for d in range(1, min(fault_depth, 2) + 1):
        for seq in itertools.product(EXH_ALPHA, repeat=d):
            if "g console -" not in seq:
                continue
            for tol in (0, 1):
                for pos in range(0, 4 * d + 2):
                    for tail in (["e", "e"], ["e", "f"], ["e", "A", "e", "A", "e", "e"], ["e", "a1", "e", "f"]):
                        out.append(["case %d $ %s" % (tol, ",".join(["a2"] * pos + tail))] + list(seq) + ["end"])
    return out


# ----------------------------------------------------------------------------- running both sides
def split_out(lines):
    """split an output stream into per-case chunks (each starts with 'C ')"""
    chunks, cur = [], None
    for l in lines:
        if l.startswith("#"):
            continue
        if l.startswith("C "):
            if cur is not None:
                chunks.append(cur)
            cur = []
        if cur is None:
            cur = []
        cur.append(l)
    if cur is not None:
        chunks.append(cur)
    return chunks


def budget(ncases):
    """time budget proportional to the input size (measured: ~1500 cases/s; allow 100x slack + start-up)"""
    return 60 + ncases // 10


def run_impl(exe, cases, wd=20):
    """real code. returns (chunks, status, stderr, programs). A crash/hang leaves the chunk list short."""
    lines = [l for c in cases for l in c]
    rc, cout, cerr = C.run_harness(exe, [str(wd)], lines, timeout=budget(len(cases)))
    status = C.classify_rc(rc, cerr)
    if cout and cout[-1] == "HANG":
        status = "HANG"
    progs = [l[2:] for l in cout if l.startswith("# ")]
    return split_out(cout), status, cerr, progs


def run_model(drv, cases):
    lines = [l for c in cases for l in c]
    rc, out, err = C.sh([drv, "rio"], input_=("\n".join(lines) + "\n").encode(), timeout=budget(len(cases)))
    if rc != 0:
        raise RuntimeError("lean driver rio rc=%s: %s" % (rc, err.decode(errors="replace")[-2000:]))
    return split_out(out.decode(errors="replace").split("\n")[:-1])


# ----------------------------------------------------------------------------- property clauses on the real log
H_RE = re.compile(r"^H (\d+) (\w+) (\S+) (\S+) (\S+) (.*) -> (\S+)$")


def parse_h(l):
    """H line -> dict(cmd, sid, key, rep, data, mode) or None"""
    m = H_RE.match(l)
    if not m:
        return None
    cmd, sid, ty, mask, rest, rep = m.group(2), m.group(3), m.group(4), m.group(5), m.group(6), m.group(7)
    d = dict(cmd=cmd, sid=sid, rep=rep, data=None, mode=None)
    if cmd == "OPEN":
        mode, name = rest.split(" ", 1)
        d["mode"] = mode
    elif cmd in ("WRITE", "WRITEB"):
        name, data = rest.split(" ", 1)
        d["data"] = "" if data == "-" else data
    elif cmd == "CLOSE":
        name, mode = rest.rsplit(" ", 1)
        d["mode"] = mode
    else:
        name = rest
    d["key"] = (ty, mask, name)
    return d


def parse_case(case):
    hdr = case[0].split()
    tol = hdr[1] == "1"
    ors = "" if hdr[2] == "-" else hdr[2]
    stmts = [l.split() for l in case[1:-1]]
    return tol, ors, stmts


def stmt_payload(st, ors):
    """(key, payload) a print/printf statement intends to deliver"""
    if st[0] not in ("p", "pf"):
        return None
    kind, name = st[1], st[2]
    ty = {"file": "file", "apfile": "file", "pipe": "pipe", "rwpipe": "pipe", "console": "console"}[kind]
    mask = "rw" if kind == "rwpipe" else "wr"
    key = (ty, mask, name)
    if st[0] == "pf":
        return key, ("" if st[4] == "-" else st[4])
    if st[4] == "-":
        return key, ors
    items = ["" if i == "_" else i for i in st[4].split(",")]
    return key, OFS.join(items) + ors


def check_props(case, out):
    """evaluate (a)-(d) on the real output of one case. returns list of (sig, message)."""
    tol, ors, stmts = parse_case(case)
    bad = []
    live = {}          # sid -> dict(key, halfclosed set, eofpending, flushed_since_write)
    opens, closes = {}, {}
    delivered = {}     # key -> string (whole run)
    cur = -1           # current statement index
    per_stmt = {}      # idx -> dict(fail=bool, eof=bool, slices={key:str}, R=None)
    any_fail = any_eof = False
    phase = "run"      # run | flushall(after last S, still 'run') | closing
    loop_ok = None
    executed = []
    closed_sids = set()
    for l in out[1:]:
        if l.startswith("S "):
            m = re.match(r"^S (\d+) \[(.*)\]$", l)
            cur = int(m.group(1))
            executed.append(cur)
            per_stmt[cur] = dict(fail=False, eof=False, slices={}, R=None,
                                 blocked={v["key"] for v in live.values() if v["eofp"] or v["eos"]})
            # (c) chain dump agrees with open/close counts
            chain_keys = []
            for ent in m.group(2).split():
                f = ent.split(":", 1)[1].split("/")
                chain_keys.append((f[0], f[1], f[3]))
            if len(set(chain_keys)) != len(chain_keys):
                bad.append(("dup-key", "two chain nodes with the same (type,name) at statement %d" % cur))
            for k in set(list(opens) + chain_keys):
                d = opens.get(k, 0) - closes.get(k, 0)
                if d != (1 if k in chain_keys else 0):
                    bad.append(("balance", "at statement %d key %s: #open-#fullclose=%d but in chain=%s" % (cur, k, d, k in chain_keys)))
            continue
        if l.startswith("R "):
            if cur in per_stmt:
                per_stmt[cur]["R"] = int(l[2:])
            continue
        if l.startswith("L "):
            loop_ok = (l == "L ok")
            # (d) every stream still open has been flushed after its last write
            for sid, s in live.items():
                if not s["flushed"]:
                    bad.append(("noflush", "stream %s %s has writes that no FLUSH follows at hawk_rtx_loop return" % (sid, s["key"])))
            continue
        if l.startswith("Z "):
            phase = "closing"
            continue
        if l in ("HANG",) or l.startswith("X "):
            bad.append(("machinery", "harness said: " + l))
            continue
        h = parse_h(l)
        if not h:
            if l.startswith("H "):
                bad.append(("machinery", "unparsed handler line: " + l))
            continue
        cmd, sid, rep, key = h["cmd"], h["sid"], h["rep"], h["key"]
        ps = per_stmt.get(cur) if phase == "run" and loop_ok is None else None
        if rep == "fail":
            any_fail = True
            if ps is not None:
                ps["fail"] = True
        if rep == "eof" and cmd in ("WRITE", "WRITEB", "NEXT"):
            any_eof = True
        if cmd == "OPEN":
            if rep == "ok":
                opens[key] = opens.get(key, 0) + 1
                if sid in live or sid in closed_sids:
                    bad.append(("machinery", "sid reused " + sid))
                live[sid] = dict(key=key, half=set(), eofp=False, eos=False, flushed=True)
                if opens[key] - closes.get(key, 0) > 1:
                    bad.append(("double-open", "key %s opened while already open" % (key,)))
            continue
        if sid not in live:
            bad.append(("use-after-close", "%s on stream %s %s which is not open" % (cmd, sid, key)))
            continue
        s = live[sid]
        if s["key"] != key:
            bad.append(("machinery", "stream %s changed key %s -> %s" % (sid, s["key"], key)))
        if cmd in ("WRITE", "WRITEB"):
            data = h["data"]
            if s["eofp"]:
                bad.append(("write-after-eof", "WRITE on stream %s %s after it reported end of stream" % (sid, key)))
            s["flushed"] = False
            if rep == "eof":
                s["eofp"] = True
                if ps is not None:
                    ps["blocked"].add(key)
            elif rep != "fail":
                n = int(rep)
                if n < 1 or n > len(data):
                    bad.append(("machinery", "handler accepted %d of %d" % (n, len(data))))
                delivered[key] = delivered.get(key, "") + data[:n]
                if ps is not None:
                    ps["slices"][key] = ps["slices"].get(key, "") + data[:n]
        elif cmd == "FLUSH":
            s["flushed"] = True   # a flush call has been issued (its result is ignored at end of run)
        elif cmd == "NEXT":
            if rep == "ok":
                s["eofp"] = False
            elif rep == "eof":
                s["eos"] = True
        elif cmd == "CLOSE":
            mode = h["mode"]
            full = (mode == "0")
            if full and (rep == "ok" or phase == "closing"):
                closes[key] = closes.get(key, 0) + 1
                del live[sid]
                closed_sids.add(sid)
            elif rep == "ok":
                if mode in s["half"]:
                    bad.append(("rwpipe-double-halfclose", "end %s of two-way pipe %s %s closed twice" % (mode, sid, key)))
                s["half"].add(mode)
    # end of run: everything opened was closed exactly once
    if out[-1] == "Z done":
        for sid, s in live.items():
            sig = "rwpipe-double-halfclose" if s["half"] else "leak"
            bad.append((sig, "stream %s %s was opened but never fully closed (half closes seen: %s)" % (sid, s["key"], sorted(s["half"]))))
        for k in opens:
            if opens[k] != closes.get(k, 0):
                if not any(b[0] in ("rwpipe-double-halfclose", "leak") for b in bad):
                    bad.append(("balance", "key %s: %d opens, %d full closes at the end" % (k, opens[k], closes.get(k, 0))))
    else:
        bad.append(("machinery", "case output incomplete: last line %r" % (out[-1],)))
    # (b) failures surface; success means complete delivery
    last_exec = executed[-1] if executed else -1
    nst = len(stmts)
    for i in executed:
        if i >= nst:
            continue
        ps = per_stmt[i]
        st = stmts[i]
        aborted_here = (i == last_exec and loop_ok is False)
        has_value = (st[0] in ("c", "ff", "ffn", "g")) or (tol and st[0] in ("p", "pf"))
        if ps["fail"]:
            if has_value:
                if ps["R"] != -1 and not aborted_here:
                    bad.append(("handler-fail-swallowed", "statement %d %r: a handler call failed but the statement returned %r" % (i, " ".join(st), ps["R"])))
            else:
                # statement without a value: must be a run error (hawk_rtx_loop fails, rest not executed)
                if not aborted_here:
                    bad.append(("handler-fail-noerrnum", "statement %d %r: a handler call failed but %s" %
                                (i, " ".join(st), "hawk_rtx_loop returned success (the rest of the block was skipped silently)" if (loop_ok and i == last_exec)
                                 else "execution went on to statement %s" % last_exec)))
        pl = stmt_payload(st, ors)
        if pl is not None:
            key, payload = pl
            got = ps["slices"].get(key, "")
            success = (ps["R"] == 0) if has_value else (not aborted_here)
            if not payload.startswith(got) and not (tol and ps["fail"]):
                bad.append(("order", "statement %d %r delivered %r which is not a prefix of %r" % (i, " ".join(st), got, payload)))
            # (a stream that answered "end of stream" and has not been re-armed by NEXT drops output by design)
            if success and not ps["fail"] and key not in ps["blocked"] and got != payload:
                bad.append(("lost", "statement %d %r reported success but delivered %r of %r" % (i, " ".join(st), got, payload)))
            for k2, v in ps["slices"].items():
                if k2 != key and v:
                    bad.append(("misrouted", "statement %d %r delivered %r to %s" % (i, " ".join(st), v, k2)))
        elif any(ps["slices"].values()):
            bad.append(("misrouted", "statement %d %r is not a print but data was written" % (i, " ".join(st))))
    # a run error must not be reported as success when a statement was cut short
    if loop_ok and last_exec < nst:
        if not any(b[0] == "handler-fail-noerrnum" for b in bad):
            bad.append(("silent-abort", "hawk_rtx_loop returned success but statements %d.. were never executed" % (last_exec + 1)))
    # (a) no failure, no eof: per key the delivered text is exactly the intended text, once, in order
    if not any_fail and not any_eof:
        intended = {}
        for i in executed:
            if i < nst:
                pl = stmt_payload(stmts[i], ors)
                if pl:
                    intended[pl[0]] = intended.get(pl[0], "") + pl[1]
        for k in set(intended) | set(delivered):
            if intended.get(k, "") != delivered.get(k, ""):
                bad.append(("once-in-order", "key %s: delivered %r, printed %r" % (k, delivered.get(k, ""), intended.get(k, ""))))
    return bad


def nontrivial(out):
    """a case is non-trivial if its real log has a short write, an eof/fail reply or a half close"""
    for l in out:
        h = parse_h(l)
        if not h:
            continue
        if h["rep"] in ("fail", "eof"):
            return True
        if h["data"] is not None and h["rep"].isdigit() and int(h["rep"]) < len(h["data"]):
            return True
        if h["cmd"] == "CLOSE" and h["mode"] != "0":
            return True
    return False


# ----------------------------------------------------------------------------- main
THEOREMS = ("write_exactly_once_in_order, program_delivers_exactly_once_in_order, acked_writes_fully_delivered, print_success_is_complete, "
            "handler_failure_surfaces, no_write_after_eof, open_close_balanced, clearall_closes_everything, flushed_at_return "
            "(HawkModel/Props/C05.lean) are statements about the model HawkModel/Rio.lean; they carry over to rio.c/run.c/fnc.c only while model and code agree line by line")


def case_text(case, prog=None):
    return ("# hawk program: %s\n" % prog if prog else "") + "\n".join(case) + "\n"


def evaluate(exe, drv, cases, stats=None, nontriv=None):
    """Two comparisons per case.  (1) ORACLE: clauses (a)-(d) evaluated on the real handler log, plus sanitizer
    report / signal / hang -> ("impl", sig, ...).  (2) CORRESPONDENCE with the Lean model -> ("corr", None, ...).
    returns list of (case, kind, sig, what, impl_out, model_out)"""
    probs = []
    todo = list(cases)
    couts = []
    while todo:
        co, status, cerr, progs = run_impl(exe, todo)
        complete = [c for c in co if c and c[-1] == "Z done"]
        if status == "ok" and len(complete) == len(todo):
            couts += co
            break
        # the harness died in case number len(complete): an oracle hit (crash / sanitizer / hang) with a concrete input
        j = len(complete)
        couts += complete
        if j >= len(todo):
            probs.append((todo[-1], "impl", "machinery", "harness status %s but all cases complete: %s" % (status, cerr[-400:]), [], []))
            break
        m = re.search(r"(ERROR: \w+Sanitizer[^\n]*|runtime error:[^\n]*)", cerr)
        frames = " | ".join(re.findall(r"#\d+ 0x[0-9a-f]+ in (\S+ [^\n]*)", cerr)[:5])
        detail = m.group(1) if m else cerr[-300:].replace("\n", " | ")
        if status == "HANG":
            detail = "it did not return: more than 5000 handler calls in one case or no progress for the watchdog time"
        probs.append((todo[j], "impl", "crash-" + status.split("(")[0], "the interpreter did not survive this case (%s): %s %s" % (
            status, detail, frames),
                      co[j] if j < len(co) else [], []))
        couts.append(None)
        todo = todo[j + 1:]
    mouts = run_model(drv, cases)
    for i, case in enumerate(cases):
        co = couts[i] if i < len(couts) else None
        if co is None:
            continue
        mo = mouts[i] if i < len(mouts) else []
        if nontriv is not None and nontrivial(co):
            nontriv.add(tuple(case))
        if stats is not None:
            for l in co:
                m = H_RE.match(l)
                if m:
                    stats["ev_" + m.group(2)] = stats.get("ev_" + m.group(2), 0) + 1
                    if m.group(2) == "NEXT" and m.group(5) == "rd":     # console getline moving to the next input stream
                        stats["ev_NEXT_in_read_" + m.group(7)] = stats.get("ev_NEXT_in_read_" + m.group(7), 0) + 1
                    r = m.group(7)
                    r = r if not r.isdigit() else "accept"
                    stats["reply_" + r] = stats.get("reply_" + r, 0) + 1
            for l in case[1:-1]:
                stats["st_" + l.split()[0]] = stats.get("st_" + l.split()[0], 0) + 1
        pv = check_props(case, co)
        if pv:
            sig, msg = pv[0]
            probs.append((case, "impl", sig, "property clause violated on the real handler log [%s]: %s" % (sig, msg), co, mo))
            continue
        d = C.diff_streams(co, mo)
        if d is not None:
            probs.append((case, "corr", None, "the real code and the Lean model disagree at output line %d: impl %r vs model %r (no clause of the property is violated on the real log). %s" % (
                d, co[d] if d < len(co) else "<none>", mo[d] if d < len(mo) else "<none>", THEOREMS), co, mo))
    return probs


def shrink(exe, drv, case, sig, kind):
    """ddmin over the statements, then cut the reply script from the right; returns a case that still fails the same way"""
    hdr, body = case[0], case[1:-1]

    def same(c):
        return any(p[1] == kind and p[2] == sig for p in evaluate(exe, drv, [c]))

    def fails(sub):
        return same([hdr] + list(sub) + ["end"])
    small = C.ddmin(body, fails, max_tests=80) if len(body) > 1 else body
    c = [hdr] + list(small) + ["end"]
    h = hdr.split()
    toks = h[3].split(",") if h[3] != "-" else []
    while toks:
        t2 = toks[:-1]
        c2 = [" ".join(h[:3] + [",".join(t2) if t2 else "-"])] + list(small) + ["end"]
        if same(c2):
            toks, c = t2, c2
        else:
            break
    # neutralise the remaining replies one by one (a token that does not matter becomes 'A')
    h = c[0].split()
    toks = h[3].split(",") if h[3] != "-" else []
    for i in range(len(toks)):
        if toks[i] != "A":
            t2 = toks[:i] + ["A"] + toks[i + 1:]
            c2 = [" ".join(h[:3] + [",".join(t2)])] + c[1:]
            if same(c2):
                toks, c = t2, c2
    return c if same(c) else case     # confirm; fall back to the unshrunk case


def load_corpus():
    cases = []
    cdir = os.path.join(C.VERIF, "corpus", "C05")
    if os.path.isdir(cdir):
        for f in sorted(os.listdir(cdir)):
            cur = []
            for l in open(os.path.join(cdir, f)):
                l = l.strip()
                if not l or l.startswith("#"):
                    continue
                cur.append(l)
                if l == "end":
                    cases.append(cur); cur = []
    return cases


def run(ctx):
    from concurrent.futures import ThreadPoolExecutor
    proof = C.prove(ctx, "HawkModel.Props.C05", leanchecker=(ctx.tier == "thorough"))
    libdir = C.build_libhawk(ctx)
    exe = C.cc_harness(ctx, os.path.join(C.VERIF, "harness", "rio_h.c"), link_lib=libdir)
    drv = C.driver_exe(ctx)
    rng = ctx.rng
    cases = load_corpus()
    ncorpus = len(cases)
    quick = ctx.tier == "quick"
    depth, fdepth = (2, 2) if quick else (3, 2)
    cases += exhaustive_cases(depth, fdepth)
    nexh = len(cases) - ncorpus
    nrand = 8000 if quick else 200000
    for _ in range(nrand):
        cases.append(gen_case(rng, 10))
    stats, nontriv, probs = {}, set(), []
    B = 2500
    batches = [cases[b:b + B] for b in range(0, len(cases), B)]
    results = [None] * len(batches)

    def work(i):
        st, nt = {}, set()
        pr = evaluate(exe, drv, batches[i], st, nt)
        return pr, st, nt
    with ThreadPoolExecutor(max_workers=min(8, os.cpu_count() or 2)) as ex:
        for i, (pr, st, nt) in enumerate(ex.map(work, range(len(batches)))):
            probs += pr
            nontriv |= nt
            for k, v in st.items():
                stats[k] = stats.get(k, 0) + v
    evaluations = len(cases)
    ctx.log("ran %d cases (%d corpus, %d exhaustive, %d random): %d oracle hits, %d correspondence differences" % (
        evaluations, ncorpus, nexh, nrand, sum(p[1] == "impl" for p in probs), sum(p[1] == "corr" for p in probs)))
    # decide: oracle hits first (concrete failing inputs, one representative per class), correspondence second
    seen = set()
    for case, kind, sig, what, co, mo in sorted(probs, key=lambda p: (p[1] != "impl", len(p[0]))):
        cls = (kind, sig)
        if cls in seen or len(seen) >= 6:
            continue
        seen.add(cls)
        small = shrink(exe, drv, case, sig, kind)
        pr = [p for p in evaluate(exe, drv, [small]) if p[1] == kind and p[2] == sig]
        if pr:
            case2, _, _, what2, co2, mo2 = pr[0]
        else:
            case2, what2, co2, mo2 = case, what, co, mo
        _, _, _, progs = run_impl(exe, [case2])
        text = ("# feed to harness/rio_h.c (built against the repo) and to `hawkdrv rio`; or: ./check C05 --replay <this file>\n" +
                case_text(case2, progs[0] if progs else None) + "# impl:\n" + "\n".join(co2 or []) + "\n# model:\n" + "\n".join(mo2 or []) + "\n")
        if kind == "impl":
            ctx.problem("impl", what2, text, found_input=True, sig=sig)
        else:
            ctx.problem("corr", what2, text, found_input=False)
    samples = [" ; ".join(c) for c in (cases[ncorpus:ncorpus + 1] + cases[-3:])]
    return C.finish(ctx, [proof], evaluations, len(nontriv),
                    "cases = corpus + all statement sequences of length<=%d over a 17-statement alphabet x {tolerant,not} x {accept-all, one-char-at-a-time} + "
                    "all sequences of length<=%d with a failure/eof injected at every handler call position + seeded random programs (<=10 I/O statements over 3 names x 5 output kinds x 4 input kinds, "
                    "random short-write/eof/fail scripts); each case runs IN-PROCESS in the real interpreter with logging handlers; (1) oracle: clauses (a)-(d) + failure surfacing evaluated on the REAL handler log "
                    "(and sanitizer/signal/hang), independent of the model; (2) the log, every chain dump (type/mask/mode/name/rwcstate/eof/eos flags) and every statement value are compared with the Lean model; "
                    "distinct_nontrivial = distinct cases whose REAL log shows a short write, an eof/fail reply or a half close" % (depth, fdepth),
                    samples, extra_cov=dict(distribution=stats, cases=len(cases), corpus=ncorpus, exhaustive=nexh, random=nrand),
                    trusted=["rio.c write side, run_print/run_printf, fnc_close/fnc_fflush modelled by hand in HawkModel/Rio.lean; read side only as far as it shares the chain (one READ per getline, handler returns whole records)",
                             "handlers of std.c (sio/tio/pio buffering, real pipes and files) are replaced by logging handlers and not covered"],
                    assumptions=["a handler never claims to have accepted more characters than offered",
                                 "a failing handler does not set HAWK_ENOIMPL (a NEXT failure with ENOIMPL during a console read counts as 'no more streams' in the C; not modelled)",
                                 "the console read loop READ->0, NEXT->1, READ->0, ... is unbounded in the C; the model bounds it by fuel (driver: 2 x script length + 8, never exhausted because every turn consumes a scripted reply) and proves the result independent of the fuel once the read returns", "a handler answering 0 to WRITE means end of stream (designed: later prints to it are dropped silently)",
                                 "BEGIN-only programs; stream names are non-empty NUL-free strings; OFS is one space"])


def replay(ctx, path):
    libdir = C.build_libhawk(ctx)
    exe = C.cc_harness(ctx, os.path.join(C.VERIF, "harness", "rio_h.c"), link_lib=libdir)
    drv = C.driver_exe(ctx)
    case = []
    for l in open(path):
        l = l.strip()
        if l.startswith("# impl:"):
            break
        if l and not l.startswith("#"):
            case.append(l)
            if l == "end":
                break     # a replay file holds one case (of a corpus file, the first one is replayed)
    couts, status, cerr, progs = run_impl(exe, [case])
    mouts = run_model(drv, [case])
    co = couts[0] if couts else []
    mo = mouts[0] if mouts else []
    if progs:
        print("program:", progs[0])
    for i in range(max(len(co), len(mo))):
        a = co[i] if i < len(co) else "<none>"
        b = mo[i] if i < len(mo) else "<none>"
        print("%s %-60s | %s" % (" " if a == b else "!", a, b))
    pv = check_props(case, co) if co else [("machinery", "no output")]
    for sig, msg in pv:
        print("PROPERTY [%s] %s" % (sig, msg))
    print("status:", status, cerr[-800:] if status != "ok" else "")
    return 1 if (pv or C.diff_streams(co, mo) is not None or status != "ok") else 0
