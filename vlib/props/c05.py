"""C05 — everything printed is delivered once, in order, and streams are closed (lib/rio.c write side,
run_print/run_printf, fnc_close/fnc_fflush, end-of-run flush, teardown).

prove HawkModel.Props.C05  ->  build libhawk + harness/rio_h.c  ->  corpus + exhaustive + random cases
->  (1) evaluate the property clauses (a)-(d) directly on the REAL handler call log,
    (2) diff the real log / chain dumps / statement values against the Lean model (`hawkdrv rio`)
->  shrink, classify, report.

A case = header `case <tolerant> <ors> <reply script>` + abstract statements + `end` (see harness/rio_h.c).
"""
import os, itertools, time, re
from .. import common as C

NAMES = ["n1", "n2", "n3"]
OUTK = ["file", "apfile", "pipe", "rwpipe", "console"]
INK = ["file", "pipe", "rwpipe", "console"]
ITEMS = ["a", "bc", "def", "_", "x1y2z3", "q"]
OFS = " "


# ----------------------------------------------------------------------------- generation
def gen_script(rng, n):
    mode = rng.random()
    if mode < 0.15:
        return "-"
    if mode < 0.30:
        return ",".join(["a1"] * n)
    toks = [rng.choice(["A", "A", "a1", "a1", "a2", "a3"]) for _ in range(n)]
    if mode < 0.60:
        return ",".join(toks)
    nbad = 1 if mode < 0.85 else rng.randrange(2, 5)
    for _ in range(nbad):
        i = rng.randrange(0, n)
        toks[i] = rng.choice(["f", "f", "f", "e", "e"])
        if toks[i] == "e" and i + 1 < n and rng.random() < 0.5:
            toks[i + 1] = rng.choice(["e", "f"])      # e.g. console READ->0 followed by NEXT->0 / NEXT->fail
    return ",".join(toks)


def gen_stmt(rng, names):
    k = rng.random()
    nm = rng.choice(names)
    if k < 0.36:
        kind = rng.choice(OUTK)
        items = rng.choice(["-"] + [",".join(rng.choice(ITEMS) for _ in range(rng.randrange(1, 4))) for _ in range(5)])
        mode = "b" if (rng.random() < 0.15 and items != "-") else "s"
        return "p %s %s %s %s" % (kind, "-" if kind == "console" else nm, mode, items)
    if k < 0.50:
        kind = rng.choice(OUTK)
        d = rng.choice(["ab", "c", "-", "hello", "w$"])
        return "pf %s %s %s %s" % (kind, "-" if kind == "console" else nm, "b" if rng.random() < 0.15 else "s", d)
    if k < 0.72:
        o = rng.choice(["", "", " r", " w"])
        return "c %s%s" % (nm, o)
    if k < 0.76:
        return "ff"
    if k < 0.84:
        return "ffn %s" % rng.choice([nm, nm, "-"])
    if k < 0.97:
        kind = rng.choice(INK)
        return "g %s %s" % (kind, "-" if kind == "console" else nm)
    return "no"


def gen_case(rng, maxn=10):
    n = rng.randrange(1, maxn + 1)
    names = NAMES[:rng.choice([1, 2, 2, 3])]
    tol = rng.choice([0, 1])
    ors = rng.choice(["$", "$", "$", "-", ";;"])
    lines = ["case %d %s %s" % (tol, ors, gen_script(rng, rng.choice([8, 20, 60])))]
    for _ in range(n):
        lines.append(gen_stmt(rng, names))
    lines.append("end")
    return lines


EXH_ALPHA = ["p file n1 s a,bc", "p apfile n1 s q", "pf file n1 s ab", "pf apfile n1 s c", "p pipe n1 s a", "p rwpipe n1 s bc",
             "p console - s a", "g rwpipe n1", "g file n1", "g console -", "c n1", "c n1 r", "c n1 w", "ffn n1", "ffn -", "ff", "no"]
EXH_SCRIPTS = ["-", "a1,a1,a1,a1,a1,a1,a1,a1,a1,a1,a1,a1,a1,a1,a1,a1,a1,a1,a1,a1,a1,a1,a1,a1"]


def exhaustive_cases(depth, fault_depth):
    """all statement sequences up to `depth` over EXH_ALPHA (tolerant and not) with the all-accept and the
    one-character-at-a-time scripts; and, for sequences up to `fault_depth`, a failure / eof at every call position"""
    out = []
    for d in range(1, depth + 1):
        for seq in itertools.product(EXH_ALPHA, repeat=d):
            for tol in (0, 1):
                for sc in EXH_SCRIPTS:
                    out.append(["case %d $ %s" % (tol, sc)] + list(seq) + ["end"])
    for d in range(1, fault_depth + 1):
        for seq in itertools.product(EXH_ALPHA, repeat=d):
            for tol in (0, 1):
                for pos in range(0, 4 * d + 2):
                    for bad in ("f", "e"):
                        out.append(["case %d $ %s" % (tol, ",".join(["a2"] * pos + [bad]))] + list(seq) + ["end"])
    # console getline at the end of a stream: READ->0 is followed by NEXT; answer that NEXT with 0 / failure / ok-then-0-again
    for d in range(1, min(fault_depth, 2) + 1):
        for seq in itertools.product(EXH_ALPHA, repeat=d):
            if "g console -" not in seq:
                continue
            for tol in (0, 1):
                for pos in range(0, 4 * d + 2):
                    for tail in (["e", "e"], ["e", "f"], ["e", "A", "e", "A", "e", "e"], ["e", "a1", "e", "f"]):
                        out.append(["case %d $ %s" % (tol, ",".join(["a2"] * pos + tail))] + list(seq) + ["end"])
    return out


# ----------------------------------------------------------------------------- running both sides
def split_out(lines):
    """split an output stream into per-case chunks (each starts with 'C ')"""
    chunks, cur = [], None
    for l in lines:
        if l.startswith("#"):
            continue
        if l.startswith("C "):
            if cur is not None:
                chunks.append(cur)
            cur = []
        if cur is None:
            cur = []
        cur.append(l)
    if cur is not None:
        chunks.append(cur)
    return chunks


def budget(ncases):
    """time budget proportional to the input size (measured: ~1500 cases/s; allow 100x slack + start-up)"""
    return 60 + ncases // 10


def run_impl(exe, cases, wd=20):
    """real code. returns (chunks, status, stderr, programs). A crash/hang leaves the chunk list short."""
    lines = [l for c in cases for l in c]
    rc, cout, cerr = C.run_harness(exe, [str(wd)], lines, timeout=budget(len(cases)))
    status = C.classify_rc(rc, cerr)
    if cout and cout[-1] == "HANG":
        status = "HANG"
    progs = [l[2:] for l in cout if l.startswith("# ")]
    return split_out(cout), status, cerr, progs


def run_model(drv, cases):
    lines = [l for c in cases for l in c]
    rc, out, err = C.sh([drv, "rio"], input_=("\n".join(lines) + "\n").encode(), timeout=budget(len(cases)))
    if rc != 0:
        raise RuntimeError("lean driver rio rc=%s: %s" % (rc, err.decode(errors="replace")[-2000:]))
    return split_out(out.decode(errors="replace").split("\n")[:-1])


# ----------------------------------------------------------------------------- property clauses on the real log
H_RE = re.compile(r"^H (\d+) (\w+) (\S+) (\S+) (\S+) (.*) -> (\S+)$")


def parse_h(l):
    """H line -> dict(cmd, sid, key, rep, data, mode) or None"""
    m = H_RE.match(l)
    if not m:
        return None
    cmd, sid, ty, mask, rest, rep = m.group(2), m.group(3), m.group(4), m.group(5), m.group(6), m.group(7)
    d = dict(cmd=cmd, sid=sid, rep=rep, data=None, mode=None)
    if cmd == "OPEN":
        mode, name = rest.split(" ", 1)
        d["mode"] = mode
    elif cmd in ("WRITE", "WRITEB"):
        name, data = rest.split(" ", 1)
        d["data"] = "" if data == "-" else data
    elif cmd == "CLOSE":
        name, mode = rest.rsplit(" ", 1)
        d["mode"] = mode
    else:
        name = rest
    d["key"] = (ty, mask, name)
    return d


def parse_case(case):
    hdr = case[0].split()
    tol = hdr[1] == "1"
    ors = "" if hdr[2] == "-" else hdr[2]
    stmts = [l.split() for l in case[1:-1]]
    return tol, ors, stmts


def stmt_payload(st, ors):
    """(key, payload) a print/printf statement intends to deliver"""
    if st[0] not in ("p", "pf"):
        return None
    kind, name = st[1], st[2]
    ty = {"file": "file", "apfile": "file", "pipe": "pipe", "rwpipe": "pipe", "console": "console"}[kind]
    mask = "rw" if kind == "rwpipe" else "wr"
    key = (ty, mask, name)
    if st[0] == "pf":
        return key, ("" if st[4] == "-" else st[4])
    if st[4] == "-":
        return key, ors
    items = ["" if i == "_" else i for i in st[4].split(",")]
    return key, OFS.join(items) + ors


def check_props(case, out):
    """evaluate (a)-(d) on the real output of one case. returns list of (sig, message)."""
    tol, ors, stmts = parse_case(case)
    bad = []
    live = {}          # sid -> dict(key, halfclosed set, eofpending, flushed_since_write)
    opens, closes = {}, {}
    delivered = {}     # key -> string (whole run)
    cur = -1           # current statement index
    per_stmt = {}      # idx -> dict(fail=bool, eof=bool, slices={key:str}, R=None)
    any_fail = any_eof = False
    phase = "run"      # run | flushall(after last S, still 'run') | closing
    loop_ok = None
    executed = []
    closed_sids = set()
    final_flush_failed = []
    for l in out[1:]:
        if l.startswith("S "):
            m = re.match(r"^S (\d+) \[(.*)\]$", l)
            cur = int(m.group(1))
            executed.append(cur)
            per_stmt[cur] = dict(fail=False, eof=False, slices={}, R=None,
                                 blocked={v["key"] for v in live.values() if v["eofp"] or v["eos"]})
            # (c) chain dump agrees with open/close counts
            chain_keys = []
            for ent in m.group(2).split():
                f = ent.split(":", 1)[1].split("/")
                chain_keys.append((f[0], f[1], f[3]))
            if len(set(chain_keys)) != len(chain_keys):
                bad.append(("dup-key", "two chain nodes with the same (type,name) at statement %d" % cur))
            for k in set(list(opens) + chain_keys):
                d = opens.get(k, 0) - closes.get(k, 0)
                if d != (1 if k in chain_keys else 0):
                    bad.append(("balance", "at statement %d key %s: #open-#fullclose=%d but in chain=%s" % (cur, k, d, k in chain_keys)))
            continue
        if l.startswith("R "):
            if cur in per_stmt:
                per_stmt[cur]["R"] = int(l[2:])
            continue
        if l.startswith("L "):
            loop_ok = (l == "L ok")
            if loop_ok and final_flush_failed:
                bad.append(("final-flush-failure-ignored", "the FLUSH of stream %s %s at the end of the run failed but hawk_rtx_loop returned success" % final_flush_failed[0]))
            # (d) every stream still open has been flushed after its last write
            for sid, s in live.items():
                if not s["flushed"]:
                    bad.append(("noflush", "stream %s %s has writes that no FLUSH follows at hawk_rtx_loop return" % (sid, s["key"])))
            continue
        if l.startswith("Z "):
            phase = "closing"
            continue
        if l in ("HANG",) or l.startswith("X "):
            bad.append(("machinery", "harness said: " + l))
            continue
        h = parse_h(l)
        if not h:
            if l.startswith("H "):
                bad.append(("machinery", "unparsed handler line: " + l))
            continue
        cmd, sid, rep, key = h["cmd"], h["sid"], h["rep"], h["key"]
        ps = per_stmt.get(cur) if phase == "run" and loop_ok is None else None
        if rep == "fail":
            any_fail = True
            if ps is not None:
                ps["fail"] = True
        if rep == "eof" and cmd in ("WRITE", "WRITEB", "NEXT"):
            any_eof = True
        if cmd == "OPEN":
            if rep == "ok":
                opens[key] = opens.get(key, 0) + 1
                if sid in live or sid in closed_sids:
                    bad.append(("machinery", "sid reused " + sid))
                live[sid] = dict(key=key, half=set(), eofp=False, eos=False, flushed=True)
                if opens[key] - closes.get(key, 0) > 1:
                    bad.append(("double-open", "key %s opened while already open" % (key,)))
            continue
        if sid not in live:
            bad.append(("use-after-close", "%s on stream %s %s which is not open" % (cmd, sid, key)))
            continue
        s = live[sid]
        if s["key"] != key:
            bad.append(("machinery", "stream %s changed key %s -> %s" % (sid, s["key"], key)))
        if cmd in ("WRITE", "WRITEB"):
            data = h["data"]
            if s["eofp"]:
                bad.append(("write-after-eof", "WRITE on stream %s %s after it reported end of stream" % (sid, key)))
            s["flushed"] = False
            if rep == "eof":
                s["eofp"] = True
                if ps is not None:
                    ps["blocked"].add(key)
            elif rep != "fail":
                n = int(rep)
                if n < 1 or n > len(data):
                    bad.append(("machinery", "handler accepted %d of %d" % (n, len(data))))
                delivered[key] = delivered.get(key, "") + data[:n]
                if ps is not None:
                    ps["slices"][key] = ps["slices"].get(key, "") + data[:n]
        elif cmd == "FLUSH":
            s["flushed"] = True   # a flush call has been issued
            if rep == "fail" and key[1] in ("wr", "rw") and phase == "run" and loop_ok is None and cur >= len(stmts):
                final_flush_failed.append((sid, key))
        elif cmd == "NEXT":
            if rep == "ok":
                s["eofp"] = False
            elif rep == "eof":
                s["eos"] = True
        elif cmd == "CLOSE":
            mode = h["mode"]
            full = (mode == "0")
            if full and (rep == "ok" or phase == "closing"):
                closes[key] = closes.get(key, 0) + 1
                del live[sid]
                closed_sids.add(sid)
            elif rep == "ok":
                if mode in s["half"]:
                    bad.append(("rwpipe-double-halfclose", "end %s of two-way pipe %s %s closed twice" % (mode, sid, key)))
                s["half"].add(mode)
    # end of run: everything opened was closed exactly once
    if out[-1] == "Z done":
        for sid, s in live.items():
            sig = "rwpipe-double-halfclose" if s["half"] else "leak"
            bad.append((sig, "stream %s %s was opened but never fully closed (half closes seen: %s)" % (sid, s["key"], sorted(s["half"]))))
        for k in opens:
            if opens[k] != closes.get(k, 0):
                if not any(b[0] in ("rwpipe-double-halfclose", "leak") for b in bad):
                    bad.append(("balance", "key %s: %d opens, %d full closes at the end" % (k, opens[k], closes.get(k, 0))))
    else:
        bad.append(("machinery", "case output incomplete: last line %r" % (out[-1],)))
    # (b) failures surface; success means complete delivery
    last_exec = executed[-1] if executed else -1
    nst = len(stmts)
    for i in executed:
        if i >= nst:
            continue
        ps = per_stmt[i]
        st = stmts[i]
        aborted_here = (i == last_exec and loop_ok is False)
        has_value = (st[0] in ("c", "ff", "ffn", "g")) or (tol and st[0] in ("p", "pf"))
        if ps["fail"]:
            if has_value:
                if ps["R"] != -1 and not aborted_here:
                    bad.append(("handler-fail-swallowed", "statement %d %r: a handler call failed but the statement returned %r" % (i, " ".join(st), ps["R"])))
            else:
                # statement without a value: must be a run error (hawk_rtx_loop fails, rest not executed)
                if not aborted_here:
                    bad.append(("handler-fail-noerrnum", "statement %d %r: a handler call failed but %s" %
                                (i, " ".join(st), "hawk_rtx_loop returned success (the rest of the block was skipped silently)" if (loop_ok and i == last_exec)
                                 else "execution went on to statement %s" % last_exec)))
        pl = stmt_payload(st, ors)
        if pl is not None:
            key, payload = pl
            got = ps["slices"].get(key, "")
            success = (ps["R"] == 0) if has_value else (not aborted_here)
            if not payload.startswith(got) and not (tol and ps["fail"]):
                bad.append(("order", "statement %d %r delivered %r which is not a prefix of %r" % (i, " ".join(st), got, payload)))
            # (a stream that answered "end of stream" and has not been re-armed by NEXT drops output by design)
            if success and not ps["fail"] and key not in ps["blocked"] and got != payload:
                bad.append(("lost", "statement %d %r reported success but delivered %r of %r" % (i, " ".join(st), got, payload)))
            for k2, v in ps["slices"].items():
                if k2 != key and v:
                    bad.append(("misrouted", "statement %d %r delivered %r to %s" % (i, " ".join(st), v, k2)))
        elif any(ps["slices"].values()):
            bad.append(("misrouted", "statement %d %r is not a print but data was written" % (i, " ".join(st))))
    # a run error must not be reported as success when a statement was cut short
    if loop_ok and last_exec < nst:
        if not any(b[0] == "handler-fail-noerrnum" for b in bad):
            bad.append(("silent-abort", "hawk_rtx_loop returned success but statements %d.. were never executed" % (last_exec + 1)))
    # (a) no failure, no eof: per key the delivered text is exactly the intended text, once, in order
    if not any_fail and not any_eof:
        intended = {}
        for i in executed:
            if i < nst:
                pl = stmt_payload(stmts[i], ors)
                if pl:
                    intended[pl[0]] = intended.get(pl[0], "") + pl[1]
        for k in set(intended) | set(delivered):
            if intended.get(k, "") != delivered.get(k, ""):
                bad.append(("once-in-order", "key %s: delivered %r, printed %r" % (k, delivered.get(k, ""), intended.get(k, ""))))
    return bad


def nontrivial(out):
    """a case is non-trivial if its real log has a short write, an eof/fail reply or a half close"""
    for l in out:
        h = parse_h(l)
        if not h:
            continue
        if h["rep"] in ("fail", "eof"):
            return True
        if h["data"] is not None and h["rep"].isdigit() and int(h["rep"]) < len(h["data"]):
            return True
        if h["cmd"] == "CLOSE" and h["mode"] != "0":
            return True
    return False


# ----------------------------------------------------------------------------- family 2: the REAL byte-level layer under rio
# (lib/std.c handlers -> sio.c -> tio.c -> fio.c / pio.c), write(2) answered from a script (harness/rio_real_h.c).
# Oracle only: what the property says about the bytes that reach the sink; no Lean model is involved
# (tio.c's buffer logic has its own model and theorems in C15).
REAL_KINDS = ["file", "file", "apfile", "console", "console", "pipe", "rwpipe"]
REAL_LENS = [2046, 2047, 2048, 2049, 4095, 4096, 4097, 1, 25, 100, 1000, 2040, 6000]
REAL_TOKS = ["A"] * 10 + ["a1", "a2", "a7", "a100", "a1000", "a2047", "a2048", "z", "z", "f", "f"]


def gen_text(n, seed):
    return "".join(chr(97 + (i * 7 + i // 26 + seed) % 26) for i in range(n))


def real_item_text(it):
    if it.startswith("@"):
        l, sd = it[1:].split(".")
        return gen_text(int(l), int(sd))
    return "" if it == "_" else it


def gen_real_case(rng, maxn=8):
    n = rng.randrange(1, maxn + 1)
    tol = rng.choice([0, 1, 1])
    ors = rng.choice(["$", "$", "-", "-", ";;"])
    mode = rng.random()
    ntok = rng.choice([4, 10, 30])
    if mode < 0.2:
        script = "-"
    elif mode < 0.45:
        script = ",".join(rng.choice(["a1", "a2", "a7", "a100", "a2047", "A"]) for _ in range(ntok))
    else:
        script = ",".join(rng.choice(REAL_TOKS) for _ in range(ntok))
    names = ["n1", "n2"][:rng.choice([1, 1, 2])]
    lines = ["case %d %s %s" % (tol, ors, script)]
    nbig = 0
    usepipe = rng.random() < 0.35      # a pipe costs a fork+exec of sh and cat
    echo_ok = usepipe and all(t[0] in "Aa-" for t in script.split(","))   # a lost line would leave getline waiting for ever
    rw_half = set()
    for _ in range(n):
        k = rng.random()
        kind = rng.choice(REAL_KINDS)
        if kind in ("pipe", "rwpipe") and not usepipe:
            kind = "file"
        nm = "-" if kind == "console" else rng.choice(names)
        if echo_ok and kind == "rwpipe" and nm not in rw_half and rng.random() < 0.6:
            lines.append("e %s %s" % (nm, rng.choice(["hello", "x1y2z3", "@100.3", "@2047.5", "@2048.6", "@5000.7"])))
            continue
        if k < 0.45:
            items = []
            for _i in range(rng.randrange(1, 4)):
                if nbig < 3 and rng.random() < 0.3:
                    items.append("@%d.%d" % (rng.choice(REAL_LENS), rng.randrange(0, 26))); nbig += 1
                else:
                    items.append(rng.choice(ITEMS))
            its = rng.choice(["-", ",".join(items), ",".join(items), ",".join(items)])
            lines.append("p %s %s %s %s" % (kind, nm, "b" if (its != "-" and rng.random() < 0.25) else "s", its))
        elif k < 0.62:
            if nbig < 3 and rng.random() < 0.3:
                d = "@%d.%d" % (rng.choice(REAL_LENS), rng.randrange(0, 26)); nbig += 1
            else:
                d = rng.choice(["ab", "c", "-", "hello", "w$", "x$y"])
            lines.append("pf %s %s %s %s" % (kind, nm, "b" if rng.random() < 0.25 else "s", d))
        elif k < 0.80:
            if kind == "console":
                lines.append("no" if rng.random() < 0.5 else "ff")
            else:
                o = rng.choice(["", "", "", " r", " w"]) if kind == "rwpipe" else rng.choice(["", "", "", " w"])
                if kind == "rwpipe" and o:
                    rw_half.add(nm)
                lines.append("c %s %s%s" % (kind, nm, o))
        elif k < 0.93:
            lines.append(rng.choice(["ff", "ffn -", "ffn %s %s" % (kind, nm) if kind != "console" else "ff"]))
        else:
            lines.append("no")
    lines.append("end")
    return lines


REAL_FIXED = [
    # buffered until the end of the run: ORS empty, no newline anywhere -> delivered by hawk_rtx_loop's final flush
    ["case 0 - -", "p file n1 s ab", "p file n1 s cd", "p console - s x", "end"],
    ["case 0 - a1,a1,a1,a1,a1,a1,a1,a1,a1,a1,a1,a1", "p file n1 s abcdef", "pf apfile n1 s gh", "end"],
    # exact buffer fills
    ["case 0 - a2047,a1,A", "p file n1 s @2048.3", "p file n1 s x", "end"],
    ["case 1 $ a100,z,a7,A", "p file n1 s @2047.5", "p file n1 s @4096.7", "end"],
    ["case 1 ;; -", "p console - s @4096.1,@2048.2", "no", "p console - s @2049.3", "end"],
    # a failure after a partial flush; later output must neither repeat nor reorder what was delivered
    ["case 1 $ a3,f,A", "p file n1 s abcdefgh", "p file n1 s ijkl", "ffn file n1", "p file n1 s mnop", "end"],
    ["case 1 - a1000,f,a5,f", "p file n1 s @2048.9", "ffn -", "p file n1 s @100.1", "c file n1", "end"],
    # byte strings (hawk_rtx_writeiobytes -> hawk_tio_writebchars): exact fill, one more, two buffers
    ["case 1 - -", "pf file n1 b @2048.4", "pf file n1 b xy", "p file n1 b @2047.6,z", "end"],
    ["case 0 $ a1000,a1000,A", "p file n1 b @2049.1", "p console - b @4096.2", "p file n1 b @2048.3,@2048.4", "end"],
    # pipes
    ["case 1 $ a2,A", "p pipe n1 s hello,world", "c pipe n1", "p pipe n1 s again", "end"],
    ["case 0 $ -", "p rwpipe n1 s two,way", "c rwpipe n1 r", "c rwpipe n1", "end"],
    # round trip through a real two-way pipe under short writes
    ["case 1 - a1,a2,a7,a100,a1000", "e n1 hello", "e n1 @2048.1", "e n2 @5000.2", "c rwpipe n1", "e n1 again", "end"],
]


def real_sink(kind, name, con):
    if kind in ("file", "apfile"):
        return "f." + name
    if kind == "pipe":
        return "p." + name
    if kind == "rwpipe":
        return "rw." + name
    return "con.%d" % con if con in (1, 2) else None


W_RE = re.compile(r"^W (\d+) (\S+) (\d+) (\S+) -> (\S+)$")


def check_real(case, out):
    """property clauses on the bytes that reach the sinks. returns list of (sig, message)"""
    tol, ors, stmts = parse_case(case)
    ors = ors.replace("$", "\n")
    bad = []
    nst = len(stmts)
    # which sink does statement i address (the console moves on with every nextofile once it is open)
    ssink = {}
    c_, copen_ = 1, False
    for i_, st_ in enumerate(stmts):
        if st_[0] in ("p", "pf"):
            ssink[i_] = real_sink(st_[1], st_[2], c_)
            copen_ = copen_ or st_[1] == "console"
        elif st_[0] == "c":
            ssink[i_] = real_sink(st_[1], st_[2], c_)
        elif st_[0] == "e":
            ssink[i_] = "rw." + st_[1]
        elif st_[0] == "ff":
            ssink[i_] = real_sink("console", "-", c_)
        elif st_[0] == "ffn":
            ssink[i_] = real_sink(st_[1], st_[2], c_) if len(st_) >= 3 else "*"
        elif st_[0] == "no":
            ssink[i_] = real_sink("console", "-", c_)
            if copen_:
                c_ += 1
    cur = -1
    executed = []
    R = {}
    V = {}
    trouble = {}           # sink -> bytes it had accepted when something first went wrong for it (f, z, a reported failure)

    def mark(sk_):
        for k_ in (list(set(accepted) | set(ssink.values())) if sk_ == "*" else [sk_]):
            if k_ and k_ != "*":
                trouble.setdefault(k_, len(accepted.get(k_, "")))
    phase = "run"          # run -> flushall (after the last S: no statement is running once L is printed) -> teardown
    loop_ok = None
    accepted = {}          # sink -> bytes accepted so far
    acc_at_E = None
    first_f = {}           # sink -> len(accepted) when the first failure was injected
    zsinks = set()
    fails_in = {}          # statement index | 'flushall' | 'teardown' -> list of sinks
    first_bad_write = None # index of the statement during which a write(2) first failed or took nothing
    for l in out[1:]:
        if l.startswith("S "):
            cur = int(l[2:]); executed.append(cur); continue
        if l.startswith("V "):
            f_ = l.split(" ", 2)
            V[cur] = "" if f_[2] == "-" else f_[2].replace("$", "\n").replace("_", " ")
            continue
        if l.startswith("R "):
            R[cur] = int(l[2:])
            if R[cur] == -1 and cur in ssink:
                mark(ssink[cur])
            continue
        if l.startswith("L "):
            loop_ok = l.startswith("L ok")
            if not loop_ok and cur in ssink:
                mark(ssink[cur])
            continue
        if l == "E":
            phase = "teardown"; acc_at_E = dict(accepted); continue
        if l.startswith("F "):
            if " ok " not in l:
                bad.append(("real-sink-content", "what the sink holds differs from what its descriptor accepted: " + l[:300]))
            continue
        if l == "HANG" or l.startswith("X "):
            bad.append(("machinery", "harness said: " + l)); continue
        m = W_RE.match(l)
        if not m:
            continue
        sink, n, data, rep = m.group(2), int(m.group(3)), m.group(4), m.group(5)
        data = "" if data == "-" else data.replace("$", "\n").replace("_", " ")
        if len(data) != n:
            bad.append(("machinery", "W line length mismatch: " + l[:120]))
        where = cur if (phase == "run" and loop_ok is None and cur < nst and cur >= 0) else ("flushall" if phase == "run" else "teardown")
        if phase == "run" and loop_ok is None and cur >= nst:
            where = "flushall"
        if (rep == "fail" or rep.startswith("syserr") or rep == "0") and first_bad_write is None:
            first_bad_write = cur
        if rep == "fail" or rep.startswith("syserr"):
            fails_in.setdefault(where, []).append(sink)
            first_f.setdefault(sink, len(accepted.get(sink, "")))
            mark(sink)
        elif rep == "0":
            zsinks.add(sink)
            mark(sink)
        else:
            k = int(rep)
            if k < 0 or k > n:
                bad.append(("machinery", "bad write result " + l[:120]))
            accepted[sink] = accepted.get(sink, "") + data[:k]
    if not out or out[-1].split()[0] not in ("F", "Z"):
        bad.append(("machinery", "case output incomplete: last line %r" % (out[-1] if out else None,)))
        return bad
    if acc_at_E is None:
        acc_at_E = dict(accepted)
    # what the program intended, per sink, and which sinks saw a reported failure
    last_exec = executed[-1] if executed else -1
    intended, reported = {}, set()
    con, con_open = 1, False
    stmt_sink = {}
    unread, pending_rw = {}, {}      # two-way pipes: text sent and not yet read back
    for i in executed:
        if i >= nst:
            continue
        st = stmts[i]
        aborted_here = (i == last_exec and loop_ok is False)
        has_value = st[0] in ("c", "ff", "ffn") or (tol and st[0] in ("p", "pf"))
        failed = (R.get(i) == -1) if has_value else aborted_here
        if st[0] in ("p", "pf"):
            kind, name = st[1], st[2]
            sk = real_sink(kind, name, con)
            if kind == "console":
                con_open = True
            if st[0] == "pf":
                payload = "" if st[4] == "-" else real_item_text(st[4]).replace("$", "\n")
            elif st[4] == "-":
                payload = ors
            else:
                payload = OFS.join(real_item_text(x) for x in st[4].split(",")) + ors
            if sk is not None:
                intended[sk] = intended.get(sk, "") + payload
                stmt_sink[i] = sk
                if kind == "rwpipe":
                    pending_rw[name] = pending_rw.get(name, "") + payload
                if failed:
                    reported.add(sk)
        elif st[0] == "e":
            sk = "rw." + st[1]
            intended[sk] = intended.get(sk, "") + real_item_text(st[2]) + "\n"
            stmt_sink[i] = sk
            unread[st[1]] = unread.get(st[1], "") + pending_rw.pop(st[1], "") + real_item_text(st[2]) + "\n"
            if aborted_here:
                reported.add(sk)
            else:
                exp, _, rest = unread[st[1]].partition("\n")
                unread[st[1]] = rest
                if R.get(i) != 1 or V.get(i) != exp:
                    bad.append(("real-rwpipe-echo", "statement %d %r: what went into the two-way pipe did not come back: getline returned %r with %d characters %r.., expected the record %r.. of %d characters" % (
                        i, " ".join(st), R.get(i), len(V.get(i) or ""), (V.get(i) or "")[:40], exp[:40], len(exp))))
        elif st[0] == "no":
            if con_open and not aborted_here:
                if con in (1, 2):
                    # the old console stream is closed by NEXT: a failure of its last flush has nowhere to go but this statement
                    stmt_sink[i] = "con.%d" % con
                con += 1
        elif st[0] == "c":
            stmt_sink[i] = real_sink(st[1], st[2], con)
            if st[1] == "rwpipe" and len(st) == 3 and R.get(i) == 0:
                unread.pop(st[2], None); pending_rw.pop(st[2], None)     # a new `cat` starts with the next write
            if failed:
                reported.add(stmt_sink[i])
        elif st[0] in ("ff", "ffn"):
            if failed:
                # fflush() names the console, fflush(x) one name, fflush("") everything
                if st[0] == "ff":
                    reported.add("con.%d" % con)
                elif len(st) >= 3:
                    reported.add(real_sink(st[1], st[2], con))
                else:
                    reported |= set(intended) | {s_ for v in fails_in.values() for s_ in v}
    # a print/printf that reports failure although no write(2) has failed or refused anything so far
    # (a two-way pipe one end of which has been closed is exempt: writing to it fails by design)
    if True:
        halfclosed = set()
        for i in executed:
            if i >= nst:
                continue
            st = stmts[i]
            if st[0] == "c" and st[1] == "rwpipe" and len(st) >= 4:
                halfclosed.add(st[2])
            if st[0] in ("p", "pf"):
                aborted_here = (i == last_exec and loop_ok is False)
                failed = (R.get(i) == -1) if tol else aborted_here
                if failed and (first_bad_write is None or i < first_bad_write) and not (st[1] == "rwpipe" and st[2] in halfclosed):
                    bad.append(("real-spurious-failure", "statement %d %r reported failure although every write(2) so far had been accepted in full or in part" % (i, " ".join(st))))
                    break
    # where did injected failures happen, per sink
    f_where = {}
    for where, sinks in fails_in.items():
        for sk in sinks:
            f_where.setdefault(sk, []).append(where)
    if loop_ok and last_exec < nst:
        bad.append(("silent-abort", "hawk_rtx_loop returned success but statements %d.. were never executed" % (last_exec + 1)))
    # delivery, per sink
    for sk in sorted(set(intended) | set(accepted)):
        I = intended.get(sk, "")
        A_E, A_Z = acc_at_E.get(sk, ""), accepted.get(sk, "")
        # safety, always: until something goes wrong for the sink (a failing or refusing write(2), a statement on it that
        # reports failure) nothing may be out of place; nothing is ever repeated or reordered
        A0 = A_Z[:trouble.get(sk, len(A_Z))]
        if not I.startswith(A0):
            pos = next((j for j in range(min(len(A0), len(I))) if A0[j] != I[j]), min(len(A0), len(I)))
            bad.append(("real-once-in-order", "sink %s received %d bytes that are not a prefix of the %d printed (first difference at byte %d: got %r.., printed %r..)" % (
                sk, len(A0), len(I), pos, A0[pos:pos + 30], I[pos:pos + 30])))
            continue
        it = iter(I)
        if not all(c in it for c in A_Z):
            bad.append(("real-dup", "sink %s received bytes that are repeated or out of order: got %d bytes %r.. for %d printed %r.." % (sk, len(A_Z), A_Z[:80], len(I), I[:80])))
            continue
        if sk in reported:
            continue      # the program was told: a statement on this stream returned -1 / raised a run error
        if sk in zsinks:
            continue      # the sink refused data ("try later"): what it never takes cannot be delivered; safety was checked
        # nothing was reported for this sink: everything printed must have arrived, by the time hawk_rtx_loop returned
        if A_E != I:
            wh = f_where.get(sk, [])
            if loop_ok is False and any(w == last_exec or w == "flushall" for w in wh):
                continue   # the run failed: after a run error there is no marker between the failing statement and the final flush
            stw = [w for w in wh if isinstance(w, int)]
            if "flushall" in wh:
                sig, why = "real-final-flush-failure-ignored", "a write(2) failed during the flush at the end of the run, hawk_rtx_loop returned %s" % ("success" if loop_ok else "failure")
                if not loop_ok:
                    continue   # reported by the run
            elif stw:
                st = stmts[stw[0]]
                sig = "real-close-flush-failure-ignored" if st[0] in ("c", "no") else "real-write-failure-swallowed"
                why = "a write(2) failed during statement %d %r which reported %s" % (stw[0], " ".join(st), ("the value %r" % R.get(stw[0])) if stw[0] in R else "no error")
            elif wh:
                continue   # failures only while the runtime was being closed: hawk_rtx_close() has no way to report
            else:
                sig, why = ("real-noflush" if I.startswith(A_E) else "real-once-in-order"), "no write(2) failed"
            bad.append((sig, "sink %s had received %d of the %d bytes printed when hawk_rtx_loop returned and nothing was reported for it; %s (got ..%r, printed ..%r)" % (
                sk, len(A_E), len(I), why, A_E[-20:], I[max(0, len(A_E) - 20):len(A_E) + 20])))
        elif A_Z != I:
            bad.append(("real-once-in-order", "sink %s received %d more bytes while the runtime was closed" % (sk, len(A_Z) - len(I))))
    return bad


def run_real(exe, cases, sdir, wd=20):
    lines = [l for c in cases for l in c]
    rc, cout, cerr = C.run_harness(exe, [str(wd), sdir], lines, timeout=budget(len(cases)) + len(cases) // 2)
    status = C.classify_rc(rc, cerr)
    if cout and cout[-1] == "HANG":
        status = "HANG"
    progs = [l[2:] for l in cout if l.startswith("# ")]
    return split_out(cout), status, cerr, progs


def real_complete(c):
    return bool(c) and any(l == "Z done" for l in c)


def evaluate_real(exe, cases, sdir, stats=None):
    """returns list of (case, 'impl', sig, what, impl_out, [])"""
    probs = []
    todo = list(cases)
    couts = []
    hangs = 0
    while todo:
        co, status, cerr, progs = run_real(exe, todo, sdir)
        complete = [c for c in co if real_complete(c)]
        if status == "ok" and len(complete) == len(todo):
            couts += co
            break
        j = len(complete)
        couts += complete
        if j >= len(todo):
            break
        m = re.search(r"(ERROR: \w+Sanitizer[^\n]*|runtime error:[^\n]*)", cerr)
        frames = " | ".join(re.findall(r"#\d+ 0x[0-9a-f]+ in (\S+ [^\n]*)", cerr)[:5])
        detail = m.group(1) if m else cerr[-300:].replace("\n", " | ")
        if status == "HANG":
            detail = "it did not return (watchdog) or issued more than 20000 write(2) calls"
            hangs += 1
        probs.append((todo[j], "impl", "real-crash-" + status.split("(")[0], "real I/O layer: the interpreter did not survive this case (%s): %s %s" % (status, detail, frames),
                      co[j] if j < len(co) else [], []))
        couts.append(None)
        todo = todo[j + 1:]
        if hangs >= 3:
            break     # bound the time a violating tree can cost
    for i, case in enumerate(cases):
        co = couts[i] if i < len(couts) else None
        if co is None:
            continue
        if stats is not None:
            stats["real_cases"] = stats.get("real_cases", 0) + 1
            for l in co:
                if l.startswith("V "):
                    stats["real_rwpipe_roundtrips"] = stats.get("real_rwpipe_roundtrips", 0) + 1
                m = W_RE.match(l)
                if m:
                    r = m.group(5)
                    r = "accept_all" if (r.isdigit() and int(r) == int(m.group(3))) else "short" if (r.isdigit() and int(r) > 0) else "zero" if r == "0" else "fail"
                    stats["real_write_" + r] = stats.get("real_write_" + r, 0) + 1
                    stats["real_sink_" + m.group(2).split(".")[0]] = stats.get("real_sink_" + m.group(2).split(".")[0], 0) + 1
                    if int(m.group(3)) >= 2048:
                        stats["real_write_fullbuf"] = stats.get("real_write_fullbuf", 0) + 1
        pv = check_real(case, co)
        if pv:
            sig, msg = pv[0]
            probs.append((case, "impl", sig, "real I/O layer (std.c/sio.c/tio.c/pio.c under rio.c), property clause violated on the bytes reaching the sink [%s]: %s" % (sig, msg), co, []))
    return probs


def shrink_real(exe, case, sig, sdir):
    hdr, body = case[0], case[1:-1]

    def same(c):
        return any(p[2] == sig for p in evaluate_real(exe, [c], sdir))
    small = C.ddmin(body, lambda sub: same([hdr] + list(sub) + ["end"]), max_tests=60) if len(body) > 1 else body
    c = [hdr] + list(small) + ["end"]
    h = c[0].split()
    toks = h[3].split(",") if h[3] != "-" else []
    while toks and same([" ".join(h[:3] + [",".join(toks[:-1]) if toks[:-1] else "-"])] + c[1:]):
        toks = toks[:-1]
        c = [" ".join(h[:3] + [",".join(toks) if toks else "-"])] + c[1:]
    for i in range(len(toks)):
        if toks[i] != "A":
            t2 = toks[:i] + ["A"] + toks[i + 1:]
            c2 = [" ".join(h[:3] + [",".join(t2)])] + c[1:]
            if same(c2):
                toks, c = t2, c2
    return c if same(c) else case


# ----------------------------------------------------------------------------- main
THEOREMS = ("write_exactly_once_in_order, program_delivers_exactly_once_in_order, acked_writes_fully_delivered, print_success_is_complete, "
            "handler_failure_surfaces, final_flush_failure_surfaces, close_reports_flush_failure, no_write_after_eof, open_close_balanced, clearall_closes_everything, flushed_at_return "
            "(HawkModel/Props/C05.lean) are statements about the model HawkModel/Rio.lean; they carry over to rio.c/run.c/fnc.c only while model and code agree line by line")


def case_text(case, prog=None):
    return ("# hawk program: %s\n" % prog if prog else "") + "\n".join(case) + "\n"


def evaluate(exe, drv, cases, stats=None, nontriv=None):
    """Two comparisons per case.  (1) ORACLE: clauses (a)-(d) evaluated on the real handler log, plus sanitizer
    report / signal / hang -> ("impl", sig, ...).  (2) CORRESPONDENCE with the Lean model -> ("corr", None, ...).
    returns list of (case, kind, sig, what, impl_out, model_out)"""
    probs = []
    todo = list(cases)
    couts = []
    while todo:
        co, status, cerr, progs = run_impl(exe, todo)
        complete = [c for c in co if c and c[-1] == "Z done"]
        if status == "ok" and len(complete) == len(todo):
            couts += co
            break
        # the harness died in case number len(complete): an oracle hit (crash / sanitizer / hang) with a concrete input
        j = len(complete)
        couts += complete
        if j >= len(todo):
            probs.append((todo[-1], "impl", "machinery", "harness status %s but all cases complete: %s" % (status, cerr[-400:]), [], []))
            break
        m = re.search(r"(ERROR: \w+Sanitizer[^\n]*|runtime error:[^\n]*)", cerr)
        frames = " | ".join(re.findall(r"#\d+ 0x[0-9a-f]+ in (\S+ [^\n]*)", cerr)[:5])
        detail = m.group(1) if m else cerr[-300:].replace("\n", " | ")
        if status == "HANG":
            detail = "it did not return: more than 5000 handler calls in one case or no progress for the watchdog time"
        probs.append((todo[j], "impl", "crash-" + status.split("(")[0], "the interpreter did not survive this case (%s): %s %s" % (
            status, detail, frames),
                      co[j] if j < len(co) else [], []))
        couts.append(None)
        todo = todo[j + 1:]
    mouts = run_model(drv, cases)
    for i, case in enumerate(cases):
        co = couts[i] if i < len(couts) else None
        if co is None:
            continue
        mo = mouts[i] if i < len(mouts) else []
        if nontriv is not None and nontrivial(co):
            nontriv.add(tuple(case))
        if stats is not None:
            for l in co:
                m = H_RE.match(l)
                if m:
                    stats["ev_" + m.group(2)] = stats.get("ev_" + m.group(2), 0) + 1
                    if m.group(2) == "NEXT" and m.group(5) == "rd":     # console getline moving to the next input stream
                        stats["ev_NEXT_in_read_" + m.group(7)] = stats.get("ev_NEXT_in_read_" + m.group(7), 0) + 1
                    r = m.group(7)
                    r = r if not r.isdigit() else "accept"
                    stats["reply_" + r] = stats.get("reply_" + r, 0) + 1
            for l in case[1:-1]:
                stats["st_" + l.split()[0]] = stats.get("st_" + l.split()[0], 0) + 1
        pv = check_props(case, co)
        if pv:
            sig, msg = pv[0]
            probs.append((case, "impl", sig, "property clause violated on the real handler log [%s]: %s" % (sig, msg), co, mo))
            continue
        d = C.diff_streams(co, mo)
        if d is not None:
            probs.append((case, "corr", None, "the real code and the Lean model disagree at output line %d: impl %r vs model %r (no clause of the property is violated on the real log). %s" % (
                d, co[d] if d < len(co) else "<none>", mo[d] if d < len(mo) else "<none>", THEOREMS), co, mo))
    return probs


def shrink(exe, drv, case, sig, kind):
    """ddmin over the statements, then cut the reply script from the right; returns a case that still fails the same way"""
    hdr, body = case[0], case[1:-1]

    def same(c):
        return any(p[1] == kind and p[2] == sig for p in evaluate(exe, drv, [c]))

    def fails(sub):
        return same([hdr] + list(sub) + ["end"])
    small = C.ddmin(body, fails, max_tests=80) if len(body) > 1 else body
    c = [hdr] + list(small) + ["end"]
    h = hdr.split()
    toks = h[3].split(",") if h[3] != "-" else []
    while toks:
        t2 = toks[:-1]
        c2 = [" ".join(h[:3] + [",".join(t2) if t2 else "-"])] + list(small) + ["end"]
        if same(c2):
            toks, c = t2, c2
        else:
            break
    # neutralise the remaining replies one by one (a token that does not matter becomes 'A')
    h = c[0].split()
    toks = h[3].split(",") if h[3] != "-" else []
    for i in range(len(toks)):
        if toks[i] != "A":
            t2 = toks[:i] + ["A"] + toks[i + 1:]
            c2 = [" ".join(h[:3] + [",".join(t2)])] + c[1:]
            if same(c2):
                toks, c = t2, c2
    return c if same(c) else case     # confirm; fall back to the unshrunk case


def load_corpus(real=False):
    """corpus/C05/*.txt; files named real-*.txt belong to the real-layer family"""
    cases = []
    cdir = os.path.join(C.VERIF, "corpus", "C05")
    if os.path.isdir(cdir):
        for f in sorted(os.listdir(cdir)):
            if f.startswith("real-") != real:
                continue
            cur = []
            for l in open(os.path.join(cdir, f)):
                l = l.strip()
                if not l or l.startswith("#"):
                    continue
                cur.append(l)
                if l == "end":
                    cases.append(cur); cur = []
    return cases


def run(ctx):
    from concurrent.futures import ThreadPoolExecutor
    proof = C.prove(ctx, "HawkModel.Props.C05", leanchecker=(ctx.tier == "thorough"))
    libdir = C.build_libhawk(ctx)
    exe = C.cc_harness(ctx, os.path.join(C.VERIF, "harness", "rio_h.c"), link_lib=libdir)
    drv = C.driver_exe(ctx)
    rng = ctx.rng
    cases = load_corpus()
    ncorpus = len(cases)
    quick = ctx.tier == "quick"
    depth, fdepth = (2, 2) if quick else (3, 2)
    cases += exhaustive_cases(depth, fdepth)
    nexh = len(cases) - ncorpus
    nrand = 8000 if quick else 200000
    for _ in range(nrand):
        cases.append(gen_case(rng, 10))
    stats, nontriv, probs = {}, set(), []
    B = 2500
    batches = [cases[b:b + B] for b in range(0, len(cases), B)]
    results = [None] * len(batches)

    def work(i):
        st, nt = {}, set()
        pr = evaluate(exe, drv, batches[i], st, nt)
        return pr, st, nt
    with ThreadPoolExecutor(max_workers=min(8, os.cpu_count() or 2)) as ex:
        for i, (pr, st, nt) in enumerate(ex.map(work, range(len(batches)))):
            probs += pr
            nontriv |= nt
            for k, v in st.items():
                stats[k] = stats.get(k, 0) + v
    evaluations = len(cases)
    ctx.log("ran %d cases (%d corpus, %d exhaustive, %d random): %d oracle hits, %d correspondence differences" % (
        evaluations, ncorpus, nexh, nrand, sum(p[1] == "impl" for p in probs), sum(p[1] == "corr" for p in probs)))
    # decide: oracle hits first (concrete failing inputs, one representative per class), correspondence second
    seen = set()
    for case, kind, sig, what, co, mo in sorted(probs, key=lambda p: (p[1] != "impl", len(p[0]))):
        cls = (kind, sig)
        if cls in seen or len(seen) >= 6:
            continue
        seen.add(cls)
        small = shrink(exe, drv, case, sig, kind)
        pr = [p for p in evaluate(exe, drv, [small]) if p[1] == kind and p[2] == sig]
        if pr:
            case2, _, _, what2, co2, mo2 = pr[0]
        else:
            case2, what2, co2, mo2 = case, what, co, mo
        _, _, _, progs = run_impl(exe, [case2])
        text = ("# feed to harness/rio_h.c (built against the repo) and to `hawkdrv rio`; or: ./check C05 --replay <this file>\n" +
                case_text(case2, progs[0] if progs else None) + "# impl:\n" + "\n".join(co2 or []) + "\n# model:\n" + "\n".join(mo2 or []) + "\n")
        if kind == "impl":
            ctx.problem("impl", what2, text, found_input=True, sig=sig)
        else:
            ctx.problem("corr", what2, text, found_input=False)
    # ---- family 2: the real byte-level layer (std.c/sio.c/tio.c/fio.c/pio.c) under rio.c, write(2) scripted
    exe_real = C.cc_harness(ctx, os.path.join(C.VERIF, "harness", "rio_real_h.c"), link_lib=libdir, extra=["-Wl,--wrap=write"])
    rcases = load_corpus(real=True) + [list(c) for c in REAL_FIXED]
    nreal_fixed = len(rcases)
    for _ in range(2500 if quick else 40000):
        rcases.append(gen_real_case(rng))
    RB = 400
    rbatches = [rcases[b:b + RB] for b in range(0, len(rcases), RB)]
    rprobs = []
    rnontriv = set()

    def rwork(i):
        st = {}
        pr = evaluate_real(exe_real, rbatches[i], os.path.join(ctx.scratch, "real%d" % i), st)
        return pr, st
    with ThreadPoolExecutor(max_workers=min(8, os.cpu_count() or 2)) as ex:
        for i, (pr, st) in enumerate(ex.map(rwork, range(len(rbatches)))):
            rprobs += pr
            for k, v in st.items():
                stats[k] = stats.get(k, 0) + v
    for c in rcases:
        if c[0].split()[3] != "-" and any(t[0] in "afz" for t in c[0].split()[3].split(",")):
            rnontriv.add(tuple(c))
    evaluations += len(rcases)
    ctx.log("real-layer family: ran %d cases (%d fixed/corpus): %d oracle hits" % (len(rcases), nreal_fixed, len(rprobs)))
    seen = set()
    for case, kind, sig, what, co, mo in sorted(rprobs, key=lambda p: len(p[0])):
        if sig in seen or len(seen) >= 4:
            continue
        seen.add(sig)
        sdir = os.path.join(ctx.scratch, "realshrink")
        small = shrink_real(exe_real, case, sig, sdir)
        pr = [p for p in evaluate_real(exe_real, [small], sdir) if p[2] == sig]
        if pr:
            case2, _, _, what2, co2, _ = pr[0]
        else:
            case2, what2, co2 = case, what, co
        _, _, _, progs = run_real(exe_real, [case2], sdir)
        text = ("# family: real  (harness/rio_real_h.c, linked with -Wl,--wrap=write against the repo; stdin = the case below, argv = <watchdog s> <scratch dir>); or: ./check C05 --replay <this file>\n" +
                case_text(case2, progs[0] if progs else None) + "# impl:\n" + "\n".join(l[:400] for l in (co2 or [])) + "\n")
        ctx.problem("impl", what2, text, found_input=True, sig=sig)
    samples = [" ; ".join(c) for c in (cases[ncorpus:ncorpus + 1] + cases[-3:] + rcases[-2:])]
    return C.finish(ctx, [proof], evaluations, len(nontriv) + len(rnontriv),
                    "cases = corpus + all statement sequences of length<=%d over a 17-statement alphabet x {tolerant,not} x {accept-all, one-char-at-a-time} + "
                    "all sequences of length<=%d with a failure/eof injected at every handler call position + seeded random programs (<=10 I/O statements over 3 names x 5 output kinds x 4 input kinds, "
                    "random short-write/eof/fail scripts); each case runs IN-PROCESS in the real interpreter with logging handlers; (1) oracle: clauses (a)-(d) + failure surfacing evaluated on the REAL handler log "
                    "(and sanitizer/signal/hang), independent of the model; (2) the log, every chain dump (type/mask/mode/name/rwcstate/eof/eos flags) and every statement value are compared with the Lean model; "
                    "FAMILY 2 (oracle only): the same kind of programs run with hawk's own handlers (std.c -> sio.c -> tio.c -> fio.c/pio.c, sinks = files, `cat >> file` and `cat` through real pipes, console files) with "
                    "every write(2) on a stream's descriptor answered from a script (short writes, 0 = nothing taken, EIO; payloads filling the 2048-byte buffer exactly / by one more / twice); per sink the bytes accepted must be a prefix of "
                    "what was printed until something goes wrong, never repeated or reordered, complete when hawk_rtx_loop returns unless a failure was reported for that stream, and equal to what the file holds after hawk_rtx_close; "
                    "distinct_nontrivial = distinct family-1 cases whose REAL log shows a short write, an eof/fail reply or a half close + distinct family-2 cases with a short/zero/failing write in their script" % (depth, fdepth),
                    samples, extra_cov=dict(distribution=stats, cases=len(cases), corpus=ncorpus, exhaustive=nexh, random=nrand, real_cases=len(rcases)),
                    trusted=["rio.c write side, run_print/run_printf, fnc_close/fnc_fflush modelled by hand in HawkModel/Rio.lean; read side only as far as it shares the chain (one READ per getline, handler returns whole records)",
                             "family 1 replaces the handlers of std.c by logging handlers; family 2 runs them for real but has no Lean model of its own (tio.c's buffer is modelled and proved in C15): it is a property oracle on the bytes reaching the sink",
                             "two-way pipes in family 2: only the bytes handed to the pipe are observed (the echo of `cat` is not read back)"],
                    assumptions=["a handler never claims to have accepted more characters than offered",
                                 "a failing handler does not set HAWK_ENOIMPL (a NEXT failure with ENOIMPL during a console read counts as 'no more streams' in the C; not modelled)",
                                 "the console read loop READ->0, NEXT->1, READ->0, ... is unbounded in the C; the model bounds it by fuel (driver: 2 x script length + 8, never exhausted because every turn consumes a scripted reply) and proves the result independent of the fuel once the read returns", "a handler answering 0 to WRITE means end of stream (designed: later prints to it are dropped silently)",
                                 "BEGIN-only programs; stream names are non-empty NUL-free strings; OFS is one space"])


def replay(ctx, path):
    libdir = C.build_libhawk(ctx)
    if any(l.startswith("# family: real") for l in open(path)) or os.path.basename(path).startswith("real-"):
        exe_real = C.cc_harness(ctx, os.path.join(C.VERIF, "harness", "rio_real_h.c"), link_lib=libdir, extra=["-Wl,--wrap=write"])
        case = []
        for l in open(path):
            l = l.strip()
            if l.startswith("# impl:"):
                break
            if l and not l.startswith("#"):
                case.append(l)
                if l == "end":
                    break
        couts, status, cerr, progs = run_real(exe_real, [case], os.path.join(ctx.scratch, "realreplay"))
        co = couts[0] if couts else []
        if progs:
            print("program:", progs[0])
        for l in co:
            print("  " + l[:300])
        pv = check_real(case, co) if co and real_complete(co) else [("real-crash", "no complete output: %s %s" % (status, cerr[-600:]))]
        for sig, msg in pv:
            print("PROPERTY [%s] %s" % (sig, msg))
        print("status:", status)
        return 1 if (pv or status != "ok") else 0
    exe = C.cc_harness(ctx, os.path.join(C.VERIF, "harness", "rio_h.c"), link_lib=libdir)
    drv = C.driver_exe(ctx)
    case = []
    for l in open(path):
        l = l.strip()
        if l.startswith("# impl:"):
            break
        if l and not l.startswith("#"):
            case.append(l)
            if l == "end":
                break     # a replay file holds one case (of a corpus file, the first one is replayed)
    couts, status, cerr, progs = run_impl(exe, [case])
    mouts = run_model(drv, [case])
    co = couts[0] if couts else []
    mo = mouts[0] if mouts else []
    if progs:
        print("program:", progs[0])
    for i in range(max(len(co), len(mo))):
        a = co[i] if i < len(co) else "<none>"
        b = mo[i] if i < len(mo) else "<none>"
        print("%s %-60s | %s" % (" " if a == b else "!", a, b))
    pv = check_props(case, co) if co else [("machinery", "no output")]
    for sig, msg in pv:
        print("PROPERTY [%s] %s" % (sig, msg))
    print("status:", status, cerr[-800:] if status != "ok" else "")
    return 1 if (pv or C.diff_streams(co, mo) is not None or status != "ok") else 0
