"""C01: generator of hawk programs (grammar based, argument types deliberately mismatched) + byte-level mutator
+ console inputs.  Pure functions of a random.Random; every program records the features it uses."""
import re

INT_EDGE = ["0", "1", "-1", "2", "3", "7", "10", "64", "255", "256", "65536", "2147483648", "4611686018427387904",
            "9223372036854775807", "(-9223372036854775807-1)", "-9223372036854775807", "1000000", "-2", "63", "128"]
FLT_EDGE = ["0.0", "1.5", "-2.5", ".5", "1e300", "1e-300", "1e308*10", "-(1e308*10)", "3.999999", "2.0", "1e19", "-1e19", "0.1"]
STR_EDGE = ['""', '"a"', '"abc"', '"hello world"', '"123"', '"1e3"', '"0x1F"', '" 12 "', '"a\\tb"', '"\\\\"', '"%s%d"', '"%"', '"%*d"',
            '"%c"', '"%.99999d"', '"%5$s"', '"a:b:c"', '"AbC"', '"ab+"', '"["', '"(a"', '"a{2,"', '"\\\\y"', '"가나다"', '"é"', '" "', '"\\n"',
            '"aaa"', '"x y z"', '"utf8"', '"f"', '"g"', '"rtimeout"', '"0"', '"-1"', '"nan"', '"inf"', '"+5"', '"1 2"']
MBS_EDGE = ['@b""', '@b"a"', '@b"abc"', '@b"\\xff\\xfe"', '@b"a b c"', '@b"123"', '@b"\\x00x"', '@b"a:b:c"', '@b"ab+"']
CHR_EDGE = ["'a'", "'0'", "' '", "'\\n'", "'가'", "'%'"]
BCH_EDGE = ["@b'a'", "@b'0'", "@b'\\xff'", "@b' '", "@b'%'"]
REX_EDGE = ["/a/", "/ab+/", "/[a-z]+/", "/^$/", "/(a|b)*c/", "/a{2,3}/", "/./", "/\\y/", "/[[:alpha:]]/", "/x*/", "/(a)(b)?/", "/$/", "/^/", "/[^ ]+/", "/\\//"]
SCALARS = ["a", "b", "c", "d", "s", "t", "n", "i", "j", "bs", "bt"]
MAPS = ["m", "m2"]
ARRS = ["r"]
GLOBALS_RW = ["ARGC", "ARGV[1]", "ARGV[2]", "NF", "NR", "FNR", "FS", "OFS", "ORS", "RS", "SUBSEP", "CONVFMT", "OFMT", "IGNORECASE", "RSTART", "RLENGTH",
              "NUMSTRDETECT", "STRIPRECSPC", "STRIPSTRSPC", "FILENAME"]
BINOPS = ["+", "-", "*", "/", "\\", "%", "**", "^", "<", "<=", ">", ">=", "==", "!=", "===", "!==", "~", "!~", "&&", "||", " ", "%%",
          "<<", ">>", "&", "^^"]
ASSOPS = ["=", "+=", "-=", "*=", "/=", "\\=", "%=", "**=", "<<=", ">>=", "&=", "^^=", "|=", "%%="]
UNOPS = ["-", "+", "!", "~"]

# name, min args, max args, indices of by-reference arguments (must be lvalues)
FALLBACK_BUILTINS = [
    ("length", 0, 1, ()), ("index", 2, 3, ()), ("substr", 2, 3, ()), ("split", 2, 3, (1,)), ("sprintf", 1, 5, ()),
    ("sub", 2, 3, (2,)), ("gsub", 2, 3, (2,)), ("match", 2, 3, (2,)), ("tolower", 1, 1, ()), ("toupper", 1, 1, ()),
    ("int", 1, 1, ()), ("asort", 1, 3, (0, 1)), ("asorti", 1, 3, (0, 1)), ("close", 1, 2, ()), ("fflush", 0, 1, ()),
]
EXCLUDE = {"system", "mktime", "strftime", "systime"}       # sys:: aliases: they would load the sys module
_ENTRY = re.compile(r'HAWK_T\("(\w+)"\)\s*(?:,\s*\d+\s*\}\s*,\s*\d+)?\s*,\s*\{\s*\{\s*(\w+)\s*,\s*(\w+)\s*,\s*(?:HAWK_NULL|HAWK_T\("(\w*)"\))\s*\}\s*,\s*(\w+)')


def load_builtins(repo):
    """(name, min, max, by-reference positions) for every builtin of fnc.c/std.c and every function of the str, math and
    hawk modules, read from the builtin tables of the working tree (argument counts and the r/R positions of the spec)"""
    import os
    out, mods = [], {}
    for fname, prefix in (("mod-str.c", "str::"), ("mod-math.c", "math::"), ("mod-hawk.c", "hawk::"), ("fnc.c", ""), ("std.c", "")):
        try:
            src = open(os.path.join(repo, "lib", fname), encoding="utf-8", errors="replace").read()
        except OSError:
            continue
        for m in _ENTRY.finditer(src):
            name, lo, hi, spec, impl = m.group(1), m.group(2), m.group(3), m.group(4) or "", m.group(5)
            if name in EXCLUDE:
                continue
            if lo == "A_MAX" or impl == "HAWK_NULL":
                # alias to a module function: sin -> math::sin
                tgt = mods.get((spec + "::" + name))
                if tgt and spec in ("math",):
                    out.append((name, tgt[1], tgt[2], tgt[3]))
                continue
            lo = int(lo)
            hi = lo + 3 if hi == "A_MAX" else int(hi)
            refs = tuple(i for i in range(hi) if (spec[i] if i < len(spec) else (spec[-1] if spec.endswith("R") else "v")) in "rR")
            ent = (prefix + name, lo, hi, refs)
            if prefix:
                mods[prefix + name] = ent
            out.append(ent)
    names = {e[0] for e in out}
    if len(out) < 60 or not {"length", "substr", "str::index", "hawk::array", "math::floor"} <= names:
        return None
    return out


def _init_builtins():
    import os
    repo = os.environ.get("HAWK_REPO", "/repo")
    b = load_builtins(repo)
    return b if b else FALLBACK_BUILTINS


BUILTINS = _init_builtins()
CONSTS = ["str::TRIM_PAC_SPACES", "hawk::GC_NUM_GENS", "hawk::VAL_MAP", "hawk::VAL_STR", "hawk::VAL_NIL"]
CMDS = ['"cat"', '"echo a b c"', '"echo -1"', '"true"', '"false"', '"sort"', '"printf \'x y\\\\nz\\\\n\'"', '"nosuchcmd"']
RWCMDS = ['"echo a b c"', '"true"', '"false"', '"nosuchcmd"']     # reading from `cat`/`sort` over a two-way pipe blocks by design
FILES = ['"f1"', '"f2"', '"/dev/null"', '"nofile"', '"/nonexistent/x"', '""', '"in"']


class Gen:
    def __init__(self, rng):
        self.r = rng
        self.feat = set()
        self.funcs = []          # (name, named params, variadic)
        self.in_variadic = False
        self.in_func = None
        self.loop_depth = 0
        self.uid = 0
        self.rule_kind = None

    def f(self, name):
        self.feat.add(name)

    def pick(self, l):
        return l[self.r.randrange(len(l))]

    # ---- expressions ---------------------------------------------------------------------------------------
    def literal(self):
        k = self.r.random()
        if k < 0.28:
            self.f("v:int"); return self.pick(INT_EDGE)
        if k < 0.38:
            self.f("v:flt"); return self.pick(FLT_EDGE)
        if k < 0.62:
            self.f("v:str"); return self.pick(STR_EDGE)
        if k < 0.72:
            self.f("v:mbs"); return self.pick(MBS_EDGE)
        if k < 0.78:
            self.f("v:char"); return self.pick(CHR_EDGE)
        if k < 0.84:
            self.f("v:bchr"); return self.pick(BCH_EDGE)
        if k < 0.88:
            self.f("v:nil"); return "@nil"
        if k < 0.96:
            self.f("v:rex"); return self.pick(REX_EDGE)
        self.f("v:const"); return self.pick(CONSTS)

    def lvalue(self, containers_ok=True):
        k = self.r.random()
        if self.in_func and self.r.random() < 0.2:
            # the function's own parameters (by value, by reference, omitted -> nil) and locals
            self.f("lv:param"); return self.pick(["p0", "p0", "p1", "p2", "l1"])
        if k < 0.40:
            return self.pick(SCALARS)
        if k < 0.55:
            self.f("lv:mapidx"); return "%s[%s]" % (self.pick(MAPS), self.expr(1))
        if k < 0.60:
            self.f("lv:mapidx2"); return "%s[%s,%s]" % (self.pick(MAPS), self.expr(1), self.expr(1))
        if k < 0.64:
            self.f("lv:nested"); return "%s[%s][%s]" % (self.pick(MAPS), self.expr(1), self.expr(1))
        if k < 0.66 and self.in_func:
            self.f("lv:local-or-param-idx"); return "%s[%s]" % (self.pick(["l1", "l2", "p0", "p1"]), self.expr(1))
        if k < 0.67:
            self.f("lv:nested-arr"); return "%s[%s][%s]" % (self.pick(ARRS), self.pick(["0", "1", "2", "70"]), self.pick(["0", "1", "3", self.expr(1)]))
        if k < 0.72:
            self.f("lv:arridx"); return "%s[%s]" % (self.pick(ARRS), self.pick(["0", "1", "2", "3", "10", "-1", "200", self.expr(1)]))
        if k < 0.82:
            self.f("lv:field"); return "$" + self.pick(["0", "1", "2", "3", "NF", "(NF+2)", "(NF-1)", "(%s)" % self.expr(1), "100", "(-1)"])
        if k < 0.92:
            self.f("lv:global"); return self.pick(GLOBALS_RW)
        if containers_ok:
            self.f("lv:container"); return self.pick(MAPS + ARRS)
        return self.pick(SCALARS)

    def call(self, d):
        name, lo, hi, refs = self.pick(BUILTINS)
        self.f("fn:" + name)
        n = self.r.randint(lo, hi)
        if self.r.random() < 0.003:
            n = max(0, n + self.pick([-1, 1, 2]))      # wrong argument count -> parse error path
        args = []
        for k in range(n):
            if k in refs:
                args.append(self.lvalue() if self.r.random() < 0.93 else self.expr(d - 1))
            else:
                q = self.r.random()
                if q < 0.12:
                    args.append(self.pick(MAPS + ARRS))   # container where a scalar is expected
                elif q < 0.16 and self.funcs:
                    args.append(self.pick(self.funcs)[0])  # function value
                else:
                    args.append(self.expr(d - 1))
        if name == "close" and len(args) == 2 and self.r.random() < 0.8:
            args[0] = self.pick(CMDS + RWCMDS + FILES); args[1] = self.pick(['"r"', '"w"', '"r"', '"w"', '"x"', '""', '@b"r"'])
            self.f("close:partial")
        if name in ("setioattr", "getioattr") and len(args) == 3 and self.r.random() < 0.8:
            args[0] = self.pick(CMDS + FILES)
            args[1] = self.pick(['"rtimeout"', '"wtimeout"', '"ctimeout"', '"atimeout"', '"codepage"', '"nosuch"', '"RTIMEOUT"', '"rtimeout\\0"'])
            if name == "setioattr":
                args[2] = self.pick(["1", "1.5", "-1", "0", '"utf8"', '"nosuchcp"', '"1.5.5"', "9223372036854775807", "1e300", "m", '""'])
            self.f("ioattr:named")
        if name == "hawk::call" and self.funcs and self.r.random() < 0.8:
            args[0:1] = ['"%s"' % self.pick(self.funcs)[0]]
        return "%s(%s)" % (name, ", ".join(args))

    def expr(self, d):
        r = self.r
        if d <= 0 or r.random() < 0.22:
            k = r.random()
            if self.in_variadic and k < 0.15:
                self.f("v:argv"); return self.pick(["@argc", "@argv[0]", "@argv[1]", "@argv[7]", "@argv[(@argc-1)]", "(2 in @argv)"])
            if k < 0.55:
                return self.literal()
            if k < 0.59 and self.funcs:
                self.f("v:fun"); return self.pick(self.funcs)[0]
            if k < 0.93:
                return self.lvalue()
            return "(%s)" % self.pick(MAPS + ARRS)
        k = r.random()
        if k < 0.27:
            op = self.pick(BINOPS)
            self.f("op:" + op.strip() if op.strip() else "op:concat")
            return "(%s %s %s)" % (self.expr(d - 1), op, self.expr(d - 1))
        if k < 0.33:
            op = self.pick(UNOPS); self.f("op:u" + op)
            return "(%s%s)" % (op, self.expr(d - 1))
        if k < 0.39:
            op = self.pick(["++", "--"]); self.f("op:" + op)
            lv = self.lvalue(False)
            return "(%s%s)" % (op, lv) if r.random() < 0.5 else "(%s%s)" % (lv, op)
        if k < 0.50:
            op = self.pick(ASSOPS); self.f("op:" + op)
            return "(%s %s %s)" % (self.lvalue(), op, self.expr(d - 1))
        if k < 0.55:
            self.f("op:?:")
            return "(%s ? %s : %s)" % (self.expr(d - 1), self.expr(d - 1), self.expr(d - 1))
        if k < 0.60:
            self.f("op:in")
            if r.random() < 0.3:
                return "((%s,%s) in %s)" % (self.expr(d - 1), self.expr(d - 1), self.pick(MAPS + ARRS))
            return "(%s in %s)" % (self.expr(d - 1), self.pick(MAPS + ARRS + SCALARS))
        if k < 0.86:
            return self.call(d)
        if k < 0.91 and self.funcs:
            name, np, va = self.pick(self.funcs); self.f("call:user")
            q = r.random()
            if q < 0.55:
                n = np
            elif q < 0.85 or not va:
                n = r.randint(0, np) if q < 0.97 else np + 1      # fewer actual arguments are legal (missing ones are nil); one too many is a parse error
                if n < np:
                    self.f("call:fewer-args")
            else:
                n = np + r.randint(1, 4); self.f("call:variadic-extra")
            return "%s(%s)" % (name, ", ".join(self.expr(d - 1) if r.random() < 0.85 else self.pick(MAPS + ARRS) for _ in range(n)))
        if k < 0.96:
            return self.getline()
        self.f("op:group")
        return "(%s)" % self.expr(d - 1)

    def getline(self):
        g = self._getline()
        if self.r.random() < 0.3:
            self.f("getline:bytes"); g = g.replace("getline", "getbline")
        return g

    def _getline(self):
        k = self.r.random()
        var = "" if self.r.random() < 0.4 else " " + self.lvalue(False)
        if k < 0.3:
            self.f("getline:console"); return "(getline%s)" % var
        if k < 0.6:
            self.f("getline:file"); return "(getline%s < %s)" % (var, self.pick(FILES))
        if k < 0.9:
            self.f("getline:pipe"); return "(%s | getline%s)" % (self.pick(CMDS), var)
        self.f("getline:rwpipe"); return "(%s || getline%s)" % (self.pick(RWCMDS), var)

    # ---- statements ----------------------------------------------------------------------------------------
    def redirect(self):
        k = self.r.random()
        if k < 0.6:
            return ""
        if k < 0.75:
            self.f("redir:>"); return " > " + (self.pick(FILES) if self.r.random() < 0.8 else self.expr(1))
        if k < 0.83:
            self.f("redir:>>"); return " >> " + self.pick(FILES)
        if k < 0.95:
            self.f("redir:|"); return " | " + (self.pick(CMDS) if self.r.random() < 0.8 else self.expr(1))
        self.f("redir:||"); return " || " + self.pick(RWCMDS)

    def block(self, d, n=None):
        n = n if n is not None else self.r.randint(0, 4)
        return "{ " + " ".join(self.stmt(d) for _ in range(n)) + " }"

    def bounded_cond(self):
        self.uid += 1
        v = "_k%d" % self.uid
        return v, "%s++ < %d" % (v, self.pick([0, 1, 2, 3, 5, 12]))

    def stmt(self, d):
        r = self.r
        k = r.random()
        if d <= 0:
            k = k * 0.50
        if k < 0.22:
            self.f("st:expr"); return self.expr(3) + ";"
        if k < 0.34:
            self.f("st:print")
            n = r.randint(0, 3)
            args = ", ".join(self.expr(2) for _ in range(n))
            if r.random() < 0.2 and n:
                args = "(" + args + ")"
            return "print %s%s;" % (args, self.redirect())
        if k < 0.42:
            self.f("st:printf")
            fmt, need = self.pick([('"%d %s\\n"', 2), ('"%5.2f|%-8s|%c\\n"', 3), ('"%x %o %e %g\\n"', 4), ('"%*d %.*s\\n"', 4), ('"%s"', 1), ('"%i %u %%\\n"', 2),
                                   ('"%c%c"', 2), ('"%10000d"', 1), ('"%.3000f"', 1), ('"%s %s %s %s"', 4), ('"%5$d"', 1), ('"%ld %lld %hd"', 3),
                                   ('"%+d % d %#x %#o %08.3d"', 5), (self.expr(1), r.randint(0, 3)),
                                   ('@b"%d %s\\n"', 2), ('@b"%5.2f|%-8s|%c\\n"', 3), ('@b"%x %o %e %g %i %u %%\\n"', 6), ('@b"%*d %.*s %c%c\\n"', 6), ('@b"%10000d%.300f"', 2),
                                   ('@b"%+d % d %#x %#o %08.3d %5$d"', 5), ("bs", r.randint(0, 3))])
            n = need if r.random() < 0.93 else r.randint(0, 4)
            return "printf %s%s%s;" % (fmt, "".join(", " + self.expr(2) for _ in range(n)), self.redirect())
        if k < 0.46:
            self.f("st:delete")
            q = r.random()
            if q < 0.5:
                return "delete %s[%s];" % (self.pick(MAPS + ARRS), self.expr(1))
            if q < 0.8:
                return "delete %s;" % self.pick(MAPS + ARRS + SCALARS)
            self.f("st:reset"); return "@reset %s;" % self.pick(MAPS + ARRS)
        if k < 0.50:
            self.f("st:container-init")
            q = r.random()
            if q < 0.4:
                return "%s = hawk::array(%s);" % (self.pick(ARRS + SCALARS), ", ".join(self.expr(1) for _ in range(r.randint(0, 4))))
            if q < 0.7:
                return "%s = hawk::map(%s);" % (self.pick(MAPS + SCALARS), ", ".join(self.expr(1) for _ in range(r.randint(0, 4))))
            return "%s = %s;" % (self.pick(SCALARS + MAPS), self.pick(MAPS + ARRS))
        # compound statements
        if k < 0.60:
            self.f("st:if")
            s = "if (%s) %s" % (self.expr(2), self.block(d - 1) if r.random() < 0.7 else self.stmt(d - 1))
            if r.random() < 0.4:
                self.f("st:else"); s += " else " + (self.block(d - 1) if r.random() < 0.7 else self.stmt(d - 1))
            return s
        if k < 0.66:
            self.f("st:while")
            if r.random() < 0.015:
                self.f("st:while-unbounded"); return "while (%s) %s" % (self.pick(["1", "!0", '"x"']), self.block(d - 1))
            v, c = self.bounded_cond()
            self.loop_depth += 1
            s = "while (%s%s) %s" % (c, " && " + self.expr(1) if r.random() < 0.3 else "", self.block(d - 1))
            self.loop_depth -= 1
            return s
        if k < 0.70:
            self.f("st:dowhile")
            v, c = self.bounded_cond()
            self.loop_depth += 1
            s = "do %s while (%s);" % (self.block(d - 1), c)
            self.loop_depth -= 1
            return s
        if k < 0.77:
            self.f("st:for")
            self.uid += 1
            v = "_f%d" % self.uid
            self.loop_depth += 1
            hdr = "for (%s = 0; %s < %d; %s++)" % (v, v, self.pick([0, 1, 2, 4, 9]), v)
            if r.random() < 0.1:
                hdr = "for (;;)"
                body = "{ if (%s) break; %s }" % (self.bounded_cond()[1].replace("<", ">="), self.stmt(d - 1))
            else:
                body = self.block(d - 1)
            self.loop_depth -= 1
            return hdr + " " + body
        if k < 0.84:
            self.f("st:forin")
            self.loop_depth += 1
            s = "for (%s in %s) %s" % (self.pick(SCALARS + SCALARS + ["m[1]"]), self.pick(MAPS + ARRS + ARRS + SCALARS), self.block(d - 1))
            self.loop_depth -= 1
            return s
        if k < 0.87:
            if self.loop_depth > 0:
                self.f("st:break/continue"); return self.pick(["break;", "continue;"])
            return self.expr(2) + ";"
        if k < 0.90:
            if self.in_func:
                self.f("st:return"); return "return %s;" % (self.expr(2) if r.random() < 0.8 else self.pick(MAPS + ARRS + [""]))
            if self.rule_kind == "main":
                self.f("st:next"); return self.pick(["next;", "nextfile;", "nextofile;", "next;"])
            if self.r.random() < 0.05:
                self.f("st:next-misplaced"); return "next;"
            return self.expr(2) + ";"
        if k < 0.92:
            self.f("st:exit"); return "exit%s;" % (" " + self.expr(1) if r.random() < 0.5 else "")
        if k < 0.95:
            self.f("st:block"); return self.block(d - 1)
        if k < 0.97:
            self.f("st:getline"); return self.getline() + ";"
        self.f("st:abort"); return self.pick(["@abort;", ";", "exit;", "{ }"])

    # ---- program ------------------------------------------------------------------------------------------
    def program(self):
        r = self.r
        parts = []
        if r.random() < 0.08:
            self.f("pragma")
            parts.append(self.pick(["@pragma stack_limit 50;", "@pragma striprecspc on;", "@pragma numstrdetect off;", "@pragma stripstrspc off;",
                                    "@pragma implicit off;", "@pragma multilinestr on;", "@pragma entry main;"]))
        if r.random() < 0.012:
            self.f("include"); parts.append('@include "%s";' % self.pick(["nofile.hawk", "in", "f1"]))
        if r.random() < 0.10:
            self.f("global-decl"); parts.append("@global g1, g2;")
        if r.random() < 0.5:
            # typed prelude: variables that by-reference builtins and operators later meet hold values of every string-like type
            self.f("prelude:typed")
            parts.append("BEGIN { bs = %s; bt = %s; s = %s; t = %s; a = %s; m[1] = %s; m2[\"k\"] = %s; r = hawk::array(%s, %s); }" % (
                self.pick(MBS_EDGE), self.pick(MBS_EDGE + BCH_EDGE), self.pick(STR_EDGE), self.pick(STR_EDGE + MBS_EDGE + CHR_EDGE),
                self.pick(MBS_EDGE + STR_EDGE + INT_EDGE), self.pick(MBS_EDGE + STR_EDGE), self.pick(MBS_EDGE + STR_EDGE), self.pick(MBS_EDGE + STR_EDGE), self.pick(INT_EDGE + MBS_EDGE)))
        if r.random() < 0.02:
            self.f("include-once"); parts.append('@include_once "%s";' % self.pick(["nofile.hawk", "in", "f1"]))
        nf = self.pick([0, 0, 1, 1, 2, 3])
        for k in range(nf):
            name = self.pick(["f", "g", "h", "main"]) if k == 0 else "f%d" % k
            if name in [x[0] for x in self.funcs]:
                continue
            np = self.pick([0, 1, 2, 3, 3, 5, 8])
            params = ["p%d" % q for q in range(np)]
            if r.random() < 0.15 and np:
                params[0] = "&" + params[0]; self.f("fn:byref-param")
            va = r.random() < 0.2
            if va:
                params.append("..."); self.f("fn:variadic")
            self.in_func = name
            self.in_variadic = va
            self.funcs.append((name, np, va))       # visible to its own body: recursion
            self.f("st:function")
            saved = list(SCALARS)
            body = []
            if r.random() < 0.4:
                self.f("st:local"); body.append("@local l1, l2;")
            guard = "if (_depth++ > %d) return %s;" % (self.pick([2, 5, 30]), self.pick(["0", '""', "@nil", "p0" if np else "1"]))
            body.append(guard)
            for _ in range(r.randint(1, 4)):
                body.append(self.stmt(2))
            if va and r.random() < 0.5:
                body.append("for (l1 in @argv) { %s }" % self.stmt(1))
            if r.random() < 0.7:
                body.append("return %s;" % self.expr(2))
            parts.append("function %s(%s) { %s }" % (name, ", ".join(params), " ".join(body)))
            self.in_func = None
            self.in_variadic = False
        nrules = r.randint(1, 4)
        for _ in range(nrules):
            k = r.random()
            if k < 0.45:
                self.f("rule:BEGIN"); pat = "BEGIN"
            elif k < 0.55:
                self.f("rule:END"); pat = "END"
            elif k < 0.70:
                self.f("rule:all"); pat = ""
            elif k < 0.80:
                self.f("rule:regex"); pat = self.pick(REX_EDGE)
            elif k < 0.92:
                self.f("rule:expr"); pat = self.expr(2)
            else:
                self.f("rule:range"); pat = "%s, %s" % (self.pick(REX_EDGE + ["NR==1"]), self.pick(REX_EDGE + ["NR==3", "0"]))
            if pat not in ("BEGIN", "END") and pat and r.random() < 0.15:
                self.f("rule:blockless"); parts.append(pat)
                continue
            self.rule_kind = "main" if pat not in ("BEGIN", "END") else pat
            parts.append("%s %s" % (pat, self.block(3, r.randint(1, 6))))
            self.rule_kind = None
        return "\n".join(parts) + "\n"


# ---- targeted templates: sites named in the property anchors, with edge operands --------------------------------
WB_TARGETS = ["NF", "NR", "FNR", "FS", "RS", "OFS", "ORS", "OFMT", "CONVFMT", "SUBSEP", "IGNORECASE", "RSTART", "RLENGTH", "NUMSTRDETECT",
              "STRIPRECSPC", "STRIPSTRSPC", "FILENAME", "$0", "$1", "$NF", "$(-1)", "$(NF+2)", "$(4611686018427387904)", "$100000", "m[1]", "m", "r[0]",
              "r[-1]", "r[4611686018427387904]", "a", "m[1][2]", "ARGV", "ARGC", "ENVIRON", "wf"]
WB_REJECT = ['"-1"', '"-5"', '"\\0"', '"x\\0y"', '"(a"', '"a{2,"', '"["', '"9223372036854775807"', '"99999999999"', '"1e999"', '"&&&&&&&&"', '""', "@nil",
             '"%"', '"%s%s%s"', '"%.99999f"', "m", "-1", "1e300", '"\\\\"', '@b"\\xff"', '"-0"', '" -3 "', '"a b"', "(-9223372036854775807-1)"]
WB_PATS = ['"."', '".*"', '"[a-z0-9%.]"', '""', '"^"', '"$"', '"0"', '"1"', '"3"', '"g"', '"%"', '"."', '" "', '"\\n"', '"6"', '"^"', '"$"', '""', '"a"', '"[a-z0-9]"', '".*"', "'g'", "'0'", '@b"g"', '@b"0"', "wp", "wp",
           "/./", "/0/"]
WB_SUBJ = ['"a b c"', '"a:b:c"', '"-1 -2"', '"0"', "$0", '@b"x y"', '"foo bar"', "m", "12345", '""']


def stack_pressure(g):
    """deep recursion against a small run-time stack: frame sizes and the fill level at the moment of each call are swept by the
    number of globals, named parameters, actual arguments (fewer / equal / more for variadic functions), locals of nested blocks"""
    r = g.r
    g.f("t:stack-pressure")
    parts = []
    if r.random() < 0.85:
        parts.append("@pragma stack_limit %d;" % g.pick([1, 512, 513, 517, 520, 600, 777, 1024]))
    k = r.randrange(0, 16)
    if k:
        parts.append("@global %s;" % ", ".join("sg%d" % i for i in range(k)))
    funs = []
    for i in range(g.pick([1, 1, 1, 2, 3])):
        funs.append(("sf%d" % i, g.pick([0, 1, 2, 3, 5, 7, 8, 10, 13]), r.random() < 0.6, g.pick([0, 0, 1, 3, 6])))

    def call(to):
        name, np, va, nl = to
        q = r.random()
        if q < 0.55 and np:
            na = r.randrange(0, np); g.f("sp:fewer-args")
        elif q < 0.8 or not va:
            na = np
        else:
            na = np + r.randint(1, 9); g.f("sp:variadic-extra")
        args = ", ".join(g.pick(["sd", "1", '"x"', "@nil", "sm", "sd + 1", "@b\"y\""]) for _ in range(na))
        form = g.pick(["%s(%s)", "%s(%s)", "%s(%s)", 'hawk::call("%s"%s%s)'])
        if form.startswith("hawk::call"):
            return form % (name, ", " if args else "", args)
        return form % (name, args)
    for name, np, va, nl in funs:
        if va:
            g.f("sp:variadic")
        params = ["q%d" % i for i in range(np)] + (["..."] if va else [])
        body = []
        if nl:
            body.append("@local %s;" % ", ".join("v%d" % i for i in range(nl)))
        if r.random() < 0.45:
            body.append("if (sd++ > %d) return sd;" % g.pick([5, 20, 30, 40, 45, 50, 60, 80, 100, 200, 400]))
            g.f("sp:bounded")
        else:
            body.append("sd++;")
        c = call(g.pick(funs))
        if r.random() < 0.4:
            body.append("{ @local b1, b2; b1 = sd; { @local c1; c1 = %s; sm[sd] = c1; } }" % c); g.f("sp:block-locals")
        tail = g.pick(["return @C@;", "sx = @C@; return sx;", "@C@; return 1;", 'return sprintf("%s%s", @C@, 1);', "return (@C@) + 1;",
                       "if (@C@) return 1; return 0;", "for (sk in sm) { return @C@; } return @C@;"])
        body.append(tail.replace("@C@", c))
        if va and r.random() < 0.5:
            body.insert(1, "sx = @argc; sy = @argv[0];")
        parts.append("function %s(%s) { %s }" % (name, ", ".join(params), " ".join(body)))
    ctx = g.pick(["BEGIN", "BEGIN", "", "END"])
    parts.append("%s { sm[0] = 1; print %s; print sd; }" % (ctx, call(funs[0])))
    return "\n".join(parts) + "\n"


def failing_writeback(g):
    """builtins (and getline, assignments) that store through a reference into a target whose setter can reject the value:
    special variables, positional fields, containers — with string (per-call compiled) patterns, after an operation that succeeded"""
    r = g.r
    g.f("t:failing-writeback")
    refb = [b for b in BUILTINS if b[3]]
    st = []
    st.append('wp = %s; wf = "%%.6g"; m[1] = "a0g"; a = "a0g %%";' % g.pick(['"0"', '"g"', '"."', '"%"', '"[0-9]"']))
    if r.random() < 0.5:
        st.append(g.pick(['NF = 3;', '$0 = "x0 g1 %";', 'OFMT = "%.6g";', 'r = hawk::array(1, 2);', 'FS = ":";', 'sub("0", "1", a);', 'gsub(wp, "&", a);', 'split("a b", m);']))
    for _ in range(g.pick([1, 1, 2, 3])):
        tgt = g.pick(WB_TARGETS + ["NF", "NF", "OFMT", "CONVFMT", "NR", "FS", "RS", "$0", "$(-1)"])
        g.f("wb:" + re.sub(r"[^A-Za-z$]", "", tgt)[:8])
        q = r.random()
        if q < 0.62 and refb:
            subl = [b for b in refb if b[0].endswith("sub")]
            name, lo, hi, refs = g.pick(subl) if (subl and r.random() < 0.45) else g.pick(refb)
            g.f("fn:" + name)
            n = max(lo, min(hi, max(refs) + 1 + (r.random() < 0.3)))
            args = []
            sublike = name.endswith("sub")
            for i in range(n):
                if i in refs:
                    args.append(tgt if (r.random() < 0.85 or i == max(refs)) else g.pick(["m", "a", "m[2]"]))
                elif sublike and i == 0:
                    args.append(g.pick(WB_PATS))
                elif sublike and i == 1:
                    args.append(g.pick(WB_REJECT))
                else:
                    args.append(g.pick(WB_SUBJ + WB_PATS + WB_REJECT))
            st.append("wn = %s(%s);" % (name, ", ".join(args)))
        elif q < 0.74:
            g.f("wb:getline")
            st.append(g.pick(["(getline %s);", '(getline %s < "in");', '("echo -1" | getline %s);', '("echo a b c" | getline %s);', '("echo -1" || getline %s);']) % tgt)
        elif q < 0.86:
            g.f("wb:assign")
            st.append("%s %s %s;" % (tgt, g.pick(["=", "=", "-=", "%%=", "*=", "**=", "<<="]), g.pick(WB_REJECT)))
        elif q < 0.93:
            g.f("wb:incdec")
            st.append(g.pick(["%s--;", "--%s;", "%s++;", "%s -= 10;"]) % tgt)
        else:
            g.f("wb:byref")
            st.append("wbset(%s, %s);" % (tgt, g.pick(WB_REJECT)))
    st.append("print wn, NF, OFMT, length(m);")
    ctx = g.pick(["BEGIN", "BEGIN", "", "END", "NR == 1"])
    return "function wbset(&x, v) { x = v; return 1; }\n%s { %s }\n" % (ctx, " ".join(st))


def console_args(g):
    """the console-input walk over ARGV[1..ARGC-1]: elements rewritten by the script (empty, assignment-shaped, missing files, "-",
    non-strings, deleted), ARGC moved, then the console is read by the main rules, getline, nextfile"""
    r = g.r
    g.f("t:console-args")
    st = []
    for _ in range(g.pick([1, 1, 2, 3, 4])):
        q = r.random()
        idx = g.pick(["0", "1", "1", "2", "2", "3", "5", "-1", '"x"'])
        if q < 0.7:
            st.append("ARGV[%s] = %s;" % (idx, g.pick(['""', '""', '"in"', '"nofile"', '"-"', '"x=1"', '"="', '"a=b=c"', '"FS=:"', '"NF=-1"', '"/dev/null"', "@nil", "5",
                                                       '"in"', "m", '@b"in"', "' '", '" "', '"\\0"', '"f1"'])))
        elif q < 0.85:
            st.append("delete ARGV[%s];" % idx)
        else:
            st.append(g.pick(["delete ARGV;", "ARGV = 1;", '@reset ARGV;', "m[1] = 1; ARGV[1] = m[1];"]))
    if r.random() < 0.8:
        st.append("ARGC = %s;" % g.pick(["1", "2", "2", "3", "3", "4", "6", "0", "-1", '"x"', "100"]))
    rules = ["BEGIN { %s }" % " ".join(st)]
    for _ in range(g.pick([1, 1, 2])):
        rules.append(g.pick(["{ print FILENAME, FNR, $0; }", "{ n++; if (n > 40) exit; print; }", "{ nextfile; }", "{ while ((getline l) > 0) n++; print n; }",
                             "END { print NR, (getline x), x; }", "BEGIN { while ((getline l) > 0) print l; print (getline); }", "1", "{ ARGV[2] = \"\"; ARGC = 3; print; }",
                             "NR == 1 { ARGV[ARGC++] = \"\"; ARGV[ARGC++] = \"in\"; }"]))
    return "\n".join(rules) + "\n"



# sizes around the growth steps of the runtime's internal buffers (for-in key snapshot: 128 slots; field table: 16/32/256; value caches: 128 per
# size class; format buffers 8192 / 512; rio buffers 2048) — a pointer held across a reallocation, or a count tested against the wrong bound,
# shows only when such a step is crossed
LC_SIZES = [5, 15, 16, 17, 31, 32, 33, 100, 120, 126, 127, 128, 129, 130, 135, 140, 200, 255, 256, 257, 300, 511, 513, 1000, 2100]
LC_VALS = ["i", "i", '"v" i', '@b"ab"', '@b"abcdefg"', '@b"x" i', '"s"', "i * 1.5", "(4611686018427387904 + i)", '"0123456789abcdef" i', "@b'z'", "'c'", '""', '@b""',
           'sprintf("%020d", i)', "hawk::array(i)", 'hawk::map("k", i)', "@nil", '(@b"abcdefghijklmnopqrstuvwxyz" i)', 'substr("abcdefghijklmnopqrstuvwxyz", 1, i % 27)',
           'str::tombs(substr("abcdefghijklmnopqrstuvwxyz", 1, i % 27))']


def large_containers(g):
    """containers, records and strings with hundreds to thousands of elements built by loops, then used by several consumers at once:
    nested for-in (same / different container, inner loop in a called function, recursion), deletion during iteration, wholesale release
    followed by new values of the neighbouring size class, asort/split/splita of large inputs, records with many fields, long formatted
    output and long lines through files"""
    r = g.r
    g.f("t:large-containers")
    cn = ["ma", "mb", "mc"]
    fn = []
    fn.append("function lcfill(&c, n, kind) { @local i; for (i = 0; i < n; i++) { if (kind == 0) c[i] = i; else if (kind == 1) c[\"k\" i] = \"v\" i; else c[i] = @b\"ab\"; } return n; }")
    fn.append("function lcwalk(c, lim) { @local k, n; n = 0; for (k in c) { n++; if (lim > 0 && n >= lim) break; } return n; }")
    fn.append("function lcrec(c, d) { @local k, n; n = 0; if (d <= 0) return 0; for (k in c) { n += lcrec(c, d - 1) + 1; if (n > 2000) break; } return n; }")
    st = []
    sizes = {}

    def size():
        return g.pick(LC_SIZES)

    def build(c):
        n = size()
        sizes[c] = n
        q = r.random()
        if q < 0.55:
            g.f("lc:build-loop")
            return "for (i = 0; i < %d; i++) %s[%s] = %s;" % (n, c, g.pick(["i", "i", '"k" i', "i, 1", "-i", 'sprintf("%05d", i)']), g.pick(LC_VALS))
        if q < 0.65:
            g.f("lc:build-array")
            return "%s = hawk::array(); for (i = 0; i < %d; i++) %s[i%s] = %s;" % (c, n, c, g.pick(["", "", " * 2", " + 1"]), g.pick(LC_VALS))
        if q < 0.80:
            g.f("lc:build-split")
            return 'ls = ""; for (i = 0; i < %d; i++) ls = ls "w" i %s; nn = %s(ls, %s%s);' % (
                n, g.pick(['" "', '":"', '"  "', '",;"']), g.pick(["split", "str::split", "str::splita"]), c, g.pick(["", ', ":"', ', /[ :,;]+/', ', " "']))
        if q < 0.9:
            g.f("lc:build-fn")
            return "lcfill(%s, %d, %d);" % (c, n, r.randrange(3))
        g.f("lc:build-match")
        return 'ls = ""; for (i = 0; i < %d; i++) ls = ls "ab"; nn = gsub(/a/, "&&", ls); %s[1] = ls; %s[2] = length(ls);' % (n, c, c)
    used = []
    for _ in range(g.pick([1, 2, 2, 3])):
        c = g.pick(cn)
        used.append(c)
        st.append(build(c))
    for _ in range(g.pick([1, 2, 3, 4])):
        a, b = g.pick(used), g.pick(used + cn)
        q = r.random()
        if q < 0.22:
            g.f("lc:nested-forin")
            lim = g.pick(["", "", " if (++n1 > %d) break;" % g.pick([1, 2, 5, 50])])
            inner = g.pick(["for (k2 in %s) { n2++; }" % b, "n2 += lcwalk(%s, %s);" % (b, g.pick(["0", "0", "1", "3"])), "n2 += lcrec(%s, 2);" % b,
                            "for (k2 in %s) { for (k3 in %s) { n2++; break; } }" % (b, g.pick(used)), "nn = split(\"a b c\", tmp); for (k2 in tmp) for (k3 in %s) { n2++; }" % b])
            if sizes.get(a, 0) * sizes.get(b, 5) > 60000:
                lim = " if (++n1 > 20) break;"
            st.append("n1 = 0; for (k1 in %s) { %s%s x = x k1; }" % (a, inner, lim))
        elif q < 0.34:
            g.f("lc:delete-while-iterating")
            st.append("for (k1 in %s) { %s }" % (a, g.pick(["delete %s[k1];" % a, "delete %s;" % a, "if (k1 %% 2) delete %s[k1]; else %s[k1 \"x\"] = 1;" % (a, a),
                                                           "@reset %s;" % a, "%s[k1, 1] = k1; delete %s[k1];" % (b, a), "delete %s; for (k2 in %s) n2++;" % (a, b)])))
        elif q < 0.50:
            g.f("lc:release-then-next-class")
            rel = g.pick(["delete %s;" % a, "@reset %s;" % a, "%s = @nil;" % a, "for (k1 in %s) delete %s[k1];" % (a, a), "%s = hawk::map();" % a, "hawk::gc();"])
            nxt = g.pick(['y1 = @b"abcdefgh"; y2 = @b"abcdefghi" x; y3 = @b"1234567";', 'for (i = 0; i < %d; i++) %s[i] = %s;' % (g.pick([3, 130, 260]), b, g.pick(LC_VALS)),
                          'y1 = "abcdefghijklmnop"; y2 = y1 "q"; y3 = substr(y2, 2);', "y1 = 4611686018427387904 + 1; y2 = y1 * 2; y3 = 1.5 + y1;",
                          'for (i = 0; i < 140; i++) z[i] = @b"abcdefghij"; delete z; y1 = @b"abcdefghijklmnopqrs";'])
            st.append("%s %s print y1, y2, y3, length(%s);" % (rel, nxt, b))
        elif q < 0.60:
            g.f("lc:asort")
            st.append("nn = %s(%s%s); print nn;" % (g.pick(["asort", "asorti"]), a, g.pick(["", ", " + b, ", " + a, ", %s, \"lccmp\"" % b])))
        elif q < 0.72:
            g.f("lc:many-fields")
            n = size()
            st.append(g.pick(['ls = ""; for (i = 0; i < %d; i++) ls = ls i " "; $0 = ls; print NF, $NF, $(NF-1); $%d = "x"; NF = %d; print NF, length($0);' % (n, g.pick([1, n, n + 1, n + 40]), g.pick([n - 1, n + 1, 2 * n + 1, 1])),
                              'NF = %d; $%d = "y"; print NF; $0 = "a b"; print NF; $%d = "z"; print NF;' % (n, n + 1, g.pick([n, 3 * n])),
                              'for (i = 1; i <= %d; i++) $i = i; print NF; for (i = NF; i > 0; i -= 7) $i = ""; $0 = $0; print NF;' % n]))
        elif q < 0.84:
            g.f("lc:long-format")
            n = g.pick([500, 511, 512, 513, 2047, 2048, 2049, 4096, 8191, 8192, 8193, 10000])
            st.append(g.pick(['y1 = sprintf("%%%dd|%%-%ds|", 5, "ab"); print length(y1);' % (n, n), 'y1 = sprintf("%%.%df", 1.5); print length(y1);' % min(n, 4000),
                              'ls = sprintf("%%%ds", "x"); print ls > "f1"; close("f1"); (getline y2 < "f1"); print length(y2); close("f1");' % n,
                              'printf "%%%dd %%s\\n", 1, %s[1] > "/dev/null";' % (n, a), 'ls = sprintf("%%%ds", "x"); y1 = ls ls; y2 = y1 y1; print length(y2), index(y2, "x");' % n,
                              'ls = sprintf("%%%ds", "x"); print ls | "cat"; close("cat"); print toupper(ls) tolower(ls) > "/dev/null";' % n]))
        else:
            g.f("lc:length-in")
            st.append("print length(%s), (%d in %s), (\"k%d\" in %s), lcwalk(%s, 0);" % (a, size(), a, size(), a, b))
    st.append("print n1, n2, length(x);")
    ctx = g.pick(["BEGIN", "BEGIN", "BEGIN", "", "END"])
    fn.append("function lccmp(a, b) { return (a < b) ? -1 : (a > b); }")
    return "\n".join(fn) + "\n%s { %s }\n" % (ctx, " ".join(st))


PE_INT = ["1", "0", "2", "7", "9223372036854775807", "010", "0x1F"]
PE_FLT = ["2.5", "0.0", ".5", "1e3", "3.0", "1e300"]
PE_STR = ['"abc"', '""', '"1"', "'c'", '@b"ab"', "@b'x'"]
PE_OTH = ["x", "$1", "NF", "m[1]", "f(1)", "(1)", "(2.5)", "-1", "!x", "@nil", "/re/", "length()", "x++", "++x"]
PE_OPS = [["+", "-"], ["*", "/", "%", "\\"], ["**", "^"], [" "], ["%%"], ["<", "<=", ">", ">=", "==", "!=", "===", "!=="], ["~", "!~"], ["&&"], ["||"], ["&", "^^", "<<", ">>"],
          ["in"], ["=", "+=", "-=", "*=", "/=", "%=", "**="], ["?"], [","]]
PE_LEX = ['"abc', '"abc\\', "'a", "'ab'", "''", '@b"abc', "@b'", "@b", "\udc80", "\udcff", "\udcc3", "\x01", "\x7f", "@unknownword", "@", "@b'ab'", '"\\x', '"\\u12', '"\\U0011', "`", "0x", "1e+", "1.2.3",
          "/abc", "/a\\", "/[a", "$", "$$", "#", "", "\\", "\\ x", "::", "x::", "str::", "str::nosuch", "@pragma", "@include", '@include "nofile"', "@argv", "@argc[", "\r", "\t\x0b\x0c"]
PE_SYN = [")", "]", "}", ";", ";;", "*", "/ 2", "in", "in in", "?", ":", ",", "function", "BEGIN", "END", "else", "while", "getline", "print", "printf", "delete", "return", "(", "((", "[",
          "{", "=", "==", "!", "~", "++", "--", ". 5", ")(", "x y z (", "@local x", "@global y", "next", "exit", "1 2 3 )", "f(", "m[", "$("]


def parse_error_after_prefix(g):
    """a valid (often constant-foldable) expression prefix of every operator family and operand-type order, in every syntactic position,
    then an operator and — at that operator boundary — a lexical error (unterminated literal, stray byte, unknown @word, bad escape, EOF)
    or a syntax error: the parser's error exits must release what the prefix built exactly once"""
    r = g.r
    g.f("t:parse-error-after-prefix")
    pools = [PE_INT, PE_FLT, PE_STR, PE_OTH]

    def operand():
        q = r.random()
        pool = PE_INT if q < 0.35 else PE_FLT if q < 0.65 else PE_STR if q < 0.8 else PE_OTH
        return g.pick(pool)
    fam = g.pick(PE_OPS[:2] * 4 + PE_OPS)
    if r.random() < 0.5:
        # a chain of literals only (what the constant folder rewrites in place), every order of operand types, error right behind it
        g.f("pe:fold-chain")
        kinds = g.pick([(PE_INT, PE_FLT), (PE_INT, PE_FLT), (PE_FLT, PE_INT), (PE_FLT, PE_INT), (PE_INT, PE_INT), (PE_FLT, PE_FLT), (PE_STR, PE_INT), (PE_INT, PE_STR),
                        (PE_FLT, PE_STR), (PE_STR, PE_FLT), (PE_STR, PE_STR)])
        n = g.pick([2, 2, 2, 3, 3, 4])
        lead = [g.pick(g.pick([PE_INT, PE_FLT, PE_STR])) for _ in range(n - 2)]
        ops_ = lead + [g.pick(kinds[0]), g.pick(kinds[1])]
        toks = [ops_[0]]
        for o in ops_[1:]:
            toks += [g.pick(fam), o]
    else:
        n = g.pick([1, 2, 2, 3, 3, 4, 6])
        toks = [operand()]
        for _ in range(n - 1):
            op = g.pick(fam) if r.random() < 0.8 else g.pick(g.pick(PE_OPS))
            toks += [op, operand()]
            if op == "?":
                toks += [":", operand()]
        if r.random() < 0.25:
            k = r.randrange(0, len(toks), 2)
            toks[k] = "(" + toks[k]
            toks[-1] = toks[-1] + ")"
    lastop = g.pick(fam) if r.random() < 0.75 else g.pick(g.pick(PE_OPS))
    if r.random() < 0.85:
        err = g.pick(PE_LEX); g.f("pe:lexical")
    else:
        err = g.pick(PE_SYN); g.f("pe:syntax")
    tail = g.pick(["", "", "", " }", " ; }", ") }", " + 1 }", "\n", " 2.5"])
    expr = " ".join(toks) + " " + lastop + " " + err + tail
    ctx = g.pick(["BEGIN { print %s", "BEGIN { x = %s", "BEGIN { x = y = %s", "function f(a) { return %s", "%s", "%s { print }", "BEGIN { f(%s", "BEGIN { m[%s", "BEGIN { if (%s",
                  "BEGIN { while (%s", "BEGIN { printf \"%%d %%s\", %s", "BEGIN { print 1, %s", "BEGIN { for (i = %s", "BEGIN { for (;;%s", "BEGIN { x = (%s", "BEGIN { print > %s",
                  "BEGIN { getline < %s", "BEGIN { %s | getline", "BEGIN { delete m[%s", "BEGIN { $(%s", "BEGIN { x = -%s", "BEGIN { x = !%s", "BEGIN { return %s", "BEGIN { exit %s",
                  "BEGIN { do { } while (%s", "BEGIN { x = z ? %s", "BEGIN { x = z ? 1 : %s", "BEGIN { x = substr(\"abc\", %s", "@global g; BEGIN { g = %s", "BEGIN { @local l; l = %s",
                  "function f(a, ...) { return @argv[%s", "BEGIN { if (1) x = 1; else x = %s", "/%s", "BEGIN { x = hawk::array(%s", "BEGIN { (%s", "NR == %s", "BEGIN { x = 1; } END { y = %s",
                  "function f(a) { return a; } BEGIN { print f(1) + %s"])
    pre = g.pick(["", "", "", "@pragma implicit on;\n", "function h(a, b) { return a + b; }\n", "BEGIN { a = 1 + 2.5; b = \"x\" \"y\"; }\n", "@global g1;\n"])
    return pre + (ctx % expr) if "%s" in ctx else pre + ctx + expr


# subjects of every string-like type, and the patterns that decide termination of a scanning loop: matches of length zero at the start,
# in the middle and at the end, anchors, optional/alternation-with-empty, as regex literal, as string (compiled per call) and as byte string
TW_SUBJ = ['"abcabc"', '@b"abcabc"', '"a b  c"', '@b"a b  c"', '""', '@b""', '"a"', '@b"a"', "'a'", "@b'a'", '"aXbXc"', '@b"aXbXc"', '"가나다abc"', '@b"\\xff\\xfeab"',
           "12345", "1.5", "@nil", '"a:b:c:"', '@b"a:b:c:"', '"\\n\\na\\n\\nb\\n"', '@b"x\\x00y"', '"abc\\n"', '@b"abc\\n"']
TW_PATS = ['/$/', '/^/', '/x*/', '/a*/', '/a*$/', '/(a|)/', '/()/', '/b*c*/', '/[a-z]*/', '/\\y/', '/.?/', '/$|^/', '/a|$/', '/c?$/', '/(b|)*/', '/ */', '/X*/',
           '""', '"$"', '"^"', '"x*"', '"a*$"', '"(a|)"', '"[a-z]*"', '@b""', '@b"$"', '@b"x*"', '@b"c*$"', "'a'", "@b'a'", "@b'$'",
           '/a/', '/b+/', '/[ac]/', '"b"', '@b"b"', '/./', '/.*/', '/abc$/', '/^abc/', '" "', '@b" "', '":"', "tp", "tp"]
TW_REPL = ['"-"', '@b"-"', '""', '@b""', '"&&"', '"[&]"', '"\\\\&"', '@b"[&]"', "'r'", "@b'r'", "5", "1.5", "@nil", '"\\\\1\\\\2"', '"가"', '@b"\\xff"', '"0123456789"']


def twin_sweep(g):
    """every builtin and operator that has a byte-string twin, driven with subjects of each string-like type (string, byte string, character,
    byte character, number, nil) and with the patterns that decide whether its scanning loop ends"""
    r = g.r
    g.f("t:twin-sweep")
    st = []
    st.append("tp = %s; tu = %s; tv = %s; tw = tv;" % (g.pick(['"x*"', '"$"', '@b"$"', '@b"x*"', '""', '"a*"', "'a'", '/a*/']), g.pick(TW_SUBJ), g.pick(TW_SUBJ)))
    if r.random() < 0.35:
        st.append("IGNORECASE = %s;" % g.pick(["1", "0", "-1", "2.5"]))
    if r.random() < 0.3:
        st.append("$0 = %s;" % g.pick(TW_SUBJ))
    for _ in range(g.pick([1, 2, 3, 4])):
        subj, pat, rep = g.pick(TW_SUBJ), g.pick(TW_PATS), g.pick(TW_REPL)
        tgt = g.pick(["tu", "tv", "tu", "tv", "$0", "$1", "$2", "m[1]", "tw"])
        q = r.randrange(16)
        if q < 4:
            g.f("tw:sub"); fn = g.pick(["sub", "gsub", "gsub", "str::sub", "str::gsub", "str::gsub"])
            form = g.pick(["%s(%s, %s, %s)" % (fn, pat, rep, tgt), "%s(%s, %s, %s)" % (fn, pat, rep, tgt), "%s(%s, %s)" % (fn, pat, rep)])
            st.append("%s = %s; tn = %s; print tn, hawk::typename(%s), %s;" % (tgt if tgt not in ("$1", "$2") else "$0", subj, form, tgt, tgt))
        elif q < 6:
            g.f("tw:match"); st.append(g.pick(["tn = match(%s, %s); print tn, RSTART, RLENGTH;" % (subj, pat), "tn = match(%s, %s, tm); print tn, length(tm), tm[0], tm[1, \"start\"];" % (subj, pat),
                                               "tn = str::match(%s, %s, %s); print tn, RSTART;" % (subj, pat, g.pick(["1", "0", "-1", "3", "7", "100"])),
                                               "tn = str::match(%s, %s, %s, tm); print tn, length(tm), hawk::typename(tm[0]);" % (subj, pat, g.pick(["1", "2", "-2", "6", "7"]))]))
        elif q < 9:
            g.f("tw:split"); fs = g.pick(TW_PATS + ['"?:\\"\\"\\\\"', '"?,\'\'\\\\"', '@b"?:\\"\\"\\\\"', '"?"', '"? "', '"?????"', '" "', "@nil", '"\\t"', "'\\t'", '""'])
            st.append("tn = %s(%s, ta%s); print tn, length(ta), hawk::typename(ta[1]), ta[1], ta[tn];" % (g.pick(["split", "split", "str::split", "str::splita"]), subj, g.pick(["", ", " + fs, ", " + fs])))
        elif q < 10:
            g.f("tw:index"); st.append("print %s(%s, %s%s), %s(%s, %s);" % (g.pick(["index", "str::index", "str::rindex"]), subj, g.pick(TW_SUBJ), g.pick(["", ", 2", ", -1", ", 0", ", 100"]),
                                                                          g.pick(["substr", "str::substr", "str::subchar"]), subj, g.pick(["0", "1", "2", "-1", "7", "100"])))
        elif q < 11:
            g.f("tw:case-trim"); st.append("print %s(%s), %s(%s), length(%s), str::tocharcode(%s), hawk::typename(str::tombs(%s)), hawk::typename(str::frommbs(%s)), str::tonum(%s);" % (
                g.pick(["tolower", "toupper", "str::tolower", "str::toupper"]), subj, g.pick(["str::trim", "str::ltrim", "str::rtrim", "str::normspace"]), subj, subj, subj, subj, subj, subj))
        elif q < 13:
            g.f("tw:format"); fmt = g.pick(['@b"%s|%5s|%-5s|%.2s|%c|%d|%x|%5.1f|%e|%%"', '"%s|%5s|%-5s|%.2s|%c|%d|%x|%5.1f|%e|%%"', '@b"%*s|%-*s|%.*s"', '@b"%c%c%c"', '@b"%s"', '@b"%5$s"', '@b"%"', '@b"%l"',
                                            '@b"%10000s"', "tu", "tv", '@b"\\xff%s\\x00%d"'])
            args = ", ".join(g.pick(TW_SUBJ + ["65", "-1", "1e300", "300", "'x'", "@b'y'", "m"]) for _ in range(r.randint(0, 9)))
            st.append(g.pick(["tn = sprintf(%s%s); print hawk::typename(tn), length(tn);", "printf %s%s; print \"\";", "tn = str::printf(%s%s); print length(tn);", "printf(%s%s) > \"/dev/null\";"]) % (fmt, (", " + args) if args else ""))
        elif q < 14:
            g.f("tw:ops"); op = g.pick(["==", "!=", "<", ">", "<=", ">=", "===", "!==", "~", "!~", " ", "%%", "in"])
            st.append("print (%s %s %s), (%s %s %s), hawk::typename(%s %s);" % (subj, op if op != "in" else "==", g.pick(TW_SUBJ), "tu", op if op != "in" else "~", pat, subj, g.pick(TW_SUBJ)))
            # the comparison table is indexed by the pair of operand types: every type on either side, containers and function values included
            ty = ["@nil", "'c'", "@b'c'", "5", "2.5", '"s"', '@b"s"', "twf", "m", "r", "tu", "tv"]
            st.append("m[1] = 1; r = hawk::array(1); print (%s %s %s), (%s %s %s);" % (g.pick(ty), g.pick(["==", "!=", "<", ">", "<=", ">="]), g.pick(ty), g.pick(ty), g.pick(["==", "<", ">=", "!="]), g.pick(ty)))
        else:
            g.f("tw:getbline")
            st.append(g.pick(['RS = %s; while ((getbline tl%s) > 0) { tc++; if (tc > 50) break; } print tc, hawk::typename(tl);' % (g.pick(['"\\n"', '""', '"[bd] ?"', '"x*"', '"$"', '" +"', "@b\"\\n\"", '"\\n\\n+"', "'\\n'"]), g.pick(["", ' < "in"', ' < "in"'])),
                              '("echo a b c" | getbline tl); print hawk::typename(tl), tl; close("echo a b c");', '("echo a b c" || getbline tl); print tl; close("echo a b c", "r");',
                              'print tu > "f1"; close("f1"); RS = %s; (getbline tl < "f1"); print length(tl); (getline tk < "f1"); print length(tk);' % g.pick(['"c"', '"b+"', '"$"', '""'])]))
    ctx = g.pick(["BEGIN", "BEGIN", "BEGIN", "", "END"])
    return "function twf(a) { return a; }\n%s { %s }\n" % (ctx, " ".join(st))


# special variables whose setter can refuse a value: (name, values it accepts, values it refuses or that fail on the way in)
SH_VARS = [("FS", ['"ab+"', '"[,;]+"', '":"', '" "', '"x|y"', '"?:\\"\\"\\\\"', '@b"ab+"', "'a'"], ['"a("', '"[a"', '"a{2,"', '"(("', '"*+"', "m", '"\\\\"', '"a(" bs']),
           ("RS", ['"ab+"', '"\\n\\n+"', '"x"', '""', '"[,;]"'], ['"a("', '"[a"', '"(("', "m", '"a{1"']),
           ("NF", ["3", "1", "0", "5", "NF + 2"], ["-1", '"-5"', "-9223372036854775807", "m", "4611686018427387904", "1e300", '"x"']),
           ("OFMT", ['"%.3g"', '"%d"', '"%.6g"'], ['"\\0"', '"%.3g\\0"', "m"]),
           ("CONVFMT", ['"%.3g"', '"%d"', '"%.6g"'], ['"\\0"', '"x\\0y"', "m"]),
           ("IGNORECASE", ["1", "0", "2", '"1"'], ["m", "r"]),
           ("SUBSEP", ['":"', '"--"'], ["m"]), ("OFS", ['":"', '"--"', '""'], ["m"]), ("ORS", ['"\\n"', '"|"'], ["m"]),
           ("NR", ["5", "0"], ["m", "r"]), ("FNR", ["5", "0"], ["m"]), ("FILENAME", ['"x"'], ["m"]),
           ("NUMSTRDETECT", ["1", "0"], ["m"]), ("STRIPRECSPC", ["1", "0"], ["m"]), ("STRIPSTRSPC", ["1", "0"], ["m"]),
           ("$0", ['"a b c"', '"x"'], ["m", "r"]), ("$3", ['"z"', "5"], ["m"]), ("$(-1)", [], ['"x"']), ("$(4611686018427387904)", [], ['"x"']),
           ("ARGC", ["2", "1"], ["m"]), ("ARGV", [], ["1"]), ("ENVIRON", [], ["1"])]


def setter_history(g):
    """a special variable is given one or two values its setter accepts (so that it holds derived state: compiled expressions, cached
    strings, rebuilt fields), is used, and is then given a value the setter refuses — by assignment, compound assignment, a by-reference
    write-back, getline, or a by-reference parameter; the run-time keeps being used where the language allows and is closed afterwards"""
    r = g.r
    g.f("t:setter-history")
    st = ['m[1] = 1; r = hawk::array(1); bs = @b"x"; sv = "a abb c,d;e";']
    name, good, bad = g.pick(SH_VARS)
    g.f("sh:" + re.sub(r"[^A-Za-z$]", "", name)[:10])
    use = g.pick(['$0 = sv; print NF, $1, $2;', 'n = split(sv, ta); print n, ta[1];', 'print (sv ~ /A/), index(sv, "B"), 1.23456789 "", 3.0;', '$3 = "q"; print; print NF;',
                  'while ((getline l < "in") > 0) c++; close("in"); print c;', 'print m[1, 2], (1, 2) in m; print 1, 2;', '$0 = "x y"; $5 = "z"; print; NF = 2; print;',
                  'print length($0), $NF, NR, FNR, FILENAME;'])
    for _ in range(g.pick([0, 1, 1, 2, 2, 3])):
        if good:
            st.append("%s = %s;" % (name, g.pick(good)))
            if r.random() < 0.7:
                st.append(use)
    # also disturb a second variable's state now and then
    if r.random() < 0.3:
        n2, g2, b2 = g.pick(SH_VARS)
        if g2:
            st.append("%s = %s;" % (n2, g.pick(g2)))
    b = g.pick(bad)
    q = r.random()
    if q < 0.5:
        st.append("%s = %s;" % (name, b))
    elif q < 0.6:
        st.append("%s %s %s;" % (name, g.pick(["%%=", "+=", "-=", "*=", "**=", "<<="]), b))
    elif q < 0.75:
        st.append('tx = "0"; %s("0", %s, tx); %s(%s, %s, %s);' % ("sub", '"1"', g.pick(["sub", "gsub", "str::sub", "str::gsub"]), g.pick(['"."', '".*"', '"^"', '"$"', '""', "/./", "/^/"]), b if b not in ("m", "r") else '"a("', name))
    elif q < 0.85:
        st.append(g.pick(['(getline %s < "in");', '("echo -1" | getline %s);', "(getline %s);", '("echo a b c" | getbline %s);']) % name)
    elif q < 0.93:
        st.append("shset(%s, %s);" % (name, b))
    else:
        st.append("split(%s, %s); n = str::splita(sv, %s);" % (b if b not in ("m", "r") else "sv", name, name))
    st.append(use)
    st.append("%s = %s; print %s;" % (name, g.pick(good) if good else '"x"', name))
    ctx = g.pick(["BEGIN", "BEGIN", "", "", "END", "NR == 2"])
    tail = g.pick(["", "", "END { %s }" % use, "{ print NF }"])
    return "function shset(&x, v) { x = v; return 1; }\n%s { %s }\n%s\n" % (ctx, " ".join(st), tail)


# ------------------------------------------------------------------------------------------------------------------
# round 5 families
# ------------------------------------------------------------------------------------------------------------------
# one literal per value type: int, float, integral float, nil, string, byte string, char, byte char, numeric string, map, array
VT_VALUES = [("int", "3"), ("int", "0"), ("int", "-1"), ("flt", "2.5"), ("flt", "0.5"), ("iflt", "3.0"), ("iflt", "1e3"), ("flt", "1e300"), ("flt", "-(log(-1))"),
             ("nil", "@nil"), ("str", '"ab+"'), ("str", '":"'), ("str", '""'), ("mbs", '@b":"'), ("mbs", '@b"\\xff"'), ("mbs", '@b""'), ("chr", "':'"), ("chr", "'가'"),
             ("bchr", "@b':'"), ("bchr", "@b'\\xff'"), ("nstr", '"2.5"'), ("nstr", '" 3 "'), ("big", "4611686018427387904"), ("big", "9223372036854775807"),
             ("map", "m"), ("arr", "r"), ("fun", "shset"), ("rex", "/a+/")]
VT_VARS = ["FS", "RS", "OFS", "ORS", "CONVFMT", "OFMT", "SUBSEP", "IGNORECASE", "NF", "NR", "FNR", "RSTART", "RLENGTH", "FILENAME", "NUMSTRDETECT", "STRIPRECSPC"]
# what derives state from the variable (cached string / compiled expression / numeric copy) and then uses it
VT_USES = ['$0 = "a:b 2.5 c"; print NF, $1, $2;', 'while ((getline l < "in") > 0) c++; close("in"); print c;', '$3 = "q"; print; print NF;', 'print 1.23456789 "", 3.0 "", 1e6 "";',
           'print m[1, 2], ((1, 2) in m), (2.5, 1) in m;', 'print 1, 2.5; print 3.25;', 'n = split("a:b 2.5 c", ta); print n;', '(getline); print $0, NF, NR;', '("echo a:b 2.5 c" | getline); print $1;',
           'print ("A" ~ /a/), index("xAy", "a");', '$0 = "x y z"; NF = 2; print; $5 = "w"; print;', 'print length(), NR, FNR;', 'x = 2.5 ""; y = x + 0; print x, y;']


def value_type_setter(g):
    """a special variable takes values of every value type in turn (int, float, integral float, nil, string, byte string, char, byte char, map -> refused),
    with a use of the state derived from it between the stores, and with CONVFMT/OFMT (which decide how a numeric value of FS/RS/OFS/SUBSEP becomes text) changed
    between the store that caches the text and the use"""
    r = g.r
    g.f("t:vt-setter")
    name = g.pick(VT_VARS)
    g.f("vs:" + name)
    st = ['m[1] = 1; r = hawk::array(1);']
    for _ in range(g.pick([2, 3, 3, 4, 5])):
        ty, v = g.pick(VT_VALUES)
        g.f("vt:" + ty)
        q = r.random()
        if q < 0.7:
            st.append("%s = %s;" % (name, v))
        elif q < 0.8:
            st.append("%s %s %s;" % (name, g.pick(["+=", "%=", "**=", "<<=", "%%=", "\\="]), v))
        elif q < 0.9:
            st.append("shset(%s, %s);" % (name, v))
        else:
            st.append('tx = "0"; sub(/0/, %s, tx); sub(/^/, tx, %s);' % (v if ty not in ("map", "arr", "fun", "rex") else '"a("', name))
        if r.random() < 0.45:
            st.append("%s = %s;" % (g.pick(["CONVFMT", "OFMT", "CONVFMT"]), g.pick(['"%d"', '"%.1g"', '"%.30f"', '"%c"', '"%s"', '"%%"', '"%5.2e|"', '"%.0f"', '"%x"', "2.5", "m", '""'])))
        if r.random() < 0.75:
            st.append(g.pick(VT_USES))
    st.append(g.pick(VT_USES))
    ctx = g.pick(["BEGIN", "BEGIN", "", "NR == 2", "END"])
    tail = g.pick(["", "", "{ print NF, $1 }", "END { %s }" % g.pick(VT_USES)])
    return "function shset(&x, v) { x = v; return 1; }\n%s { %s }\n%s\n" % (ctx, " ".join(st), tail)


HUGE = ["2147483647", "2147483648", "4294967295", "4294967296", "2305843009213693952", "4611686018427387903", "4611686018427387904", "9223372036854775807",
        "-9223372036854775807-1", "-1", "-2147483649", "-4294967297", "18446744073709551615", "1e19", "-1e19", "1e308", "2.5e9", '"4294967296"', '@b"2147483648"', "0x7fffffffffffffff"]
HUGE_CALLS = ["substr(S, H)", "substr(S, 1, H)", "substr(S, H, H2)", "str::substr(S, H, H2)", "str::subchar(S, H)", "index(S, P, H)", "str::index(S, P, H)", "str::rindex(S, P, H)",
              "match(S, /b/, H)", "str::match(S, /b/, H, q)", 'sprintf("%*d", H, 1)', 'sprintf("%.*f", H, 1.5)', 'sprintf("%*.*s", H, H2, S)', 'sprintf("%-*d|", H, 1)', 'sprintf("%c", H)',
              'sprintf("%Hd", 1)', 'sprintf("%.Hs", S)', "str::fromcharcode(H)", "str::frombcharcode(H, H2)", "str::tocharcode(S, H)", "str::tonum(S, H)", "split(S, ta, P) + H", "str::repeat(S, H)",
              "hawk::array(H)[H2]", "hawk::gc_set_threshold(H, H2)", "hawk::gc(H)", "srand(H)", "int(H)", "close(S, H)", "length($H)", "$H", "($H = 1)", "(NF = H)", "(NR = H)", "(ta[H] = 1)",
              "(r[H] = 1)", "r[H]", "(1 << H)", "(H >> H2)", "(H ** H2)", "(2 ** H)", "(H % H2)", "(H \\ H2)", "math::pow(H, H2)", "math::round(H)", "toupper(H)", "str::trim(S, H)",
              "str::normspace(H)", "str::isdigit(H)", "hawk::hash(H)", "(S ~ H)", "asort(m, mo, H)", 'getline x < H', "fflush(H)", "(RSTART = H)", "(RLENGTH = H)", "(ARGC = H)", "(FNR = H)"]


def huge_counts(g):
    """every builtin argument that is a position, length, count, width, precision, code point, base or index, with 2^31, 2^32, 2^61, 2^62, 2^63-1, -2^63, -1
    (as unsigned: 2^64-1), float and string spellings of them; for both character widths of the subject"""
    g.f("t:huge-counts")
    st = ['m[1] = 1; r = hawk::array(1, 2, 3); $0 = "a b c";']
    for _ in range(g.pick([1, 2, 3])):
        c = g.pick(HUGE_CALLS)
        g.f("hc:" + re.sub(r"[^A-Za-z:]", "", c)[:16])
        subj = g.pick(['"abcabc"', '@b"abcabc"', "'b'", "@b'b'", '"가나다b"', '""', '@b""', "12345", "$0"])
        pat = g.pick(['"b"', '@b"b"', "'b'", "@b'b'", '""', '"bc"'])
        c = c.replace("H2", g.pick(HUGE)).replace("H", g.pick(HUGE)).replace("S", subj).replace("P", pat)
        st.append(g.pick(["x = %s; print length(x);", "print %s;", "if (%s) print 1;", "x = x %s;"]) % c)
    ctx = g.pick(["BEGIN", "BEGIN", "", "END"])
    return "%s { %s }\n" % (ctx, " ".join(st))


RAW_BYTES = ["\x00", "\x00\x00", "\udcff", "\udcfe\udcff", "\udcc3", "\udce2\udc82", "\udcf0\udc90\udc80", "\udced\udca0\udc80", "\udcc0\udc80", "\x01", "\x1b", "\udc80", "a\x00b", "\udcff\x00"]
RAW_SLOTS = ['BEGIN { x = "aRb"; print x, length(x); }', "BEGIN { x = @b\"aRb\"; print length(x), x; }", "BEGIN { x = 'R'; print x; }", "BEGIN { x = @b'R'; print x; }",
             '{ if ($0 ~ /aRb/) print; gsub(/R/, "-"); print }', 'BEGIN { FS = "R"; } { print NF, $1 }', 'BEGIN { RS = "R"; } { print NR, $0 }', 'BEGIN { print index("xRy", "R"), substr("aRb", 2, 1); }',
             'BEGIN { xR = 1; print xR; }', 'BEGIN { print 1; } # comment R\n{ print }', 'BEGIN { printf "R%sR\\n", "R"; print sprintf("%c", "R"); }', 'BEGIN { m["R"] = 1; for (k in m) print k, length(k); delete m["R"]; }',
             'BEGIN { OFS = "R"; ORS = "R\\n"; $0 = "a b"; $1 = $1; print; }', 'BEGIN { print toupper("aRb"), str::tocharcode("R"), str::trim(" R "), hawk::hash("R"); }', 'BEGIN { print ("R" < "a"), ("R" == @b"R"), ("aR" "b"); }',
             'BEGIN { getline x < "R"; print "R" > "/dev/null"; close("R"); }', 'BEGIN { split("aRbRc", ta, "R"); print length(ta), ta[1]; print str::split("aRb", tb, @b"R"); }',
             '@pragma entry R\nBEGIN { print 1 }', '@include "R"\nBEGIN { print 1 }', 'function fR(a) { return a } BEGIN { print fR(1) }', 'BEGIN { print str::tombs("aRb"), str::frommbs(@b"aRb"); print "aRb" ~ "R"; }',
             'BEGIN { x = "a\\Rb"; y = /a\\Rb/; print x; }', 'BEGIN { print length("R") R; }', 'R', 'BEGIN { print 1 }R', 'BEGIN R{ print 1 }']


def raw_bytes_source(g):
    """NUL bytes and invalid / truncated UTF-8 sequences as raw bytes of the SOURCE text: inside string, byte-string, character and regular-expression literals,
    identifiers, comments, directives, after an escape, between tokens and at the very end"""
    g.f("t:raw-bytes")
    s = g.pick(RAW_SLOTS)
    b = g.pick(RAW_BYTES)
    g.f("rb:" + ("nul" if "\x00" in b else "ctl" if b in ("\x01", "\x1b") else "badutf8"))
    return s.replace("R", b) + g.pick(["\n", "", "\n"])


EOF_PROGRAMS = [
    'function f(a, b) { @local c; c = a + b * 2.5e+3 - 0x1F % 017; return c ** 2; }\nBEGIN { x = "str\\t\\x41\\u00e9\\101" @b"by\\xfftes" \'c\' @b\'\\xfe\' \'\\n\'; y = x ~ /re[a-z\\/]+(x|y){2,3}/ ? f(1, 2) : m["k", 1]; }\n',
    '@pragma entry main\n@global g1, g2;\nfunction main(a) { g1 = a; printf "%5.2f %s\\n", 1.5, "s" > "/dev/null"; print a, b >> "f1"; "echo x" | getline line; getline < "in"; return 0; }\n',
    '/start/,/end/ { n++; next } NR == 1 || $1 !~ /^#/ && !($2 in m) { m[$2] = NR; delete m[$1]; } END { for (k in m) { if (k == "x") continue; else break; } do { i--; } while (i > 0); exit 1; }\n',
    'BEGIN { a[1] = 1; a[1,2] <<= 3; x = a[1] >> 1 & 7 | 8 ^^ 9; y = x++ + ++x - x-- - --x; z = -x + !y + ~x; s = s "cat" 1 2.5; x %%= "q"; x **= 2; x \\= 3; @reset a; @abort; }\n',
    'BEGIN { x = hawk::array(1, 2); y = hawk::map("a", 1); print str::length(@b"abc"), math::sin(1.0), sys::EPERM; x[0]; (1, 2) in y; getline; getline z; "cmd" || getline w; nextfile; nextofile; }\n',
    '# comment line\nBEGIN { x = 1 \\\n + 2; # trailing\n y = "a\\\nb"; if (x) ; else if (y) { } for (;;) break; for (i = 0; i < 3; i++) continue; while (1) { exit } switch_ = 1; @include "nofile"\n }\n',
    'BEGIN { x = 1e; }\n', 'BEGIN { x = 0x; y = 0b12; z = 1.2.3; w = 1e+; }\n', 'BEGIN { print 1 > ; }\n', 'BEGIN { x = @nil; y = @b; z = @; }\n', 'BEGIN { x = "\\x4"; y = "\\u12"; z = "\\U0001"; w = \'\\x\'; v = "\\8"; }\n',
]


def eof_mid_token(g):
    """a program that ends inside, right before or right after every kind of token (keyword, directive, identifier, module-qualified name, decimal / hex / float literal
    with exponent, string / byte-string / character / byte-character literal with every escape kind, regular expression, operator of 1-3 characters, comment,
    line continuation): the reader reaches end-of-input in every scanner state"""
    g.f("t:eof-mid-token")
    src = g.pick(EOF_PROGRAMS)
    toks = [t for t in TOKEN_RE.findall(src)]
    idx = [i for i, t in enumerate(toks) if not t.isspace()]
    i = g.pick(idx)
    t = toks[i]
    j = g.r.randrange(0, len(t) + 1)
    kind = "str" if t[:1] in "\"'" or t.startswith("@b") else "num" if t[:1].isdigit() else "word" if (t[:1].isalpha() or t[:1] in "_@") else "op"
    g.f("eof:%s:%s" % (kind, "mid" if 0 < j < len(t) else "edge"))
    return "".join(toks[:i]) + t[:j]


# sizes around the per-runtime scratch buffers (format.tmp / formatmbs.tmp / format.out / fmt start at 4096 and grow in steps; conversion
# buffers of 64/128/256/512 cells; io buffers of 2048) and well beyond them
SCRATCH_SIZES = [60, 64, 65, 127, 128, 129, 255, 256, 257, 511, 512, 513, 2047, 2048, 2049, 4000, 4095, 4096, 4097, 5000, 8191, 8192, 8193, 12000, 20000, 70000, 200000, 300000]
# (wide form, byte-string twin) of operations that go through per-runtime scratch state; W = a size, V = a value
SCRATCH_OPS = [('x = sprintf("%Wd", V);', 'x = sprintf(@b"%Wd", V);'), ('printf "%Wd|\n", V > "/dev/null";', 'printf @b"%Wd|\n", V > "/dev/null";'),
               ('x = sprintf("%*d", W, V);', 'x = sprintf(@b"%*d", W, V);'), ('x = sprintf("%.Wd", V);', 'x = sprintf(@b"%.Wd", V);'), ('x = sprintf("%-Wx|", V);', 'x = sprintf(@b"%-Wx|", V);'),
               ('x = sprintf("%Ws", "a");', 'x = sprintf(@b"%Ws", @b"a");'), ('x = sprintf("%Ws", @b"a");', 'x = sprintf(@b"%Ws", "a");'), ('x = sprintf("%Wc", 65);', 'x = sprintf(@b"%Wc", 65);'),
               ('x = sprintf("%W.3f", 1.5);', 'x = sprintf(@b"%W.3f", 1.5);'), ('x = sprintf("%.Wf", 1.5);', 'x = sprintf(@b"%.Wf", 1.5);'), ('x = sprintf("%Wo%Wu", V, V);', 'x = sprintf(@b"%Wo%Wu", V, V);'),
               ('CONVFMT = "%W.2f"; x = 1.5 "";', 'CONVFMT = "%W.2f"; x = @b"" 1.5;'), ('OFMT = "%W.2f"; print 1.5 > "/dev/null";', 'OFMT = "%W.2f"; print @b"z", 1.5 > "/dev/null";'),
               ('s = sprintf("%Ws", "Ab"); x = toupper(s); x = tolower(s);', 's = sprintf(@b"%Ws", @b"Ab"); x = toupper(s); x = tolower(s);'),
               ('s = sprintf("%Ws", "ab"); n = gsub(/ /, "xy", s); x = s;', 's = sprintf(@b"%Ws", @b"ab"); n = gsub(/ /, @b"xy", s); x = s;'),
               ('s = sprintf("%Ws", "ab"); x = substr(s, 2, W); n = index(s, "b"); n = match(s, /b$/);', 's = sprintf(@b"%Ws", @b"ab"); x = substr(s, 2, W); n = index(s, @b"b"); n = match(s, /b$/);'),
               ('s = sprintf("%Ws", "a b"); n = split(s, ta, " "); $0 = s; x = $NF;', 's = sprintf(@b"%Ws", @b"a b"); n = split(s, ta, @b" "); $0 = s; x = $NF;'),
               ('x = str::trim(sprintf("%Ws", "a")); x = str::normspace(sprintf("%Ws  a", "a"));', 'x = str::trim(sprintf(@b"%Ws", @b"a")); x = str::normspace(sprintf(@b"%Ws  a", @b"a"));'),
               ('x = str::tombs(sprintf("%Ws", "가"));', 'x = str::frommbs(sprintf(@b"%Ws", @b"\\xea\\xb0\\x80"));'), ('x = V ""; y = x + 0;', 'x = @b"" V; y = x + 0;')]


def scratch_history(g):
    """twin sequences with size history: inside ONE runtime the wide and the byte-string variant of the same operation run one after the other, with sizes that
    straddle the scratch-buffer sizes (4096 and its growth steps, the 64..512-cell conversion buffers, the 2048-cell io buffers) in descending, ascending and
    mixed order — a variant that consults or reuses the state its twin left behind shows up only after the twin has grown"""
    r = g.r
    g.f("t:scratch-history")
    n = g.pick([2, 3, 3, 4, 5])
    order = g.pick(["straddle", "straddle", "desc", "asc", "mixed"])
    if order == "straddle":
        # one variant grows its buffer well past a boundary, then the twin is asked for a size between the boundary and that size
        bound = g.pick([64, 128, 256, 512, 2048, 4096, 4096, 4096, 8192])
        big = g.pick([x for x in SCRATCH_SIZES if x > bound + 1])
        mid = g.pick([x for x in SCRATCH_SIZES if bound < x <= big])
        sizes = [big, mid, g.pick(SCRATCH_SIZES)][:max(2, min(n, 3))]
    else:
        sizes = [g.pick(SCRATCH_SIZES) for _ in range(n)]
        if order == "desc":
            sizes.sort(reverse=True)
        elif order == "asc":
            sizes.sort()
    g.f("sc:" + order)
    same_op = r.random() < (0.9 if order == "straddle" else 0.6)
    op = g.pick(SCRATCH_OPS[:5] if r.random() < 0.4 else SCRATCH_OPS)
    first_wide = r.random() < 0.5
    st = []
    for i, w in enumerate(sizes):
        if not same_op:
            op = g.pick(SCRATCH_OPS)
        wide = (i % 2 == 0) == first_wide if r.random() < 0.85 else r.random() < 0.5
        t = op[0 if wide else 1].replace("CONVFMT", "\x01").replace("W", str(w)).replace("V", g.pick(["1", "7", "-5", "255", "1.5", '"12"', "4611686018427387904"])).replace("\x01", "CONVFMT")
        st.append(t)
        if r.random() < 0.5:
            st.append("c += length(x);")
    st.append('printf @b"%5d|", 42 > "/dev/null"; printf "%5d|\n", 42; print length(x), c;')
    ctx = g.pick(["BEGIN", "BEGIN", "", "END"])
    return "%s { %s }\n" % (ctx, " ".join(st))


def far_subscripts(g):
    """positions far beyond anything that can be allocated (2^28 .. 2^62, one off either side of each power of two, as int, float and string) as subscripts of
    hawk::array() values: store, read, delete, `in`, nested arrays, after ordinary growth and as the first store; the slot table cannot be allocated and the
    statement must fail with an error (or succeed), not spin"""
    r = g.r
    g.f("t:far-subscript")
    def far():
        k = g.pick(list(range(28, 63)))
        v = (1 << k) + g.pick([-1, 0, 0, 0, 1, 12345])
        g.f("fs:2^%d" % (k // 6 * 6))
        return g.pick(["%d", "%d", "%d.0", '"%d"', "(%d + 0)"]) % v
    st = [g.pick(["x = hawk::array();", "x = hawk::array(1, 2, 3);", "x = hawk::array(); x[0] = 1;", "x = hawk::array(); for (i = 0; i < 100; i++) x[i] = i;", "x = hawk::array(hawk::array(1), 2);"])]
    for _ in range(g.pick([1, 1, 2, 3])):
        st.append(g.pick(["x[%s] = 2;", "x[%s] = x;", "print x[%s];", "delete x[%s];", "print (%s in x);", "x[%s] += 1;", "x[%s]++;", "x[0] = x[%s];", "y = hawk::array(); y[%s] = x; x = y;",
                          "x[0][%s] = 1;", "n = split(\"a b\", x); x[%s] = 1;", "x[%s] = hawk::array(1, 2);", "getline x[%s] < \"in\";", "sub(/^/, \"q\", x[%s]);", "n = str::splita(\"a b c\", x); x[%s] = n;"]) % far())
    st.append('print "after", length(x);')
    return "%s { %s }\n" % (g.pick(["BEGIN", "BEGIN", "", "END"]), " ".join(st))


def targeted(rng):
    g = Gen(rng)
    k = rng.randrange(64)
    if k >= 59:
        return g, scratch_history(g)
    if k >= 56:
        return g, far_subscripts(g)
    if k >= 52:
        return g, value_type_setter(g)
    if k >= 48:
        return g, huge_counts(g)
    if k >= 45:
        return g, raw_bytes_source(g)
    if k >= 42:
        return g, eof_mid_token(g)
    if k >= 38:
        return g, setter_history(g)
    if k >= 34:
        return g, twin_sweep(g)
    if k >= 28:
        return g, parse_error_after_prefix(g)
    if k >= 24:
        return g, large_containers(g)
    if k >= 22:
        return g, console_args(g)
    if k >= 18:
        return g, stack_pressure(g)
    if k >= 14:
        return g, failing_writeback(g)
    i1, i2 = g.pick(INT_EDGE), g.pick(INT_EDGE + ["0", "-1"])
    if k >= 12:
        # positions around the end of a subject of known length, for every position-taking builtin and subject type
        g.f("t:bounds-sweep")
        subj, n = g.pick([('"abc"', 3), ('@b"abc"', 3), ('"hello world"', 11), ('@b"a b c"', 5), ("'a'", 1), ("@b'a'", 1), ('""', 0), ('@b""', 0),
                          ("12345", 5), ("1.5", 3), ('"가나다"', 3), ("@nil", 0)])
        pos = n + g.pick([-2, -1, 0, 1, 2, 3, 8, 30, 60, 64, 65, 1000])
        if rng.random() < 0.25:
            pos = -pos
        cnt = g.pick([0, 1, 2, n, n + 1, n + 60, 1000, -1])
        call = g.pick(["substr(%s, %d)", "substr(%s, %d, %d)", "str::substr(%s, %d, %d)", "str::subchar(%s, %d)", 'index(%s, "c", %d)', 'str::index(%s, @b"c", %d)',
                       'str::rindex(%s, "c", %d)', "str::match(%s, /c/, %d)", "str::match(%s, /$/, %d, q)", 'str::rindex(%s, @b\'c\', %d)'])
        nfmt = call.count("%d")
        args = (subj, pos, cnt)[:1 + nfmt]
        return g, "BEGIN { x = %s; print x; }\n" % (call % args)
    if k == 0:
        g.f("t:divmod-run"); return g, "BEGIN { a = %s; b = %s; print a / b; print a \\ b; print a %% b; }\n" % (i1, i2)
    if k == 1:
        g.f("t:divmod-fold"); return g, "BEGIN { print %s %s %s; }\n" % (i1, g.pick(["/", "\\", "%", "**"]), i2)
    if k == 2:
        g.f("t:pow"); return g, "BEGIN { a = %s; b = %s; print a ** b; a **= b; }\n" % (g.pick(INT_EDGE + FLT_EDGE), g.pick(INT_EDGE + FLT_EDGE))
    if k == 3:
        g.f("t:ignorecase"); return g, "BEGIN { IGNORECASE = %s; %s = %s } { print $1; print ($0 ~ /A/), (\"a\" == \"A\"), index($0, \"B\"); }\n" % (
            g.pick(INT_EDGE + FLT_EDGE + STR_EDGE + ["log(-1)", "-log(-1)"]), g.pick(["FS", "RS"]), g.pick(['"ab+"', '"[,;]+"', '"x"', '""', '"\\n\\n+"']))
    if k == 4:
        g.f("t:index-types")
        a = g.pick(STR_EDGE + MBS_EDGE + CHR_EDGE + BCH_EDGE + INT_EDGE + ["@nil", "m", "r"])
        b = g.pick(STR_EDGE + MBS_EDGE + CHR_EDGE + BCH_EDGE + INT_EDGE + ["@nil", "m"])
        fn = g.pick(["index", "str::index", "str::rindex"])
        return g, "BEGIN { m[1]=1; r=hawk::array(1); print %s(%s, %s%s); }\n" % (fn, a, b, g.pick(["", ", " + i1]))
    if k == 5:
        g.f("t:substr-types")
        a = g.pick(STR_EDGE + MBS_EDGE + CHR_EDGE + BCH_EDGE + INT_EDGE + FLT_EDGE + ["@nil"])
        return g, "BEGIN { print substr(%s, %s%s); print str::subchar(%s, %s); }\n" % (a, i1, g.pick(["", ", " + i2]), a, i2)
    if k == 6:
        g.f("t:match-types")
        a = g.pick(STR_EDGE + MBS_EDGE + CHR_EDGE + BCH_EDGE + INT_EDGE + FLT_EDGE + ["@nil"])
        if rng.random() < 0.5:
            return g, "BEGIN { print match(%s, %s%s); print RSTART, RLENGTH, length(q); }\n" % (a, g.pick(REX_EDGE + STR_EDGE), g.pick(["", ", q"]))
        return g, "BEGIN { print str::match(%s, %s, %s%s); print RSTART, RLENGTH; }\n" % (a, g.pick(REX_EDGE + STR_EDGE), i1, g.pick(["", ", q"]))
    if k == 7:
        g.f("t:array-sparse")
        return g, "BEGIN { r = hawk::array(); r[%s] = 1; r[%s] = 2; delete r[%s]; for (k in r) print k, r[k]; print length(r); }\n" % (
            g.pick(["0", "1", "63", "64", "128", "1000", "-1", "70000"]), g.pick(["0", "129", "5000", "2", "1000000"]), g.pick(["0", "1", "64", "128"]))
    if k == 8:
        g.f("t:record-nf")
        return g, "{ $%s = %s; NF = %s; print; print NF, $1, $NF; $0 = %s; print $2; }\n" % (
            g.pick(["1", "3", "(NF+3)", "0", "50"]), g.pick(STR_EDGE), g.pick(["0", "1", "2", "NF+1", "NF-1", "10", "-1", "3"]), g.pick(STR_EDGE + ["$0 $0"]))
    if k == 9:
        g.f("t:redirect-fail")
        return g, "BEGIN { print %s > %s; print %s | %s; printf \"%%s\", %s >> m; getline x < %s; close(%s); }\n" % (
            g.expr(1), g.pick(FILES + ["m", "@nil"]), g.expr(1), g.pick(CMDS + ["m"]), g.expr(1), g.pick(FILES), g.pick(FILES + CMDS))
    if k == 10:
        g.f("t:sprintf")
        return g, "BEGIN { print sprintf(%s, %s, %s, %s); }\n" % (
            g.pick(['"%d"', '"%*.*d"', '"%c"', '"%s"', '"%.50000f"', '"%5$s"', '"%*d"', '"%-*s|"', '"%x"', '"%e"', '"%"', '"%l"', '"%99999999999d"',
                    '@b"%s %d"', "'%'"]), g.expr(1), g.expr(1), g.expr(1))
    g.f("t:blockless-write")
    return g, "%s\n" % g.pick(["1", "/a/", "NR%2", "$1", "/a/,/c/"])


TOKEN_RE = re.compile(r'''@b"(?:\\.|[^"\\])*"|"(?:\\.|[^"\\])*"|@b'(?:\\.|[^'\\])*'|'(?:\\.|[^'\\])*'|[A-Za-z_@][A-Za-z_0-9]*(?:::[A-Za-z_0-9]+)?|\d+\.?\d*(?:[eE][-+]?\d+)?|\s+|[-+*/%<>=!&|^~]{2,3}|.''', re.S)
DICT = ["(", ")", "{", "}", "[", "]", ";", ",", "$", "\"", "'", "/", "\\", "@b\"", "@b'", "BEGIN", "END", "function", "getline", "print", "printf",
        "in", "delete", "while", "for", "do", "if", "else", "return", "exit", "next", "@local", "@global", "@nil", "@pragma", "@include", "@reset", "@abort",
        "0", "-1", "9223372036854775807", "1e999", "**", "\\=", "%%", "===", "||", "|", ">>", "<<", "?", ":", "++", "--", "\n", "#", "\x00", "\xff", "\xc3",
        "str::", "hawk::", "math::", "NF", "$0", "$NF", "IGNORECASE", "FS", "RS"]


def tokens(src):
    return TOKEN_RE.findall(src)


def mutate(rng, src):
    """byte/token-level damage to a (mostly) valid program; returns bytes"""
    b = bytearray(src.encode("utf-8", "surrogateescape") if isinstance(src, str) else src)
    for _ in range(rng.choice([1, 1, 1, 2, 3, 5])):
        if not b:
            b = bytearray(b"BEGIN{}")
        k = rng.random()
        p = rng.randrange(len(b))
        if k < 0.18:
            b[p] = rng.randrange(256)
        elif k < 0.30:
            b[p] ^= 1 << rng.randrange(8)
        elif k < 0.45:
            q = min(len(b), p + rng.choice([1, 1, 2, 4, 16]))
            del b[p:q]
        elif k < 0.58:
            q = min(len(b), p + rng.choice([1, 2, 8, 32]))
            b[p:p] = b[p:q]
        elif k < 0.80:
            b[p:p] = rng.choice(DICT).encode("latin-1")
        elif k < 0.88:
            b = b[:p]
        elif k < 0.94:
            q = rng.randrange(len(b))
            b[p], b[q] = b[q], b[p]
        else:
            b[p:p] = bytes(rng.randrange(256) for _ in range(rng.choice([1, 2, 3, 8])))
    return bytes(b)


SEEDS = [
    'BEGIN { FS = ":"; OFS = "-" } { $1 = $1; print; n += NF } END { print n, NR; }\n',
    'function fib(n) { return n < 2 ? n : fib(n-1) + fib(n-2); } BEGIN { for (i = 0; i < 8; i++) printf "%d ", fib(i); print ""; }\n',
    '{ a[$1]++ } END { n = asorti(a, b); for (i = 1; i <= n; i++) print b[i], a[b[i]]; }\n',
    'BEGIN { while (("echo a b c" | getline line) > 0) { n = split(line, w, " "); for (i = n; i > 0; i--) printf "%s ", w[i]; } close("echo a b c"); }\n',
    'BEGIN { s = "hello world"; gsub(/o/, "[&]", s); print s, length(s), toupper(substr(s, 1, 5)), index(s, "w"), match(s, /w.r/), RSTART, RLENGTH; }\n',
    'BEGIN { x = hawk::array(1, 2, 3); x[10] = 5; m = hawk::map("a", x); for (k in m["a"]) print k; print hawk::typename(m), length(x); }\n',
    '/a/,/c/ { print NR ": " $0; next } NR == 2 { nextfile } { print > "f1"; close("f1"); while ((getline l < "f1") > 0) print "got", l; }\n',
    'BEGIN { printf "%5d|%-5s|%c|%.2f|%x|%e\\n", 42, "ab", 65, 3.14159, 255, 1.5; print sprintf("%*d", 6, 7) @b"xyz" \'c\' @b\'d\'; }\n',
    'BEGIN { RS = ""; } { for (i = 1; i <= NF; i++) c[$i]++ } END { for (k in c) if (c[k] > 1) print k; delete c; }\n',
    'BEGIN { IGNORECASE = 1; FS = "[,;]+"; } $1 ~ /^a/ { print $2 } END { print str::trim("  x  ") str::tonum("0x10") math::floor(2.5); }\n',
]


def console_input(rng):
    """(name, bytes)"""
    k = rng.random()
    if k < 0.18:
        return "empty", b""
    if k < 0.23:
        return "nul", b"a\x00b c\x00\n\x00\n1\x002 3\nx\x00\x00y z\n" + b"w" * 509 + b"\x00\x00\x00\n" + b"tail\x00"
    if k < 0.27:
        return "cututf8", b"\xea\xb0\x80 \xeb\x82\x98 b\n" + b"k" * 510 + b"\xea\xb0\x80\n" + b"z" * 1022 + b"\xf0\x9f\x98\x80 q\nend \xe2\x82"
    if k < 0.50:
        return "lines", b"a b c\n1 2 3\nfoo,bar;baz qux\nA abb C\n\nlast line here\n"
    if k < 0.58:
        return "longline", (b"x" * 20000 + b" " + b"y" * 3000 + b" z\n") + b"short\n"
    if k < 0.66:
        return "binary", bytes(range(256)) * 3 + b"\n" + bytes(rng.randrange(256) for _ in range(300))
    if k < 0.74:
        return "badutf8", b"\xff\xfe\xc0\x80 \xe2\x28\xa1 ok\n\xf0\x90\x80 abc\n\xed\xa0\x80\n"
    if k < 0.80:
        return "crlf", b"a b\r\nc d\r\n\r\ne\r\n"
    if k < 0.86:
        return "nonl", b"one two three"
    if k < 0.92:
        return "manyfields", b" ".join(b"f%d" % i for i in range(3000)) + b"\n1\n"
    if k < 0.97:
        return "manylines", b"".join(b"%d a b\n" % i for i in range(400))
    return "paragraphs", b"p1 l1\np1 l2\n\n\n\np2 l1\n\np3\n"


TRAITS = ["m", "m", "m", "c", "f", "t", "x"]
