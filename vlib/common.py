"""Shared machinery for every property check (see DESIGN.md section 3).

Pipeline per check:  translate -> prove (lake build + axiom audit + scan) ->
build implementation from /repo working tree -> corpus + generated cases ->
correspondence (C harness vs Lean driver) -> decide -> evidence.
"""
import fcntl, hashlib, json, os, re, shutil, signal, subprocess, sys, time, random, glob

VERIF = os.path.dirname(os.path.dirname(os.path.abspath(__file__)))
REPO = os.environ.get("HAWK_REPO", "/repo")
LEAN = os.path.join(VERIF, "lean")
CACHE = "/var/tmp/hawkverif-cache"
ALLOWED_AXIOMS = {"propext", "Classical.choice", "Quot.sound"}

SAN = ["-fsanitize=address,integer-divide-by-zero,null,bounds,unreachable,return",
       "-fno-sanitize-recover=all", "-fno-omit-frame-pointer"]
# coverage mode (tools/coverage.py): HAWK_VERIF_COV=<dir> adds gcov instrumentation to the implementation build and
# the harnesses; the build cache key differs (SAN is hashed), the checks behave as usual
COV = os.environ.get("HAWK_VERIF_COV")
if COV:
    SAN = SAN + ["--coverage", "-fprofile-update=atomic"]
CDEFS = ["-DHAVE_CONFIG_H", "-DHAWK_HAVE_CFG_H", "-DHAWK_ENABLE_STATIC_MODULE",
         "-DHAWK_BUILD_DEBUG", "-DHAWK_VERIF", "-fshort-wchar", "-w"] + (["-DHAWK_VERIF_COVERAGE"] if COV else [])
LIBS = ["-lm", "-ldl", "-lpthread", "-lquadmath", "-lffi"]

TRUSTED_BASE_COMMON = [
    "Lean 4.33.0 kernel; axioms per theorem audited on every run (subset of propext, Classical.choice, Quot.sound)",
    "statements in lean/HawkModel/Props/*.lean as renderings of the English properties",
    "correspondence harness + generators + compiled Lean driver (Lean compiler, gcc, sanitizers) tie the hand-written model to /repo",
]


class Ctx:
    def __init__(self, pid_, tier, seed):
        self.id = pid_
        self.tier = tier
        self.seed = seed
        self.t0 = time.time()
        self.scratch = "/var/tmp/hawkverif.%d" % os.getpid()
        os.makedirs(self.scratch, exist_ok=True)
        self.rng = random.Random((seed * 1000003) ^ int(hashlib.sha1(pid_.encode()).hexdigest()[:8], 16))
        self.problems = []      # list of dicts: kind, what, replay_text, found_input(bool), sig
        self.coverage = {}
        self.assumptions = []
        self.log_lines = []

    def log(self, *a):
        s = " ".join(str(x) for x in a)
        self.log_lines.append(s)
        print("[%s %.1fs] %s" % (self.id, time.time() - self.t0, s), flush=True)

    def cleanup(self):
        if COV:
            # keep the counters of sources compiled into a harness (xma.c, tio.c, bin/hawk.c are #included by theirs)
            dst = os.path.join(COV, "harness-" + self.id)
            for root, _, files in os.walk(self.scratch):
                for f in files:
                    if f.endswith((".gcda", ".gcno")):
                        os.makedirs(dst, exist_ok=True)
                        try:
                            shutil.copy(os.path.join(root, f), os.path.join(dst, f))
                        except OSError:
                            pass
        shutil.rmtree(self.scratch, ignore_errors=True)

    def problem(self, kind, what, replay_text, found_input, sig=None):
        """kind: proof|corr|impl ; found_input: a concrete failing input on the real code was found"""
        self.problems.append(dict(kind=kind, what=what, replay_text=replay_text,
                                  found_input=found_input, sig=sig))


def sh(cmd, timeout=None, cwd=None, input_=None, env=None):
    """run, hard-killing the whole process group on timeout; returns (rc, out, err). rc=-9 on timeout."""
    p = subprocess.Popen(cmd, cwd=cwd, stdin=subprocess.PIPE if input_ is not None else subprocess.DEVNULL,
                         stdout=subprocess.PIPE, stderr=subprocess.PIPE, env=env,
                         start_new_session=True)
    try:
        out, err = p.communicate(input_, timeout=timeout)
        return p.returncode, out, err
    except subprocess.TimeoutExpired:
        try:
            os.killpg(p.pid, signal.SIGKILL)
        except ProcessLookupError:
            pass
        out, err = p.communicate()
        return -9, out, err


# ----------------------------------------------------------------------------
# Lean side
# ----------------------------------------------------------------------------
class LakeLock:
    def __enter__(self):
        os.makedirs(os.path.join(LEAN, ".lake"), exist_ok=True)
        self.f = open(os.path.join(LEAN, ".lake", "verif.lock"), "w")
        fcntl.flock(self.f, fcntl.LOCK_EX)
        return self

    def __exit__(self, *a):
        fcntl.flock(self.f, fcntl.LOCK_UN)
        self.f.close()


def lake_build(targets, timeout=3000):
    with LakeLock():
        rc, out, err = sh(["lake", "build"] + targets, cwd=LEAN, timeout=timeout)
    return rc, (out + err).decode(errors="replace")


def write_if_changed(path, content):
    old = None
    if os.path.exists(path):
        old = open(path).read()
    if old != content:
        os.makedirs(os.path.dirname(path), exist_ok=True)
        with open(path, "w") as f:
            f.write(content)
        return True
    return False


THM_RE = re.compile(r"^\s*(?:@\[[^\]]*\]\s*)?(?:protected\s+|private\s+)?theorem\s+([A-Za-z_][\w'.]*)", re.M)
NS_RE = re.compile(r"^\s*namespace\s+([\w.]+)", re.M)

FORBIDDEN = [r"\bsorry\b", r"\badmit\b", r"^\s*axiom\s", r"\bnative_decide\b", r"\bbv_decide\b",
             r"implemented_by", r"\bunsafe\s", r"maxHeartbeats\s+0\b", r"^\s*partial\s+def"]


def strip_comments(src):
    # remove /- ... -/ (nested not handled beyond one level) and -- ... comments
    out = []
    i = 0
    depth = 0
    n = len(src)
    while i < n:
        if src.startswith("/-", i):
            depth += 1
            i += 2
        elif depth > 0 and src.startswith("-/", i):
            depth -= 1
            i += 2
        elif depth > 0:
            if src[i] == "\n":
                out.append("\n")
            i += 1
        elif src.startswith("--", i):
            while i < n and src[i] != "\n":
                i += 1
        elif src[i] == '"':
            # string literal: copy verbatim but blank its content
            j = i + 1
            while j < n and src[j] != '"':
                if src[j] == "\\":
                    j += 1
                j += 1
            out.append('""')
            i = j + 1
        else:
            out.append(src[i])
            i += 1
    return "".join(out)


def scan_forbidden(files, allow_partial_in=()):
    hits = []
    for f in files:
        src = strip_comments(open(f).read())
        for pat in FORBIDDEN:
            if pat.startswith(r"^\s*partial") and any(os.path.abspath(f).endswith(a) for a in allow_partial_in):
                continue
            for m in re.finditer(pat, src, re.M):
                line = src.count("\n", 0, m.start()) + 1
                hits.append("%s:%d: %s" % (os.path.relpath(f, VERIF), line, m.group(0).strip()))
    return hits


SCOPE_RE = re.compile(r"^[ \t]*(?:(namespace|section|end)\b[ \t]*([\w.]*)|(?:@\[[^\]]*\]\s*)?(?:protected\s+|private\s+)?theorem\s+([A-Za-z_][\w'.]*))", re.M)


def theorems_in(path):
    """qualified theorem names declared in a Props file; follows namespace/section/end nesting"""
    src = strip_comments(open(path).read())
    stack = []   # (kind, name)
    out = []
    for m in SCOPE_RE.finditer(src):
        kw, name, thm = m.group(1), m.group(2), m.group(3)
        if thm:
            out.append(".".join([n for k, n in stack if k == "namespace"] + [thm]))
        elif kw in ("namespace", "section"):
            stack.append((kw, name))
        elif kw == "end" and stack:
            stack.pop()
    return out


def module_deps(modname, seen=None):
    """transitive HawkModel.* imports of a module -> list of file paths"""
    if seen is None:
        seen = {}
    path = os.path.join(LEAN, modname.replace(".", "/") + ".lean")
    if modname in seen or not os.path.exists(path):
        return seen
    seen[modname] = path
    for m in re.finditer(r"^\s*(?:public\s+)?import\s+([\w.]+)", open(path).read(), re.M):
        if m.group(1).startswith("HawkModel"):
            module_deps(m.group(1), seen)
    return seen


def prove(ctx, prop_module, leanchecker=False):
    """lake build the property module, audit axioms, scan for forbidden constructs.
    Returns dict(obligations, discharged, theorems, failed, build_ok, detail)."""
    t = time.time()
    prop_path = os.path.join(LEAN, prop_module.replace(".", "/") + ".lean")
    thms = theorems_in(prop_path)
    res = dict(obligations=len(thms), discharged=0, theorems=thms, failed=[], build_ok=False, detail="")
    rc, out = lake_build([prop_module])
    if rc != 0:
        res["detail"] = out[-4000:]
        # which theorems does the build output mention?  (error: file:line:col)
        errs = re.findall(r"error: ([^\s:]+\.lean):(\d+):(\d+): (.*)", out)
        res["failed"] = ["%s:%s %s" % (os.path.basename(f), l, msg[:160]) for f, l, c, msg in errs][:20] or ["lake build failed"]
        ctx.log("PROOF: lake build %s FAILED" % prop_module)
        return res
    res["build_ok"] = True
    # axiom audit
    audit = "import %s\n" % prop_module + "".join("#print axioms %s\n" % n for n in thms)
    ap = os.path.join(ctx.scratch, "Audit_%s.lean" % ctx.id)
    open(ap, "w").write(audit)
    with LakeLock():
        rc, o, e = sh(["lake", "env", "lean", ap], cwd=LEAN, timeout=1200)
    txt = (o + e).decode(errors="replace")
    axioms = {}
    # "'Name' depends on axioms: [a, b]"  or "'Name' does not depend on any axioms"
    for m in re.finditer(r"'([^']+)' depends on axioms:\s*\[([^\]]*)\]", txt, re.S):
        axioms[m.group(1)] = [a.strip() for a in m.group(2).replace("\n", " ").split(",") if a.strip()]
    for m in re.finditer(r"'([^']+)' does not depend on any axioms", txt):
        axioms[m.group(1)] = []
    bad = []
    for n in thms:
        if n not in axioms:
            bad.append("%s: no axiom report (%s)" % (n, txt[-300:].replace("\n", " ")))
        elif not set(axioms[n]) <= ALLOWED_AXIOMS:
            bad.append("%s: uses axioms %s" % (n, sorted(set(axioms[n]) - ALLOWED_AXIOMS)))
    deps = module_deps(prop_module)
    hits = scan_forbidden(list(deps.values()))
    if hits:
        bad += ["forbidden construct: " + h for h in hits]
    res["failed"] = bad
    res["discharged"] = len(thms) - len([b for b in bad if ": " in b and b.split(":")[0] in thms])
    if hits:
        res["discharged"] = 0
    res["axioms"] = axioms
    if leanchecker and not bad:
        with LakeLock():
            rc, o, e = sh(["lake", "env", "leanchecker", prop_module], cwd=LEAN, timeout=3000)
        if rc != 0:
            res["failed"].append("leanchecker rejected %s: %s" % (prop_module, (o + e).decode(errors="replace")[-500:]))
            res["discharged"] = 0
        else:
            res["leanchecker"] = "ok"
    ctx.log("PROOF: %s: %d theorems, %d discharged, %.1fs" % (prop_module, len(thms), res["discharged"], time.time() - t))
    return res


def driver_exe(ctx):
    """build (incrementally) and return the compiled Lean driver."""
    rc, out = lake_build(["hawkdrv"])
    exe = os.path.join(LEAN, ".lake", "build", "bin", "hawkdrv")
    if rc != 0 or not os.path.exists(exe):
        raise RuntimeError("driver build failed:\n" + out[-3000:])
    return exe


def run_driver(ctx, area, lines, timeout=600, extra_args=()):
    exe = driver_exe(ctx)
    data = ("\n".join(lines) + "\n").encode()
    rc, out, err = sh([exe, area] + list(extra_args), input_=data, timeout=timeout)
    if rc != 0:
        raise RuntimeError("lean driver %s rc=%s: %s" % (area, rc, err.decode(errors="replace")[-2000:]))
    return out.decode(errors="replace").split("\n")[:-1]


# ----------------------------------------------------------------------------
# C side: build from /repo's working tree
# ----------------------------------------------------------------------------
def repo_hash(extra=""):
    h = hashlib.sha1()
    files = sorted(glob.glob(REPO + "/lib/*.[ch]") + glob.glob(REPO + "/mod/*.[ch]") + glob.glob(REPO + "/bin/*.[ch]"))
    for f in files:
        h.update(f.encode())
        h.update(open(f, "rb").read())
    h.update(" ".join(SAN + CDEFS).encode())
    h.update(extra.encode())
    return h.hexdigest()[:16]


def _prune_cache(keep):
    """drop cache entries not used for 3 hours (other checks may be using recent ones), keep at most 12"""
    try:
        now = time.time()
        ents = sorted((os.path.getmtime(os.path.join(CACHE, d)), d) for d in os.listdir(CACHE) if d != keep and not d.endswith(".lock"))
        old = [d for t, d in ents if now - t > 3 * 3600]
        recent = [d for t, d in ents if now - t <= 3 * 3600]
        for d in old + [d for d in recent[:-12] if now - os.path.getmtime(os.path.join(CACHE, d)) > 2700]:
            shutil.rmtree(os.path.join(CACHE, d), ignore_errors=True)
            try:
                os.unlink(os.path.join(CACHE, d + ".lock"))
            except OSError:
                pass
    except OSError:
        pass


def build_libhawk(ctx, san=True):
    """static libhawk.a (+ hawk CLI objects) from the working tree; cached by content hash."""
    os.makedirs(CACHE, exist_ok=True)
    key = repo_hash("san" if san else "nosan")
    d = os.path.join(CACHE, key)
    lock = open(os.path.join(CACHE, key + ".lock"), "w")
    fcntl.flock(lock, fcntl.LOCK_EX)
    try:
        lib = os.path.join(d, "libhawk.a")
        if os.path.exists(lib) and os.path.exists(os.path.join(d, "ok")):
            os.utime(d)
            return d
        shutil.rmtree(d, ignore_errors=True)
        os.makedirs(d)
        t = time.time()
        srcs = sorted(glob.glob(REPO + "/lib/*.c")) + [REPO + "/mod/mod-sed.c", REPO + "/mod/mod-ffi.c"]
        flags = ["-g", "-O1"] + (SAN if san else []) + CDEFS + ["-I" + REPO + "/lib", "-I" + REPO + "/mod"]
        procs = []
        failed = []
        maxp = 16

        def reap(block):
            for p, s in list(procs):
                if block:
                    p.wait()
                if p.poll() is not None:
                    procs.remove((p, s))
                    if p.returncode != 0:
                        failed.append((s, p.stderr.read().decode(errors="replace")[-1500:]))
        for s in srcs:
            while len(procs) >= maxp:
                reap(False)
                time.sleep(0.01)
            o = os.path.join(d, os.path.basename(s)[:-2] + ".o")
            procs.append((subprocess.Popen(["gcc", "-c"] + flags + [s, "-o", o], stdout=subprocess.DEVNULL, stderr=subprocess.PIPE), s))
        while procs:
            reap(True)
        if failed:
            raise BuildError("compile failed: " + "; ".join("%s: %s" % f for f in failed))
        objs = sorted(glob.glob(d + "/*.o"))
        subprocess.check_call(["ar", "rcs", lib] + objs)
        for o in objs:
            os.unlink(o)
        # the CLI
        rc, o, e = sh(["gcc"] + flags + [REPO + "/bin/hawk.c", lib] + LIBS + ["-o", os.path.join(d, "hawk")])
        if rc != 0:
            raise BuildError("hawk CLI link failed: " + e.decode(errors="replace")[-1500:])
        rc, o, e = sh(["gcc"] + flags + [REPO + "/bin/sed.c", lib] + LIBS + ["-o", os.path.join(d, "hawk-sed")])
        if rc != 0:
            raise BuildError("hawk-sed CLI link failed: " + e.decode(errors="replace")[-1500:])
        open(os.path.join(d, "ok"), "w").write("ok")
        ctx.log("built libhawk (%s) in %.1fs" % ("sanitized" if san else "plain", time.time() - t))
        _prune_cache(key)
        return d
    finally:
        fcntl.flock(lock, fcntl.LOCK_UN)
        lock.close()


class BuildError(Exception):
    pass


def cc_harness(ctx, src, out=None, link_lib=None, extra=(), san=True, cxx=False):
    """compile a harness (which may #include real sources from REPO/lib)."""
    if out is None:
        out = os.path.join(ctx.scratch, os.path.basename(src).rsplit(".", 1)[0])
    cmd = ["g++" if cxx else "gcc", "-g", "-O1"] + (SAN if san else []) + CDEFS + \
          ["-I" + REPO + "/lib", "-I" + REPO + "/mod", "-I" + os.path.join(VERIF, "harness"),
           '-DREPO="%s"' % REPO] + list(extra) + [src]
    if link_lib:
        cmd += [os.path.join(link_lib, "libhawk.a")]
    cmd += LIBS + ["-o", out]
    rc, o, e = sh(cmd, timeout=600)
    if rc != 0:
        raise BuildError("harness %s failed to compile:\n%s" % (os.path.basename(src), e.decode(errors="replace")[-3000:]))
    return out


ASAN_ENV = dict(os.environ, ASAN_OPTIONS="detect_leaks=0:abort_on_error=0:exitcode=66:allocator_may_return_null=1",
                UBSAN_OPTIONS="print_stacktrace=1:halt_on_error=1:exitcode=67", LC_ALL="C.UTF-8")
ASAN_LEAK_ENV = dict(os.environ, ASAN_OPTIONS="detect_leaks=1:abort_on_error=0:exitcode=66:allocator_may_return_null=1",
                     UBSAN_OPTIONS="print_stacktrace=1:halt_on_error=1:exitcode=67", LC_ALL="C.UTF-8")


def run_harness(exe, args, lines, timeout=600, env=None):
    data = ("\n".join(lines) + "\n").encode() if lines is not None else None
    rc, out, err = sh([exe] + list(args), input_=data, timeout=timeout, env=env or ASAN_ENV)
    return rc, out.decode(errors="replace").split("\n")[:-1], err.decode(errors="replace")


def classify_rc(rc, err):
    if rc == -9:
        return "TIMEOUT(hang)"
    if rc == 66 or "AddressSanitizer" in err:
        return "ASAN"
    if rc == 67 or "runtime error:" in err:
        return "UBSAN"
    if rc < 0:
        return "SIGNAL%d" % (-rc)
    if rc != 0:
        return "EXIT%d" % rc
    return "ok"


# ----------------------------------------------------------------------------
# Known findings, decision, evidence
# ----------------------------------------------------------------------------
def known_findings(pid_):
    out = []
    p = os.path.join(VERIF, "KNOWN_FINDINGS.txt")
    if not os.path.exists(p):
        return out
    for line in open(p):
        line = line.strip()
        m = re.match(r"finding:\s+property=(\S+)\s+sig=(\S+)\s+(.*)", line)
        if m and m.group(1) == pid_:
            out.append((m.group(2), m.group(3)))
    return out


def finish(ctx, proofs, evaluations, distinct_nontrivial, rule, samples, extra_cov=None,
           trusted=(), assumptions=(), checker_cmd=None, level="proof"):
    """proofs: list of prove() results. Writes evidence, prints verdict lines, returns exit code."""
    # proof problems
    for pr in proofs:
        if not pr["build_ok"] or pr["failed"]:
            ctx.problem("proof", "proof obligations no longer check: " + "; ".join(pr["failed"])[:600],
                        "theorems that no longer check:\n" + "\n".join(pr["failed"]) + "\n\n" + pr.get("detail", ""),
                        found_input=False)
    kf = dict(known_findings(ctx.id))
    seen_kf = set()
    violations = []
    for p in ctx.problems:
        if p["sig"] and p["sig"] in kf:
            if p["sig"] not in seen_kf:
                print("KNOWN-FINDING: property=%s %s [%s]" % (ctx.id, kf[p["sig"]], p["sig"]), flush=True)
                seen_kf.add(p["sig"])
            continue
        violations.append(p)
    # if a concrete failing input exists, report that one first; drop no-input ones that are consequences
    violations.sort(key=lambda p: (not p["found_input"],))
    rdir = os.path.join(VERIF, "replay", ctx.id)
    printed = 0
    if violations:
        os.makedirs(rdir, exist_ok=True)
    for i, p in enumerate(violations[:5]):
        rp = os.path.join(rdir, "%s-%s-seed%d-%d.txt" % (ctx.id, ctx.tier, ctx.seed, i))
        with open(rp, "w") as f:
            f.write("# property=%s kind=%s found_input=%s\n# %s\n" % (ctx.id, p["kind"], p["found_input"], p["what"].replace("\n", " ")[:1000]))
            f.write(p["replay_text"])
        tail = "" if p["found_input"] else " no-failing-input-found"
        print("VIOLATION property=%s replay=%s%s" % (ctx.id, rp, tail), flush=True)
        print("  -> " + p["what"].replace("\n", " ")[:400], flush=True)
        printed += 1
    obligations = sum(pr["obligations"] for pr in proofs)
    discharged = sum(pr["discharged"] for pr in proofs)
    cov = dict(
        obligations=obligations, discharged=discharged,
        checker_cmd=checker_cmd or ("cd lean && lake build " + " ".join("HawkModel.Props." + ctx.id for _ in [0]) +
                                    " && lake env lean <generated #print axioms audit>" +
                                    (" && lake env leanchecker HawkModel.Props.%s" % ctx.id if ctx.tier == "thorough" else "")),
        trusted_base=TRUSTED_BASE_COMMON + list(trusted),
        theorems=[t for pr in proofs for t in pr["theorems"]],
        axioms_used=sorted({a for pr in proofs for v in pr.get("axioms", {}).values() for a in v}),
        evaluations=int(evaluations), distinct_nontrivial=int(distinct_nontrivial), rule=rule,
        samples=samples[:8] if samples else ["(none)"],
    )
    if extra_cov:
        cov.update(extra_cov)
    cov.update(ctx.coverage)
    # schema guards: `exhaustive` must be a boolean, integer counters must be ints
    if "exhaustive" in cov and not isinstance(cov["exhaustive"], bool):
        cov["exhaustive_cases"] = cov.pop("exhaustive")
    for k in ("states", "transitions", "traces_validated_against_impl", "programs", "disagreements_checked"):
        if k in cov and not isinstance(cov[k], int):
            cov[k + "_detail"] = cov.pop(k)
    ev = dict(property_id=ctx.id, tier=ctx.tier, seed=ctx.seed, level=level, coverage=cov,
              assumptions=list(assumptions) + ctx.assumptions, wall_s=round(time.time() - ctx.t0, 2),
              violations=len(violations), known_findings_seen=sorted(seen_kf))
    os.makedirs(os.path.join(VERIF, "evidence"), exist_ok=True)
    with open(os.path.join(VERIF, "evidence", ctx.id + ".json"), "w") as f:
        json.dump(ev, f, indent=1, sort_keys=True)
        f.write("\n")
    if not violations:
        print("OK property=%s tier=%s seed=%d obligations=%d discharged=%d evaluations=%d distinct_nontrivial=%d wall=%.1fs" %
              (ctx.id, ctx.tier, ctx.seed, obligations, discharged, evaluations, distinct_nontrivial, time.time() - ctx.t0), flush=True)
        return 0
    return 1


def diff_streams(a, b):
    """first index where two line lists differ, or None"""
    n = min(len(a), len(b))
    for i in range(n):
        if a[i] != b[i]:
            return i
    if len(a) != len(b):
        return n
    return None


def ddmin(items, fails, max_tests=400):
    """delta debugging on a list: smallest sublist (order kept) for which fails(sub) is True."""
    tests = [0]

    def t(x):
        tests[0] += 1
        return tests[0] <= max_tests and fails(x)
    n = 2
    cur = list(items)
    while len(cur) >= 2:
        chunk = max(1, len(cur) // n)
        subsets = [cur[i:i + chunk] for i in range(0, len(cur), chunk)]
        reduced = False
        for i in range(len(subsets)):
            comp = [x for j, s in enumerate(subsets) if j != i for x in s]
            if comp and t(comp):
                cur = comp
                n = max(n - 1, 2)
                reduced = True
                break
        if not reduced:
            if n >= len(cur):
                break
            n = min(len(cur), n * 2)
        if tests[0] > max_tests:
            break
    return cur
