import HawkModel.Drv.Arr

def main (args : List String) : IO UInt32 := do
  match args with
  | "arr" :: _ => Hawk.Drv.Arr.main; return 0
  | _ => IO.eprintln "usage: hawkdrv <area>"; return 2
