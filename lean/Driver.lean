import HawkModel.Drv.Arr
import HawkModel.Drv.Xma
import HawkModel.Drv.Rbt
import HawkModel.Drv.Htb
import HawkModel.Drv.Rio

def main (args : List String) : IO UInt32 := do
  match args with
  | "arr" :: _ => Hawk.Drv.Arr.main; return 0
  | "xma" :: _ => Hawk.Drv.Xma.main; return 0
  | "rbt" :: _ => Hawk.Drv.Rbt.main; return 0
  | "htb" :: _ => Hawk.Drv.Htb.main; return 0
  | "rio" :: _ => Hawk.Drv.Rio.main; return 0
  | _ => IO.eprintln "usage: hawkdrv <area>"; return 2
