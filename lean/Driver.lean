import HawkModel.Drv.Arr
import HawkModel.Drv.Xma
import HawkModel.Drv.Rbt
import HawkModel.Drv.Htb
import HawkModel.Drv.Rio
import HawkModel.Drv.Cmp
import HawkModel.Drv.StrFn
import HawkModel.Drv.Utf8
import HawkModel.Drv.Rec
import HawkModel.Drv.Gc
import HawkModel.Drv.Depth
import HawkModel.Drv.Oom
import HawkModel.Drv.Sed
import HawkModel.Drv.SedC
import HawkModel.Drv.CtxApi
import HawkModel.Drv.Ctx
import HawkModel.Drv.ReadIo
import HawkModel.Drv.Crash
import HawkModel.Drv.Deparse
import HawkModel.Drv.Fmt
import HawkModel.Drv.Expr
import HawkModel.Drv.Awk
import HawkModel.Drv.Rex

def main (args : List String) : IO UInt32 := do
  match args with
  | "arr" :: _ => Hawk.Drv.Arr.main; return 0
  | "xma" :: _ => Hawk.Drv.Xma.main; return 0
  | "rbt" :: _ => Hawk.Drv.Rbt.main; return 0
  | "htb" :: _ => Hawk.Drv.Htb.main; return 0
  | "rio" :: _ => Hawk.Drv.Rio.main; return 0
  | "cmp" :: _ => Hawk.Drv.Cmp.main; return 0
  | "strfn" :: _ => Hawk.Drv.StrFn.main; return 0
  | "utf8" :: _ => Hawk.Drv.Utf8.main; return 0
  | "rec" :: _ => Hawk.Drv.Rec.main; return 0
  | "gc" :: _ => Hawk.Drv.Gc.main; return 0
  | "depth" :: _ => Hawk.Drv.Depth.main; return 0
  | "oom" :: _ => Hawk.Drv.Oom.main; return 0
  | "sed" :: _ => Hawk.Drv.Sed.main; return 0
  | "sedc" :: _ => Hawk.Drv.SedC.mainC; return 0
  | "sedt" :: _ => Hawk.Drv.SedC.mainT; return 0
  | "ctxapi" :: _ => Hawk.Drv.CtxApi.main; return 0
  | "ctx" :: _ => Hawk.Drv.Ctx.main; return 0
  | "readio" :: _ => Hawk.Drv.ReadIo.main; return 0
  | "crash" :: _ => Hawk.Drv.Crash.main; return 0
  | "deparse" :: _ => Hawk.Drv.Deparse.main; return 0
  | "fmt" :: _ => Hawk.Drv.Fmt.main; return 0
  | "expr" :: _ => Hawk.Drv.Expr.main; return 0
  | "awk" :: _ => Hawk.Drv.Awk.main; return 0
  | "rex" :: _ => Hawk.Drv.Rex.main; return 0
  | _ => IO.eprintln "usage: hawkdrv <area>"; return 2
