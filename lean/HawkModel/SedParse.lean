import HawkModel.Sed
/-!
  The script COMPILER of lib/sed.c: script text -> command list.

  Transcribed branch by branch from
    hawk_sed_comp        -> `compLoop`, `parseScript`
    get_address          -> `getAddress`          (compile_rex_address -> `rexAddress`)
    pickup_rex           -> `pickupRex`           (bracket_state / chars_from_opening_bracket machine)
    trans_escaped        -> `transEscaped`        (\a \f \n \r \t \v \xHH \XHHHH; `xamp`)
    get_command          -> `getCommand`
    get_text             -> `getText`             (traits STRIPLS / KEEPTBS are not reachable from the CLI: off)
    get_label            -> `getLabel`
    get_branch_target    -> `getBranchTarget`
    terminate_command    -> `terminate`
    get_file             -> `getFile`
    get_subst            -> `getSubst`, `optLoop`
    get_transet          -> `getTranset`

  Representation of the script stream: a `Str` whose head is `CURSC(sed)` (the character read last);
  `[]` = HAWK_OOCI_EOF (reading on at EOF stays at EOF, as `getnextsc` does).  `NXTSC` = tail.
  The functions that the C enters with "cc = the character before the text" (pickup_rex) take the tail.

  Traits (`Traits`): -a STRICT, -x SAMELINE, -y ENSURENL.  -b EXTENDEDADR (first~step, addr,+N, addr,~N, 0,/re/)
  and the `C` (cut) command are outside: `C` is reported as `PErr.unsupported`.
  Character width: hawk_ooch_t is 2 bytes in the verified build (`\X` takes up to 4 hex digits); the harness
  fails closed on another width.  Line numbers wrap at 2^64 like hawk_oow_t.
  A regex that the regex compiler (build_rex) rejects is not the parser's business: the harness reports it apart.

  The result (`PCmd`) mirrors hawk_sed_cmd_t: type, a1, a2, negated, argument.  `PCmd.toS` maps it to the
  source-level command of the executor model (`SCmd`, HawkModel/Sed.lean), whose `compile` resolves labels
  and braces (get_branch_target / `}` of get_command / init_command_block_for_exec).
-/
namespace Hawk.Sed

inductive PErr where
  | ECMDNR | ECMDMS | ECMDIC | EREXIC | EA1PHB | EA1MOI | EA2PHB | EA2MOI | EBSEXP | EBSDEL | EGBABS | ESCEXP
  | ELABEM | ELABDU | ELABNF | EFILEM | EFILIL | ETSNSL | EGRNBA | EGRNTD | EOCSDU | EOCSZE | EOCSTL
  /-- the `C` command (cut): not modelled -/
  | unsupported
  /-- progress guard of `compLoop` (see there) -/
  | internal
deriving Repr, DecidableEq

structure Traits where
  strict : Bool := false
  sameline : Bool := false
  ensurenl : Bool := false
deriving Repr, DecidableEq

inductive PAddr where
  | none
  | line (n : Nat)
  | last
  /-- `p = []` is EMPTY_REX (never with `icase`) -/
  | re (p : Str) (icase : Bool)
deriving Repr, DecidableEq

inductive POp where
  /-- `:label` (HAWK_SED_CMD_NOOP); `[]` = the empty label, registered nowhere -/
  | label (name : Str)
  | lbrace
  | rbrace
  /-- q Q = d D p P l h H g G x n N z -/
  | simple (c : Char)
  /-- a i c -/
  | text (c : Char) (t : Str)
  /-- r R w W -/
  | file (c : Char) (f : Str)
  /-- b t -/
  | branch (c : Char) (l : Option Str)
  | subst (re rpl : Str) (g p i k : Bool) (occ : Nat) (w : Option Str)
  /-- the transet: (from, to) pairs in order -/
  | trans (pairs : List (Char × Char))
deriving Repr, DecidableEq

structure PCmd where
  a1 : PAddr := .none
  a2 : PAddr := .none
  neg : Bool := false
  op : POp
deriving Repr, DecidableEq

/-! ## character classes (IS_SPACE, IS_CMDTERM, IS_LABCHAR) -/

def isSpace (c : Char) : Bool := c = ' ' || c = '\t' || c = '\r'

def isCmdTermC (c : Char) : Bool := c = '#' || c = ';' || c = '\n' || c = '{' || c = '}'

/-- IS_CMDTERM(CURSC) -/
def atCmdTerm : Str → Bool
  | [] => true
  | c :: _ => isCmdTermC c

def isLabChar (c : Char) : Bool := !isCmdTermC c && !isSpace c

def isDigit (c : Char) : Bool := '0' ≤ c && c ≤ '9'

/-- `while (IS_SPACE(c)) NXTSC` -/
def skipSpaces : Str → Str
  | [] => []
  | c :: r => if isSpace c then skipSpaces r else c :: r

def digitsVal (ds : Str) : Nat := ds.foldl (fun n c => n * 10 + (c.toNat - '0'.toNat)) 0

/-! ## trans_escaped -/

def hexVal (c : Char) : Option Nat :=
  if '0' ≤ c ∧ c ≤ '9' then some (c.toNat - '0'.toNat)
  else if 'a' ≤ c ∧ c ≤ 'f' then some (c.toNat - 'a'.toNat + 10)
  else if 'A' ≤ c ∧ c ≤ 'F' then some (c.toNat - 'A'.toNat + 10)
  else none

/-- value and number of leading hex digits of `r`, at most `max` of them -/
def hexRun : Str → Nat → Nat → Nat → Nat × Nat
  | [], _, v, k => (v, k)
  | _ :: _, 0, v, k => (v, k)
  | c :: r, max + 1, v, k =>
    match hexVal c with
    | some d => hexRun r max (v * 16 + d) (k + 1)
    | none => (v, k)

/-- `trans_escaped(c)` with `r` = the characters after `c` (peeped at for \x and \X):
    (the character, xamp, how many characters of `r` were consumed) -/
def transEscaped (c : Char) (r : Str) : Char × Bool × Nat :=
  if c = 'a' then ('\x07', false, 0)
  else if c = 'f' then ('\x0c', false, 0)
  else if c = 'n' then ('\n', false, 0)
  else if c = 'r' then ('\r', false, 0)
  else if c = 't' then ('\t', false, 0)
  else if c = 'v' then ('\x0b', false, 0)
  else if c = 'x' then
    let (v, k) := hexRun r 2 0 0
    if k = 0 then (c, false, 0) else (Char.ofNat v, v = 38, k)
  else if c = 'X' then
    let (v, k) := hexRun r 4 0 0
    if k = 0 then (c, false, 0) else (Char.ofNat v, v = 38, k)
  else (c, false, 0)

/-! ## pickup_rex -/

/-- the loop of pickup_rex on the characters after the opening delimiter.
    `skip` = characters already consumed by trans_escaped; `bs` = bracket_state, `cfob` = chars_from_opening_bracket.
    Result: (the buffer, the characters after the closing delimiter). -/
def pickupRex (rxend : Char) (repl : Bool) (err : PErr) : Str → Nat → Nat → Nat → Str → Except PErr (Str × Str)
  | [], _, _, _, _ => .error err
  | _ :: r, skip + 1, bs, cfob, acc => pickupRex rxend repl err r skip bs cfob acc
  | c :: r, 0, bs, cfob, acc =>
    if c = '\n' then .error err
    else if c = rxend ∧ bs = 0 then .ok (acc, r)
    else if c = '\\' then
      match r with
      | [] => .error err
      | nc :: r2 =>
        let bs' := if bs > 0 ∧ nc = ']' ∧ cfob > 1 then 0 else bs
        if nc = '\n' then pickupRex rxend repl err r2 0 bs' (cfob + 1) (acc ++ ['\n'])
        else
          let e := transEscaped nc r2
          let acc' := if e.1 = nc ∨ (e.2.1 ∧ repl) then acc ++ ['\\'] else acc
          pickupRex rxend repl err r2 e.2.2 bs' (cfob + 1) (acc' ++ [e.1])
    else if repl then pickupRex rxend repl err r 0 bs (cfob + 1) (acc ++ [c])
    else if c = '[' then
      if bs = 0 then pickupRex rxend repl err r 0 1 1 (acc ++ [c])
      else if bs = 1 then
        -- peeks at the next character (`goto shortcut`): "[:" opens a class
        pickupRex rxend repl err r 0 (if r.head? = some ':' then 2 else 1) (cfob + 1) (acc ++ [c])
      else pickupRex rxend repl err r 0 bs (cfob + 1) (acc ++ [c])
    else if c = ']' then
      let bs' := if bs = 1 then (if cfob > 1 then 0 else 1)
                 else if bs = 2 then (if acc.getLast? = some ':' then 1 else 2)
                 else bs
      pickupRex rxend repl err r 0 bs' (cfob + 1) (acc ++ [c])
    else pickupRex rxend repl err r 0 bs (cfob + 1) (acc ++ [c])

/-! ## get_address -/

/-- compile_rex_address + the NXTSC of get_address, on the characters after the opening delimiter -/
def rexAddress (rxend : Char) (r : Str) : Option (PAddr × Str) :=
  match pickupRex rxend false .EREXIC r 0 0 0 [] with
  | .error _ => none
  | .ok (buf, r') =>
    if buf = [] then some (.re [] false, r')
    else
      match r' with
      | 'I' :: r'' => some (.re buf true, r'')
      | _ => some (.re buf false, r')

/-- get_address (extended = 0); `none` = HAWK_NULL (the caller sets EA1MOI / EA2MOI) -/
def getAddress (s : Str) : Option (PAddr × Str) :=
  match s with
  | [] => some (.none, s)
  | c :: r =>
    if c = '$' then some (.last, r)
    else if isDigit c then some (.line (digitsVal (s.takeWhile isDigit) % 2 ^ 64), s.dropWhile isDigit)
    else if c = '/' then rexAddress '/' r
    else if c = '\\' then
      match r with
      | [] => none
      | d :: r2 => if d = '\n' then none else rexAddress d r2
    else some (.none, s)

/-! ## command arguments -/

/-- terminate_command -/
def terminate (s : Str) : Except PErr Str :=
  match skipSpaces s with
  | [] => .ok []
  | c :: r =>
    if !isCmdTermC c then .error .ESCEXP
    else if c = '#' ∨ c = '{' ∨ c = '}' then .ok (c :: r)
    else .ok r

/-- the loop of get_text; returns (text, ended by an unescaped newline, rest) -/
def textLoop : Str → Str → Str × Bool × Str
  | [], acc => (acc, false, [])
  | '\\' :: [], acc => (acc, false, [])
  | '\\' :: c :: r, acc => textLoop r (acc ++ [c])
  | c :: r, acc => if c = '\n' then (acc ++ ['\n'], true, r) else textLoop r (acc ++ [c])

/-- get_text -/
def getText (tr : Traits) (s : Str) : Str × Str :=
  let t := textLoop s []
  (if tr.ensurenl ∧ !t.2.1 then t.1 ++ ['\n'] else t.1, t.2.2)

/-- the label characters at the head of the stream -/
def labelRun (s : Str) : Str × Str := (s.takeWhile isLabChar, s.dropWhile isLabChar)

/-- get_label (without the duplicate check, which `compLoop` does: nothing after it can fail) + the
    `while (IS_SPACE(c))` of the `:` case of get_command -/
def getLabel (tr : Traits) (s : Str) : Except PErr (Str × Str) :=
  let s1 := skipSpaces s
  let (lab, s2) := labelRun s1
  if lab = [] ∧ tr.strict then .error .ELABEM
  else
    let s3 := skipSpaces s2
    let s4 := match s3 with
      | [] => []
      | c :: r => if isCmdTermC c ∧ c ≠ '}' ∧ c ≠ '#' then r else c :: r
    .ok (lab, skipSpaces s4)

/-- get_branch_target -/
def getBranchTarget (s : Str) : Except PErr (Option Str × Str) :=
  let s1 := skipSpaces s
  if atCmdTerm s1 then
    match terminate s1 with
    | .error e => .error e
    | .ok r => .ok (none, r)
  else
    let (lab, s2) := labelRun s1
    match terminate s2 with
    | .error e => .error e
    | .ok r => .ok (some lab, r)

/-- the do-while of get_file: (name, trailing_spaces, rest) -/
def fileLoop : Str → Str → Nat → Except PErr (Str × Nat × Str)
  | [], acc, tsp => .ok (acc, tsp, [])
  | c :: r, acc, tsp =>
    if isCmdTermC c then .ok (acc, tsp, c :: r)
    else if c = '\x00' then .error .EFILIL
    else
      let tsp' := if isSpace c then tsp + 1 else 0
      if c = '\\' then
        match r with
        | [] => .error .EFILIL
        | c2 :: r2 =>
          if c2 = '\x00' ∨ c2 = '\n' then .error .EFILIL
          else fileLoop r2 (acc ++ [if c2 = 'n' then '\n' else c2]) tsp'
      else fileLoop r (acc ++ [c]) tsp'

/-- get_file -/
def getFile (s : Str) : Except PErr (Str × Str) :=
  let s1 := skipSpaces s
  if atCmdTerm s1 then .error .EFILEM
  else
    match fileLoop s1 [] 0 with
    | .error e => .error e
    | .ok (name, tsp, s2) =>
      match terminate s2 with
      | .error e => .error e
      | .ok r => .ok (name.take (name.length - tsp), r)

structure SFlags where
  g : Bool := false
  p : Bool := false
  i : Bool := false
  k : Bool := false
  occ : Nat := 0
  w : Option Str := none
deriving Repr, DecidableEq

/-- the option loop of get_substs; the stream is left where terminate_command / get_file left it -/
def optLoop (s : Str) (f : SFlags) : Except PErr (SFlags × Str) :=
  match s with
  | [] => match terminate s with | .error e => .error e | .ok r => .ok (f, r)
  | c :: r =>
    if c = 'p' then optLoop r { f with p := true }
    else if c = 'i' ∨ c = 'I' then optLoop r { f with i := true }
    else if c = 'g' then optLoop r { f with g := true }
    else if c = 'k' then optLoop r { f with k := true }
    else if isDigit c then
      if f.occ ≠ 0 then .error .EOCSDU
      else
        let v := digitsVal (s.takeWhile isDigit)
        if v > 65535 then .error .EOCSTL
        else if v = 0 then .error .EOCSZE
        else optLoop (r.dropWhile isDigit) { f with occ := v }
    else if c = 'w' then
      match getFile r with
      | .error e => .error e
      | .ok (name, r') => .ok ({ f with w := some name }, r')
    else match terminate s with | .error e => .error e | .ok r' => .ok (f, r')
termination_by s.length
decreasing_by
  all_goals simp_wf
  all_goals first
    | omega
    | (have := (List.dropWhile_sublist (l := r) isDigit).length_le; omega)

/-- get_subst, entered with CURSC = the delimiter -/
def getSubst (s : Str) : Except PErr (POp × Str) :=
  match s with
  | [] => .error .ECMDIC
  | d :: r =>
    if d = '\n' then .error .ECMDIC
    else if d = '\\' then .error .EBSDEL
    else
      match pickupRex d false .ECMDIC r 0 0 0 [] with
      | .error e => .error e
      | .ok (re, r1) =>
        match pickupRex d true .ECMDIC r1 0 0 0 [] with
        | .error e => .error e
        | .ok (rpl, r2) =>
          match optLoop (skipSpaces r2) {} with
          | .error e => .error e
          | .ok (f, r3) =>
            .ok (.subst re rpl f.g f.p f.i f.k (if !f.g ∧ f.occ = 0 then 1 else f.occ) f.w, r3)

/-- one of the two loops of get_transet on the characters after the delimiter: the characters up to the closing
    delimiter; `limit` = HAWK_SED_ETSNSL bound for the second string (`none` for the first) -/
def transLoop (delim : Char) (limit : Option Nat) : Str → Nat → Str → Except PErr (Str × Str)
  | [], _, _ => .error .ECMDIC
  | _ :: r, skip + 1, acc => transLoop delim limit r skip acc
  | c :: r, 0, acc =>
    if c = delim then .ok (acc, r)
    else if c = '\n' then .error .ECMDIC
    else if c = '\\' then
      match r with
      | [] => .error .ECMDIC
      | nc :: r2 =>
        let e := transEscaped nc r2
        if limit.any (fun n => decide (acc.length ≥ n)) then .error .ETSNSL
        else transLoop delim limit r2 e.2.2 (acc ++ [e.1])
    else if limit.any (fun n => decide (acc.length ≥ n)) then .error .ETSNSL
    else transLoop delim limit r 0 (acc ++ [c])

/-- get_transet, entered with CURSC = the delimiter -/
def getTranset (s : Str) : Except PErr (POp × Str) :=
  match s with
  | [] => .error .ECMDIC
  | d :: r =>
    if d = '\n' then .error .ECMDIC
    else if d = '\\' then .error .EBSDEL
    else
      match transLoop d none r 0 [] with
      | .error e => .error e
      | .ok (src, r1) =>
        match transLoop d (some src.length) r1 0 [] with
        | .error e => .error e
        | .ok (dst, r2) =>
          if dst.length < src.length then .error .ETSNSL
          else
            match terminate r2 with
            | .error e => .error e
            | .ok r3 => .ok (.trans (src.zip dst), r3)

def simpleCmds : List Char := ['d', 'D', 'p', 'P', 'l', 'h', 'H', 'g', 'G', 'x', 'n', 'N', 'z']

/-- the a / i / c case of get_command, entered with CURSC = the command character -/
def getTextCmd (tr : Traits) (c : Char) (r : Str) : Except PErr (POp × Str) :=
  let s1 := skipSpaces r
  let fin (s : Str) : Except PErr (POp × Str) := let t := getText tr s; .ok (.text c t.1, t.2)
  match s1 with
  | '\\' :: r1 =>
    match skipSpaces r1 with
    | [] => fin []
    | c2 :: r2 =>
      if c2 = '\n' then fin r2
      else if tr.sameline then fin (c2 :: r2)
      else .error .EGBABS
  | [] => .error .EBSEXP
  | c1 :: r1 => if tr.sameline ∧ c1 ≠ '\n' then fin (c1 :: r1) else .error .EBSEXP

/-- get_command, entered with CURSC = the command character; `hasA1` / `hasA2` = the address types are not NONE -/
def getCommand (tr : Traits) (hasA1 hasA2 : Bool) (s : Str) : Except PErr (POp × Str) :=
  match s with
  | [] => .error .ECMDMS
  | c :: r =>
    if c = '\n' then .error .ECMDMS
    else if c = ':' then
      if hasA1 then .error .EA1PHB
      else match getLabel tr r with
        | .error e => .error e
        | .ok (lab, r') => .ok (.label lab, r')
    else if c = '{' then .ok (.lbrace, r)
    else if c = '}' then
      if hasA1 then .error .EA1PHB else .ok (.rbrace, r)
    else if c = 'q' ∨ c = 'Q' ∨ c = '=' then
      if tr.strict ∧ hasA2 then .error .EA2PHB
      else match terminate r with
        | .error e => .error e
        | .ok r' => .ok (.simple c, r')
    else if c = 'a' ∨ c = 'i' then
      if tr.strict ∧ hasA2 then .error .EA2PHB else getTextCmd tr c r
    else if c = 'c' then getTextCmd tr c r
    else if simpleCmds.contains c then
      match terminate r with
      | .error e => .error e
      | .ok r' => .ok (.simple c, r')
    else if c = 'b' ∨ c = 't' then
      match getBranchTarget r with
      | .error e => .error e
      | .ok (l, r') => .ok (.branch c l, r')
    else if c = 'r' ∨ c = 'R' ∨ c = 'w' ∨ c = 'W' then
      match getFile r with
      | .error e => .error e
      | .ok (f, r') => .ok (.file c f, r')
    else if c = 's' then getSubst r
    else if c = 'y' then getTranset r
    else if c = 'C' then .error .unsupported
    else .error .ECMDNR

/-- `!`s: (negated, rest) -/
def bangs : Str → Bool → Bool × Str
  | [], n => (n, [])
  | c :: r, n => if c = '!' then bangs r (!n) else (n, c :: r)

/-- the second address after a first one: `,` and get_address, or none -/
def getAddr2 (s1 : Str) : Except PErr (PAddr × Str) :=
  match skipSpaces s1 with
  | ',' :: r =>
    match getAddress (skipSpaces r) with
    | none => .error .EA2MOI
    | some (a2, s2) => if a2 = .none then .error .EA2MOI else .ok (a2, s2)
  | s1' => .ok (.none, s1')

/-- the addresses of one command (hawk_sed_comp from `get_address (sed, &cmd->a1, 0)` to the line-0 check): (a1, a2, rest) -/
def parseAddrs (s : Str) : Except PErr (PAddr × PAddr × Str) :=
  match getAddress s with
  | none => .error .EA1MOI
  | some (a1, s1) =>
    match (if a1 = .none then .ok (.none, s1) else getAddr2 s1) with
    | .error e => .error e
    | .ok (a2, s2) => if a1 = .line 0 then .error .EA1MOI else .ok (a1, a2, s2)

/-- negation and command (hawk_sed_comp from "skip white spaces" before `!` to get_command) -/
def parseBody (tr : Traits) (a1 a2 : PAddr) (s2 : Str) : Except PErr (PCmd × Str) :=
  let s3 := skipSpaces s2
  let (neg, s4) := match s3 with
    | '!' :: _ => let b := bangs s3 false; (b.1, skipSpaces b.2)
    | _ => (false, s3)
  match getCommand tr (a1 ≠ .none) (a2 ≠ .none) s4 with
  | .error e => .error e
  | .ok (op, s5) => .ok ({ a1 := a1, a2 := a2, neg := neg, op := op }, s5)

/-- addresses, negation and command of one command, entered at its first character -/
def parseCmd (tr : Traits) (s : Str) : Except PErr (PCmd × Str) :=
  match parseAddrs s with
  | .error e => .error e
  | .ok (a1, a2, s2) => parseBody tr a1 a2 s2

/-- the text after a `#`: up to and including the newline -/
def skipComment : Str → Str
  | [] => []
  | c :: r => if c = '\n' then r else skipComment r

/-- HAWK_COUNTOF(sed->tmp.grp.cmd) -/
def maxNest : Nat := 128

/-- the `while (1)` loop of hawk_sed_comp.  `level` = tmp.grp.level, `labs` = tmp.labs.
    The tests `s'.length ≤ r.length` / `(skipComment r).length ≤ r.length` are progress guards that make the recursion
    well-founded; they never fire and `PErr.internal` is never reported: `compLoop_no_internal`
    (HawkModel/SedParseNoInternal.lean), theorem `compiler_never_internal` in Props/C18. -/
def compLoop (tr : Traits) (s : Str) (level : Nat) (labs : List Str) : Except PErr (List PCmd) :=
  match s with
  | [] => if level ≠ 0 then .error .EGRNBA else .ok []
  | c :: r =>
    if isSpace c ∨ c = '\n' then compLoop tr r level labs
    else if c = ';' then compLoop tr r level labs
    else if c = '#' then
      if h : (skipComment r).length ≤ r.length then compLoop tr (skipComment r) level labs else .error .internal
    else
      match parseCmd tr s with
      | .error e => .error e
      | .ok (cmd, s') =>
        if h : s'.length ≤ r.length then
          match cmd.op with
          | .lbrace =>
            if level ≥ maxNest then .error .EGRNTD
            else (compLoop tr s' (level + 1) labs).map (cmd :: ·)
          | .rbrace =>
            if level = 0 then .error .EGRNBA
            else (compLoop tr s' (level - 1) labs).map (cmd :: ·)
          | .label name =>
            if name ≠ [] ∧ labs.contains name then .error .ELABDU
            else (compLoop tr s' level (if name = [] then labs else name :: labs)).map (cmd :: ·)
          | _ => (compLoop tr s' level labs).map (cmd :: ·)
        else .error .internal
termination_by s.length
decreasing_by
  all_goals simp_wf
  all_goals omega

/-- hawk_sed_comp -/
def parseScript (tr : Traits) (s : Str) : Except PErr (List PCmd) := compLoop tr s 0 []

/-! ## from the compiled command to the executor's source-level command -/

def PAddr.toAddr : PAddr → Addr
  | .none => .none
  | .line n => .line n
  | .last => .last
  | .re p _ => .re p

def simpleOp (c : Char) : Op :=
  if c = 'q' then .quit else if c = 'd' then .delete else if c = 'D' then .deleteFirst
  else if c = '=' then .lineno else if c = 'p' then .print else if c = 'P' then .printFirst
  else if c = 'l' then .list else if c = 'h' then .hold else if c = 'H' then .holdAppend
  else if c = 'g' then .get else if c = 'G' then .getAppend else if c = 'x' then .xchg
  else if c = 'n' then .next else if c = 'N' then .nextAppend else .noop

/-- the executor's operation; commands the executor does not model (Q z R W) become `noop` (`PCmd.modelled` says so) -/
def POp.toSOp : POp → SOp
  | .label n => .label n
  | .lbrace => .lbrace
  | .rbrace => .rbrace
  | .simple c => .op (simpleOp c)
  | .text c t => .op (if c = 'a' then .append t else if c = 'i' then .insert t else .change t)
  | .file c f => .op (if c = 'w' then .wfile f else if c = 'r' then .readFile f none else .noop)
  | .branch c l => if c = 'b' then .b l else .t l
  | .subst re rpl g p _ _ occ w => .op (.subst re rpl g occ p w)
  | .trans pairs => .op (.trans pairs)

def PCmd.toS (c : PCmd) : SCmd := { a1 := c.a1.toAddr, a2 := c.a2.toAddr, neg := c.neg, op := c.op.toSOp }

def PAddr.modelled : PAddr → Bool
  | .re _ ic => !ic
  | _ => true

/-- is the command inside the executor model (no I / i / k, not Q z R W)? -/
def PCmd.modelled (c : PCmd) : Bool :=
  c.a1.modelled && c.a2.modelled &&
  (match c.op with
   | .simple ch => ch ≠ 'Q' && ch ≠ 'z'
   | .file ch _ => ch = 'w' || ch = 'r'
   | .subst _ _ _ _ i k _ _ => !i && !k
   | _ => true)

/-! ## script delivery (lib/std-sed.c read_input_stream for the script streams: -e pieces, -f files) -/

/-- the script streams are read one after the other; when a stream ends and the character read last (`xtn->s.last`, 0 before
    anything is read, NOT updated by the newline supplied here) is not a newline, a newline is supplied -/
def deliverGo : List Str → Char → Str
  | [], _ => []
  | f :: rest, last =>
    let last' := f.getLast?.getD last
    f ++ (if last' = '\n' then [] else ['\n']) ++ deliverGo rest last'

/-- the character stream hawk_sed_comp sees for the script fragments `frags` -/
def deliver (frags : List Str) : Str := deliverGo frags '\x00'

/-- script text -> executable program (labels and braces resolved): `parseScript` then `compile` -/
def compileText (tr : Traits) (s : Str) : Except (PErr ⊕ CompErr) Prog :=
  match parseScript tr s with
  | .error e => .error (.inl e)
  | .ok cs =>
    match compile (cs.map PCmd.toS) with
    | .error e => .error (.inr e)
    | .ok p => .ok p

end Hawk.Sed
