import HawkModel.Sed
/-! helper definitions and lemmas for Props/C18 -/
namespace Hawk.Sed

/-! ### ranges -/

/-- the range machine run over a sequence of evaluations of one two-address command: selection flags -/
def rangeRun (k : A2Kind) : Bool → List RangeObs → List Bool
  | _, [] => []
  | act, o :: rest => (rangeStep k act o).2.1 :: rangeRun k (rangeStep k act o).1 rest

/-- body of an open range: everything up to and including the first evaluation at which addr2 matches
    (selected) or a line-number addr2 turns out to have been passed (not selected);
    returns (selection flags of the body, evaluations after the body) -/
def takeBody (k : A2Kind) : List RangeObs → List Bool × List RangeObs
  | [] => ([], [])
  | o :: rest =>
    if o.m2 then ([true], rest)
    else if passed k o then ([false], rest)
    else (true :: (takeBody k rest).1, (takeBody k rest).2)

theorem takeBody_length (k : A2Kind) (l : List RangeObs) : (takeBody k l).2.length ≤ l.length := by
  induction l with
  | nil => simp [takeBody]
  | cons o rest ih =>
    simp only [takeBody]
    split
    · simp
    · split
      · simp
      · simp; omega

/-- the POSIX ranges, declaratively: closed → wait for a line matching addr1; that line is selected; if addr2 is a
    line number ≤ that line (or `$` on the last line) the range is that single line; otherwise the range is that
    line plus its body, and the search for the next range resumes after the body -/
def rangeSpec (k : A2Kind) : List RangeObs → List Bool
  | [] => []
  | o :: rest =>
    if !o.m1 then false :: rangeSpec k rest
    else if oneLine k o then true :: rangeSpec k rest
    else true :: ((takeBody k rest).1 ++ rangeSpec k (takeBody k rest).2)
termination_by l => l.length
decreasing_by
  all_goals simp_wf
  · have := takeBody_length k rest; omega

theorem rangeRun_open (k : A2Kind) (l : List RangeObs) :
    rangeRun k true l = (takeBody k l).1 ++ rangeRun k false (takeBody k l).2 := by
  induction l with
  | nil => simp [rangeRun, takeBody]
  | cons o rest ih =>
    simp only [rangeRun, takeBody, rangeStep]
    by_cases h2 : o.m2 = true
    · simp [h2]
    · by_cases hp : passed k o = true
      · simp [h2, hp]
      · simp [h2, hp, ih]

/-! ### strings -/

theorem endsNl_iff (s : Str) : endsNl s = true ↔ ∃ b, s = b ++ ['\n'] := by
  unfold endsNl
  simp [List.getLast?_eq_some_iff]

theorem dropLast_of_last {s : Str} {c : Char} (h : s.getLast? = some c) : s.dropLast ++ [c] = s := by
  obtain ⟨b, hb⟩ := List.getLast?_eq_some_iff.mp h
  subst hb
  simp

theorem trimLine_append (s : Str) : (trimLine s).1 ++ (trimLine s).2 = s := by
  unfold trimLine
  split
  · rename_i h
    have hs : s.dropLast ++ ['\n'] = s := dropLast_of_last (by simpa [endsNl] using h)
    simp only
    split
    · rename_i h2
      have hb : s.dropLast.dropLast ++ ['\r'] = s.dropLast := dropLast_of_last h2
      calc s.dropLast.dropLast ++ ['\r', '\n'] = (s.dropLast.dropLast ++ ['\r']) ++ ['\n'] := by simp
        _ = s.dropLast ++ ['\n'] := by rw [hb]
        _ = s := hs
    · exact hs
  · simp

theorem emit_nil_out (s : Str) : emit [] s = s := by
  unfold emit; split <;> simp_all

/-- on newline-terminated streams `emit` is plain concatenation -/
theorem emit_terminated (out s : Str) (h : out = [] ∨ endsNl out = true) : emit out s = out ++ s := by
  unfold emit
  by_cases hs : s = []
  · simp [hs]
  · simp [hs, h]

theorem endsNl_append (a b : Str) (hb : endsNl b = true) : endsNl (a ++ b) = true := by
  obtain ⟨c, hc⟩ := (endsNl_iff b).mp hb
  exact (endsNl_iff _).mpr ⟨a ++ c, by simp [hc]⟩

/-! ### substitution: the declarative side -/

theorem at_law {m : Matcher} {re s : Str} {pos : Nat} {r : MatchRes} (h : m.at re s pos = some r) :
    pos ≤ r.start ∧ r.start + r.len ≤ s.length := by
  unfold Matcher.at at h
  split at h
  · split at h
    · cases h; assumption
    · cases h
  · cases h

/-- the match sequence POSIX `s` works on: scan from `pos`; take the leftmost match at or after the scan position;
    an EMPTY match sitting exactly at the end of the previous match does not count (advance one character and scan
    again); after a match continue behind it (one character further if it was empty).  `pm` = end of the previous match. -/
def matchSeq (m : Matcher) (re s : Str) (pos : Nat) (pm : Option Nat) : List MatchRes :=
  if hpos : pos ≤ s.length then
    match hm : m.at re s pos with
    | none => []
    | some r =>
      have hlaw := at_law hm
      if r.len = 0 ∧ pm = some r.start then matchSeq m re s (pos + 1) pm
      else r :: matchSeq m re s (r.start + r.len + (if r.len = 0 then 1 else 0)) (some (r.start + r.len))
  else []
termination_by s.length + 1 - pos
decreasing_by
  all_goals simp_wf
  all_goals (try split) <;> omega

/-- matches lie in the subject, left to right, without overlap -/
def Chain (s : Str) : Nat → List MatchRes → Prop
  | _, [] => True
  | pos, r :: rest => pos ≤ r.start ∧ r.start + r.len ≤ s.length ∧ Chain s (r.start + r.len) rest

theorem Chain.mono {s : Str} {p p' : Nat} {l : List MatchRes} (hp : p ≤ p') (h : Chain s p' l) : Chain s p l := by
  cases l with
  | nil => trivial
  | cons r rest => exact ⟨Nat.le_trans hp h.1, h.2.1, h.2.2⟩

theorem matchSeq_chain (m : Matcher) (re s : Str) (pos : Nat) (pm : Option Nat) :
    Chain s pos (matchSeq m re s pos pm) := by
  fun_induction matchSeq m re s pos pm with
  | case1 pos pm hpos hm => trivial
  | case2 pos pm hpos r hm hlaw hskip ih => exact Chain.mono (Nat.le_succ _) ih
  | case3 pos pm hpos r hm hlaw hskip ih =>
    exact ⟨hlaw.1, hlaw.2, Chain.mono (Nat.le_add_right _ _) ih⟩
  | case4 pos pm hpos => trivial

/-- declarative replacement over a match sequence: copy the gaps, replace the matches chosen by `sel k`
    (k = 1-based index of the match in the sequence), keep the others -/
def render (s rpl : Str) (sel : Nat → Bool) : Nat → Nat → List MatchRes → Str
  | pos, _, [] => s.drop pos
  | pos, k, r :: rest =>
    slice s pos (r.start - pos) ++ (if sel k then expandRpl s r rpl else slice s r.start r.len) ++
      render s rpl sel (r.start + r.len) (k + 1) rest

/-- which occurrences `s` replaces: all of them (max_count = 0, the g flag) or exactly the `maxc`-th -/
def selOcc (maxc k : Nat) : Bool := maxc = 0 || k = maxc

def anyFrom (maxc k : Nat) : Nat → Bool
  | 0 => false
  | n + 1 => selOcc maxc k || anyFrom maxc (k + 1) n

theorem slice_add (s : Str) (p a b : Nat) : slice s p (a + b) = slice s p a ++ slice s (p + a) b := by
  simp [slice, List.take_add]

theorem drop_eq_slice (s : Str) (p a : Nat) : s.drop p = slice s p a ++ s.drop (p + a) := by
  simp [slice]
  conv => lhs; rw [← List.take_append_drop a (s.drop p)]
  simp

theorem render_shift (s rpl : Str) (sel : Nat → Bool) (n pos k : Nat) (l : List MatchRes)
    (h : Chain s (pos + n) l) : render s rpl sel pos k l = slice s pos n ++ render s rpl sel (pos + n) k l := by
  cases l with
  | nil => simp [render]; exact drop_eq_slice s pos n
  | cons r rest =>
    simp only [render]
    have h1 : pos + n ≤ r.start := h.1
    have : r.start - pos = n + (r.start - (pos + n)) := by omega
    rw [this, slice_add]
    simp [List.append_assoc]

theorem render_none (s rpl : Str) (sel : Nat → Bool) (pos k : Nat) (l : List MatchRes)
    (h : Chain s pos l) (hs : ∀ j, k ≤ j → sel j = false) : render s rpl sel pos k l = s.drop pos := by
  induction l generalizing pos k with
  | nil => simp [render]
  | cons r rest ih =>
    simp only [render, hs k (Nat.le_refl _)]
    rw [ih _ _ h.2.2 (fun j hj => hs j (by omega))]
    have h1 : pos ≤ r.start := h.1
    have e1 : s.drop pos = slice s pos (r.start - pos) ++ s.drop r.start := by
      have := drop_eq_slice s pos (r.start - pos)
      rwa [show pos + (r.start - pos) = r.start by omega] at this
    rw [e1, drop_eq_slice s r.start r.len]
    simp [List.append_assoc]

theorem anyFrom_false (maxc k n : Nat) (hs : ∀ j, k ≤ j → selOcc maxc j = false) : anyFrom maxc k n = false := by
  induction n generalizing k with
  | zero => rfl
  | succ n ih => simp [anyFrom, hs k (Nat.le_refl _), ih (k + 1) (fun j hj => hs j (by omega))]

theorem substLoop_spec (m : Matcher) (re rpl : Str) (maxc : Nat) (s : Str) (pos cnt : Nat) (pm : Option Nat) :
    substLoop m re rpl maxc s pos cnt pm =
      (render s rpl (selOcc maxc) pos (cnt + 1) (matchSeq m re s pos pm),
       anyFrom maxc (cnt + 1) (matchSeq m re s pos pm).length) := by
  fun_induction substLoop m re rpl maxc s pos cnt pm with
  | case1 pos cnt pm hpos hc hm =>
    -- no more match
    rw [matchSeq]; simp only [hpos, dite_true]
    split
    · simp [render, anyFrom]
    · rename_i r hm'; rw [hm] at hm'; cases hm'
  | case2 pos cnt pm hpos hc r hm hlaw hskip rest ih =>
    -- empty match at the end of the previous match: skip one character
    rw [matchSeq]; simp only [hpos, dite_true]
    split
    · rename_i hm'; rw [hm] at hm'; cases hm'
    · rename_i r' hm'
      have : r' = r := by rw [hm] at hm'; cases hm'; rfl
      subst this
      rw [if_pos hskip]
      rw [render_shift s rpl _ 1 pos (cnt + 1) _ (matchSeq_chain m re s (pos + 1) pm)]
      simp [rest, ih]
  | case3 pos cnt pm hpos hc r hm hlaw hskip e adv rest skipped hocc ih =>
    -- a match that is not the wanted occurrence
    rw [matchSeq]; simp only [hpos, dite_true]
    split
    · rename_i hm'; rw [hm] at hm'; cases hm'
    · rename_i r' hm'
      have : r' = r := by rw [hm] at hm'; cases hm'; rfl
      subst this
      rw [if_neg hskip]
      have hsel : selOcc maxc (cnt + 1) = false := by
        simp [selOcc]; omega
      simp only [render, hsel, List.length_cons, anyFrom, Bool.false_or, Bool.false_eq_true, if_false]
      have hch := matchSeq_chain m re s (r'.start + r'.len + (if r'.len = 0 then 1 else 0)) (some (r'.start + r'.len))
      rw [render_shift s rpl _ (if r'.len = 0 then 1 else 0) (r'.start + r'.len) (cnt + 1 + 1) _ hch]
      have hs1 : slice s pos (r'.start - pos + r'.len) = slice s pos (r'.start - pos) ++ slice s r'.start r'.len := by
        rw [slice_add]; congr 2; omega
      have hs2 : skipped = slice s (r'.start + r'.len) (if r'.len = 0 then 1 else 0) := by
        simp only [skipped, e]; split <;> simp [slice]
      rw [hs1, hs2]
      simp [rest, ih, e, adv, List.append_assoc]
  | case4 pos cnt pm hpos hc r hm hlaw hskip e adv rest skipped hocc ih =>
    -- the wanted occurrence (or any, with g): replace
    rw [matchSeq]; simp only [hpos, dite_true]
    split
    · rename_i hm'; rw [hm] at hm'; cases hm'
    · rename_i r' hm'
      have : r' = r := by rw [hm] at hm'; cases hm'; rfl
      subst this
      rw [if_neg hskip]
      have hsel : selOcc maxc (cnt + 1) = true := by
        simp [selOcc]; omega
      simp only [render, hsel, List.length_cons, anyFrom, Bool.true_or, if_true]
      have hch := matchSeq_chain m re s (r'.start + r'.len + (if r'.len = 0 then 1 else 0)) (some (r'.start + r'.len))
      rw [render_shift s rpl _ (if r'.len = 0 then 1 else 0) (r'.start + r'.len) (cnt + 1 + 1) _ hch]
      have hs2 : skipped = slice s (r'.start + r'.len) (if r'.len = 0 then 1 else 0) := by
        simp only [skipped, e]; split <;> simp [slice]
      rw [hs2]
      simp [rest, ih, e, adv, List.append_assoc]
  | case5 pos cnt pm hpos hc =>
    -- the occurrence has been substituted already: copy the rest
    have hs : ∀ j, cnt + 1 ≤ j → selOcc maxc j = false := by
      intro j hj; simp [selOcc]; omega
    rw [render_none s rpl _ pos (cnt + 1) _ (matchSeq_chain m re s pos pm) hs, anyFrom_false _ _ _ hs]
  | case6 pos cnt pm hpos =>
    rw [matchSeq]; simp only [hpos, dite_false]
    simp [render, anyFrom]; omega

/-! ### control flow -/

/-- no backward jumps: every branch goes to a later command and there is no `D` (which restarts the script) -/
def forwardOnly (prog : Prog) : Prop :=
  ∀ (i : Nat) (c : Cmd), prog[i]? = some c →
    c.op ≠ .deleteFirst ∧ (∀ t, c.op = .branch t → i < t) ∧ (∀ t, c.op = .tbranch t → i < t)

/-- the only commands that jump: b / t (to their target) and D (to the start) -/
theorem execCmd_goto (m : Matcher) (q cr : Bool) (op : Op) (st st' : St) (i : Nat)
    (h : execCmd m q op cr st = (st', .goto i)) : op = .branch i ∨ op = .tbranch i := by
  cases op <;> simp [execCmd] at h
  all_goals (try (repeat' split at h) <;> simp_all)

theorem execCmd_again (m : Matcher) (q cr : Bool) (op : Op) (st st' : St)
    (h : execCmd m q op cr st = (st', .again)) : op = .deleteFirst := by
  cases op <;> simp [execCmd] at h
  all_goals (try (repeat' split at h) <;> simp_all)

theorem cycleRun_forward (m : Matcher) (prog : Prog) (q : Bool) (cap : Nat) (hf : forwardOnly prog) :
    ∀ (fuel pc : Nat) (st s : St), prog.length - pc < fuel → cycleRun m prog q cap fuel pc st ≠ .outOfFuel s := by
  intro fuel
  induction fuel with
  | zero => intro pc st s h; omega
  | succ n ih =>
    intro pc st s hlt
    unfold cycleRun
    split
    · simp
    · rename_i c hc
      have hpc : pc < prog.length := by
        have := List.getElem?_eq_some_iff.mp hc
        exact this.1
      obtain ⟨hD, hB, hT⟩ := hf pc c hc
      split
      · simp
      · rename_i st1 sel cready hma
        generalize (if c.neg = true then !sel else sel) = cond
        cases cond
        · simp only [Bool.false_eq_true, if_false]
          exact ih _ _ _ (by omega)
        · simp only [if_true]
          split
          · exact ih _ _ _ (by omega)
          · rename_i st2 i hex
            have hi : pc < i := by
              rcases execCmd_goto _ _ _ _ _ _ _ hex with h | h
              · exact hB i h
              · exact hT i h
            have : ¬ (i ≤ pc ∧ tooBig cap st2 = true) := by omega
            simp only [this, if_false]
            exact ih _ _ _ (by omega)
          · simp
          · rename_i st2 hex
            exact absurd (execCmd_again _ _ _ _ _ _ hex) hD
          · simp
          · simp

/-! ### input consumption -/

theorem matchA_input (m : Matcher) (a : Addr) (st st' : St) (b : Bool)
    (h : matchA m a st = some (st', b)) : st'.input = st.input := by
  unfold matchA at h
  repeat' split at h
  all_goals simp_all
  all_goals (try (obtain ⟨h1, _⟩ := h; subst h1; rfl))

theorem matchAddress_input (m : Matcher) (c : Cmd) (pc : Nat) (st st' : St) (sel cr : Bool)
    (h : matchAddress m c pc st = some (st', sel, cr)) : st'.input = st.input := by
  unfold matchAddress at h
  split at h
  · simp_all
  · split at h
    · split at h
      · simp at h
      · rename_i st1 b hm
        have := matchA_input _ _ _ _ _ hm
        simp at h; obtain ⟨h1, _⟩ := h; subst h1; exact this
    · simp only at h
      split at h
      · simp at h
      · rename_i st1 b hm
        have := matchA_input _ _ _ _ _ hm
        simp at h; obtain ⟨h1, _⟩ := h; subst h1; exact this

theorem emitOutput_input (q : Bool) (st : St) (skip : Bool) : (emitOutput q st skip).input = st.input := by
  simp [emitOutput]

theorem writeFile_input (st : St) (f s : Str) : (writeFile st f s).input = st.input := by
  unfold writeFile; split <;> rfl

theorem execCmd_input_le (m : Matcher) (q cr : Bool) (op : Op) (st : St) :
    (execCmd m q op cr st).1.input.length ≤ st.input.length := by
  cases op <;> simp [execCmd, emitOutput_input, writeFile_input]
  all_goals (try (repeat' split) <;> simp_all [emitOutput_input, writeFile_input])
  all_goals (try omega)

theorem cycleRun_input_le (m : Matcher) (prog : Prog) (q : Bool) (cap : Nat) :
    ∀ (fuel pc : Nat) (st : St), (cycleRun m prog q cap fuel pc st).st.input.length ≤ st.input.length := by
  intro fuel
  induction fuel with
  | zero => intro pc st; simp [cycleRun, CycleEnd.st]
  | succ n ih =>
    intro pc st
    unfold cycleRun
    split
    · simp [CycleEnd.st]
    · rename_i c hc
      split
      · simp [CycleEnd.st]
      · rename_i st1 sel cready hma
        have h1 : st1.input = st.input := matchAddress_input _ _ _ _ _ _ _ hma
        generalize (if c.neg = true then !sel else sel) = cond
        cases cond
        · simp only [Bool.false_eq_true, if_false]
          have := ih (pc + 1) st1; rw [h1] at this; exact this
        · simp only [if_true]
          have hle := execCmd_input_le m q (cready || c.neg) c.op st1
          rw [h1] at hle
          split
          all_goals (rename_i st2 _ hex) <;> (try rename_i st2 hex)
          all_goals (rw [hex] at hle; simp only at hle)
          · exact Nat.le_trans (ih _ _) hle
          · split
            · simpa [CycleEnd.st] using hle
            · exact Nat.le_trans (ih _ _) hle
          · simpa [CycleEnd.st] using hle
          · split
            · simpa [CycleEnd.st] using hle
            · exact Nat.le_trans (ih _ _) hle
          · simpa [CycleEnd.st] using hle
          · simpa [CycleEnd.st] using hle

/-! ### definitions used by the statements in Props/C18 and their helper lemmas -/

/-- POSIX view of a buffer: the text without the line's own terminator -/
def body (s : Str) : Str := if endsNl s then s.dropLast else s

theorem terminated_eq (s : Str) (h : endsNl s = true) : s = body s ++ ['\n'] := by
  unfold body; simp [h]
  exact (dropLast_of_last (by simpa [endsNl] using h)).symm

/-- which occurrences are chosen -/
theorem selOcc_iff (maxc k : Nat) : selOcc maxc k = true ↔ (maxc = 0 ∨ k = maxc) := by
  simp [selOcc]

theorem anyFrom_iff (maxc k n : Nat) : anyFrom maxc k n = true ↔ ∃ j, k ≤ j ∧ j < k + n ∧ selOcc maxc j = true := by
  induction n generalizing k with
  | zero => simp [anyFrom]; intro x h1 h2; omega
  | succ n ih =>
    simp only [anyFrom, Bool.or_eq_true, ih]
    constructor
    · rintro (h | ⟨j, h1, h2, h3⟩)
      · exact ⟨k, Nat.le_refl _, by omega, h⟩
      · exact ⟨j, by omega, by omega, h3⟩
    · rintro ⟨j, h1, h2, h3⟩
      by_cases hj : j = k
      · subst hj; exact Or.inl h3
      · exact Or.inr ⟨j, by omega, by omega, h3⟩

/-- what a command means for the flag: a line was read or a `t` was taken (reset), an `s` ran, or nothing -/
inductive FlagEv where
  | reset
  | subst (replaced : Bool)
  | keep
deriving Repr, DecidableEq

def flagStep : Bool → FlagEv → Bool
  | _, .reset => false
  | f, .subst r => f || r
  | f, .keep => f

def flagEvent (m : Matcher) (op : Op) (st : St) : FlagEv :=
  match op with
  | .next => if st.input = [] then .keep else .reset
  | .nextAppend => if st.input = [] then .keep else .reset
  | .tbranch _ => if st.substDone then .reset else .keep
  | .subst re rpl g occ _ _ =>
    match (if re = [] then st.lastRe else some re) with
    | none => .keep
    | some rex => .subst (doSubst m rex rpl g occ st.ps).2
  | _ => .keep

/-- "since the last reset", read off the event history most recent first -/
def sinceLast : List FlagEv → Bool → Bool
  | [], f0 => f0
  | .reset :: _, _ => false
  | .subst r :: older, f0 => r || sinceLast older f0
  | .keep :: older, f0 => sinceLast older f0

theorem sinceLast_snoc (l : List FlagEv) (e : FlagEv) (f0 : Bool) :
    sinceLast (l ++ [e]) f0 = sinceLast l (flagStep f0 e) := by
  induction l with
  | nil => cases e <;> simp [sinceLast, flagStep, Bool.or_comm]
  | cons a r ih => cases a <;> simp [sinceLast, ih]

theorem execLoop_forward (m : Matcher) (prog : Prog) (q : Bool) (cap fuel : Nat)
    (hf : forwardOnly prog) (hfuel : prog.length < fuel) :
    ∀ (budget : Nat) (st : St), (execLoop m prog q cap fuel budget st).status ≠ .outOfFuel := by
  intro budget
  induction budget with
  | zero => intro st; simp [execLoop, finish]
  | succ b ih =>
    intro st
    unfold execLoop
    split
    · simp [finish]
    · simp only
      split
      · exact ih _
      · simp [finish]
      · simp [finish]
      · rename_i st2 hc
        exact absurd hc (cycleRun_forward m prog q cap hf fuel 0 _ st2 (by omega))

end Hawk.Sed

namespace Hawk.Sed

/-! ### end-to-end: a one-command script `addr1,addr2 p` under -n -/

/-- does an address (not an empty regex) hold for a pattern space -/
def addrHolds (m : Matcher) (a : Addr) (lineno : Nat) (isLast : Bool) (ps : Str) : Bool :=
  match a with
  | .none => true
  | .line n => decide (lineno = n)
  | .last => isLast
  | .re p => (m.at p (trimLine ps).1 0).isSome

/-- the evaluations a command meets when every input line starts one cycle and nothing else touches the pattern space -/
def obsOf (m : Matcher) (a1 a2 : Addr) : Nat → List Str → List RangeObs
  | _, [] => []
  | n, l :: rest =>
    ⟨n + 1, addrHolds m a1 (n + 1) rest.isEmpty l, addrHolds m a2 (n + 1) rest.isEmpty l, rest.isEmpty⟩ ::
      obsOf m a1 a2 (n + 1) rest

def selectLines : List Str → List Bool → Str
  | l :: ls, b :: bs => (if b then l else []) ++ selectLines ls bs
  | _, _ => []

def Addr.plain : Addr → Prop
  | .re p => p ≠ []
  | _ => True

theorem matchA_holds (m : Matcher) (a : Addr) (st : St) (h : a.plain) :
    ∃ lr, matchA m a st = some ({ st with lastRe := lr }, addrHolds m a st.lineno st.input.isEmpty st.ps) := by
  cases a with
  | none => exact ⟨st.lastRe, by simp [matchA, addrHolds]⟩
  | line n => exact ⟨st.lastRe, by simp [matchA, addrHolds]⟩
  | last => exact ⟨st.lastRe, by simp [matchA, addrHolds]⟩
  | re p =>
    have hp : p ≠ [] := h
    exact ⟨some p, by simp [matchA, addrHolds, hp]⟩

/-- the machine only looks at addr2 while the range is open and at addr1 while it is closed -/
theorem rangeStep_lazy (k : A2Kind) (act : Bool) (n : Nat) (m1 m2 last : Bool) :
    rangeStep k act ⟨n, if act then m2 else m1, if act then m2 else m1, last⟩ = rangeStep k act ⟨n, m1, m2, last⟩ := by
  cases act <;> simp [rangeStep, oneLine, passed]

/-- one cycle of the script `addr1,addr2 p` -/
theorem one_cmd_cycle (m : Matcher) (a1 a2 : Addr) (h1 : a1 ≠ .none) (h2 : a2 ≠ .none) (p1 : a1.plain) (p2 : a2.plain)
    (cap fuel : Nat) (st : St) (act : Bool) (hr : st.rstate = [act]) :
    ∃ st2, cycleRun m [{ a1 := a1, a2 := a2, neg := false, op := .print }] true cap (fuel + 2) 0 st = .over st2 ∧
      st2.input = st.input ∧ st2.lineno = st.lineno ∧ st2.appq = st.appq ∧
      st2.rstate = [(rangeStep a2.kind act ⟨st.lineno, addrHolds m a1 st.lineno st.input.isEmpty st.ps,
                       addrHolds m a2 st.lineno st.input.isEmpty st.ps, st.input.isEmpty⟩).1] ∧
      st2.out = (if (rangeStep a2.kind act ⟨st.lineno, addrHolds m a1 st.lineno st.input.isEmpty st.ps,
                       addrHolds m a2 st.lineno st.input.isEmpty st.ps, st.input.isEmpty⟩).2.1
                 then emit st.out st.ps else st.out) := by
  have hp : (if act then a2 else a1).plain := by cases act <;> simp [p1, p2]
  obtain ⟨lr, hm⟩ := matchA_holds m (if act then a2 else a1) st hp
  have hb : addrHolds m (if act then a2 else a1) st.lineno st.input.isEmpty st.ps =
      (if act then addrHolds m a2 st.lineno st.input.isEmpty st.ps else addrHolds m a1 st.lineno st.input.isEmpty st.ps) := by
    cases act <;> simp
  have hlazy := rangeStep_lazy a2.kind act st.lineno (addrHolds m a1 st.lineno st.input.isEmpty st.ps)
    (addrHolds m a2 st.lineno st.input.isEmpty st.ps) st.input.isEmpty
  rw [hb] at hm
  simp only [cycleRun, List.getElem?_cons_zero, matchAddress, h1, h2, if_false, hr, List.getD_cons_zero, hm]
  simp only [hlazy]
  generalize rangeStep a2.kind act _ = r
  obtain ⟨ra, rs, rc⟩ := r
  cases rs
  · simp [cycleRun, CycleEnd.over.injEq, List.set]
  · simp [cycleRun, execCmd, List.set]

theorem range_print_loop (m : Matcher) (a1 a2 : Addr) (h1 : a1 ≠ .none) (h2 : a2 ≠ .none) (p1 : a1.plain) (p2 : a2.plain)
    (cap fuel : Nat) :
    ∀ (input : List Str) (st : St) (act : Bool) (budget : Nat),
      st.input = input → st.rstate = [act] → st.appq = [] → (st.out = [] ∨ endsNl st.out = true) →
      (∀ l ∈ input, endsNl l = true) → input.length ≤ budget →
      (execLoop m [{ a1 := a1, a2 := a2, neg := false, op := .print }] true cap (fuel + 2) budget st).out =
        st.out ++ selectLines input (rangeRun a2.kind act (obsOf m a1 a2 st.lineno input)) := by
  intro input
  induction input with
  | nil =>
    intro st act budget hin _ _ _ _ _
    cases budget <;> simp [execLoop, hin, finish, selectLines]
  | cons l rest ih =>
    intro st act budget hin hr ha ho hl hb
    obtain ⟨b, rfl⟩ : ∃ b, budget = b + 1 := ⟨budget - 1, by simp at hb; omega⟩
    rw [execLoop]
    simp only [hin]
    obtain ⟨st2, hc, hi2, hn2, ha2, hr2, ho2⟩ := one_cmd_cycle m a1 a2 h1 h2 p1 p2 cap fuel
      { st with input := rest, ps := l, lineno := st.lineno + 1, substDone := false } act hr
    rw [hc]
    simp only at hi2 hn2 ha2 hr2 ho2
    have hl1 : endsNl l = true := hl l (by simp)
    have hline : (emitOutput true st2 false).lineno = st.lineno + 1 := by simp [emitOutput, hn2]
    have hout : (emitOutput true st2 false).out = st2.out := by simp [emitOutput, ha2, ha]
    have hterm : (emitOutput true st2 false).out = [] ∨ endsNl (emitOutput true st2 false).out = true := by
      rw [hout, ho2]
      split
      · right; rw [emit_terminated _ _ ho]; exact endsNl_append _ _ hl1
      · exact ho
    have key := ih (emitOutput true st2 false) _ b
      (by rw [emitOutput_input, hi2]) (by simpa [emitOutput] using hr2) (by simp [emitOutput])
      hterm (fun x hx => hl x (by simp [hx])) (by simp at hb; omega)
    rw [key]
    rw [hline, hout, ho2]
    simp only [obsOf, rangeRun, selectLines]
    split
    · rw [emit_terminated _ _ ho]; simp
    · simp

/-! ### end-to-end: the one-command script `s/re/rpl/flags` -/

theorem trimLine_term_endsNl (s : Str) (h : endsNl s = true) : endsNl (trimLine s).2 = true := by
  unfold trimLine
  simp only [h, if_true]
  split <;> simp [endsNl]

theorem doSubst_endsNl (m : Matcher) (re rpl : Str) (g : Bool) (occ : Nat) (ps : Str) (h : endsNl ps = true) :
    endsNl (doSubst m re rpl g occ ps).1 = true := by
  simp only [doSubst]
  exact endsNl_append _ _ (trimLine_term_endsNl ps h)

theorem subst_cmd_cycle (m : Matcher) (re rpl : Str) (g : Bool) (occ : Nat) (hre : re ≠ []) (cap fuel : Nat) (st : St) :
    ∃ st2, cycleRun m [{ op := .subst re rpl g occ false none }] false cap (fuel + 2) 0 st = .over st2 ∧
      st2.input = st.input ∧ st2.lineno = st.lineno ∧ st2.appq = st.appq ∧ st2.out = st.out ∧
      st2.ps = (doSubst m re rpl g occ st.ps).1 := by
  rw [cycleRun]
  simp only [List.getElem?_cons_zero, matchAddress, if_true]
  have hex : execCmd m false (.subst re rpl g occ false none) (true || false) st =
      ({ st with ps := (doSubst m re rpl g occ st.ps).1, lastRe := some re,
                 unspec := noteCollision st (doSubst m re rpl g occ st.ps).1,
                 substDone := st.substDone || (doSubst m re rpl g occ st.ps).2 }, .next) := by
    simp only [execCmd, hre, if_false]
    cases (doSubst m re rpl g occ st.ps).2 <;> simp
  simp only [Bool.false_eq_true, if_false, if_true, hex]
  rw [cycleRun]
  simp

theorem subst_script_loop (m : Matcher) (re rpl : Str) (g : Bool) (occ : Nat) (hre : re ≠ []) (cap fuel : Nat) :
    ∀ (input : List Str) (st : St) (budget : Nat),
      st.input = input → st.appq = [] → (st.out = [] ∨ endsNl st.out = true) →
      (∀ l ∈ input, endsNl l = true) → input.length ≤ budget →
      (execLoop m [{ op := .subst re rpl g occ false none }] false cap (fuel + 2) budget st).out =
        st.out ++ (input.map fun l => (doSubst m re rpl g occ l).1).flatten := by
  intro input
  induction input with
  | nil =>
    intro st budget hin _ _ _ _
    cases budget <;> simp [execLoop, hin, finish]
  | cons l rest ih =>
    intro st budget hin ha ho hl hb
    obtain ⟨b, rfl⟩ : ∃ b, budget = b + 1 := ⟨budget - 1, by simp at hb; omega⟩
    rw [execLoop]
    simp only [hin]
    obtain ⟨st2, hc, hi2, _, ha2, ho2, hp2⟩ := subst_cmd_cycle m re rpl g occ hre cap fuel
      { st with input := rest, ps := l, lineno := st.lineno + 1, substDone := false }
    rw [hc]
    simp only at hi2 ha2 ho2 hp2
    have hl1 : endsNl l = true := hl l (by simp)
    have hps : endsNl st2.ps = true := by rw [hp2]; exact doSubst_endsNl _ _ _ _ _ _ hl1
    have hout : (emitOutput false st2 false).out = st.out ++ (doSubst m re rpl g occ l).1 := by
      simp [emitOutput, ha2, ha, ho2, hp2, emit_terminated _ _ ho]
    have key := ih (emitOutput false st2 false) b
      (by rw [emitOutput_input, hi2]) (by simp [emitOutput])
      (by right; rw [hout]; exact endsNl_append _ _ (by rw [← hp2]; exact hps))
      (fun x hx => hl x (by simp [hx])) (by simp at hb; omega)
    rw [key, hout]
    simp

end Hawk.Sed
