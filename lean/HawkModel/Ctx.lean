/-!
# Model of hawk's interpreter / runtime-context state machine (C09)

Transcription of the embedding API of `lib/run.c`, `lib/hawk.c`, `lib/parse.c` (entry points
`hawk_rtx_open/close`, `hawk_rtx_callfun` + `hawk_rtx_evalcall`, `hawk_rtx_loop/exec`,
`hawk_rtx_setgbl/getgbl`, `hawk_rtx_halt`, `hawk_clear`, `hawk_parse`) over a small abstract
program language: a program is a list of named functions (plus optional BEGIN / END blocks) whose
bodies are sequences of abstract actions (set a global / local / parameter, print to the console or
to a named output stream, close a stream, read a record, fail with a run-time error, `exit`,
`return`, call another function, mutate a map parameter).

What is shared by all contexts of an interpreter (`Interp`): the parsed program (read-only) and
the call-site function cache (`call->u.fun.fun`, written by `eval_fncall_fun` — the only
interpreter-level field written at run time).  What is private to a context (`Ctx`): the value
heap with reference counts, the run-time stack (a flat slot array exactly like `rtx->stack`:
user globals at the bottom, then frames `[saved base, saved top, return value, nargs, args.., locals..]`,
`stack_top` = its length), `stack_base`, `exit_level`, the sticky error number, the rio chain of
named output streams and the per-context files behind them, console output, console input,
`$0`, `NR`, and the references the embedding application holds (handles and call temporaries:
the ownership ledger).

Reference counting is explicit: `refup`/`refdown` are transcribed where the C performs them.  Two
fusions are made and only these: (1) an expression is evaluated to an *owned* value
(`eval_expression` followed by the `hawk_rtx_refupval` every consumer performs first) so that no
live cell with count 0 exists between actions; (2) `hawk_rtx_refdownval_nofree` at the end of
`hawk_rtx_evalcall` and the `hawk_rtx_refupval` its caller performs next are one ownership
transfer of the frame's reference on the return value to the result.  A `refdown`/`refup` of a
freed cell sets `Heap.fault` (double free / use after free).

Three deviations that no API caller can observe make the invariants hold for *every* abstract
program, not only for the ones the parser can produce: a variable reference that does not
designate a value slot of the stack is ignored (`isVal`; the parser resolves names to in-range
slots), slots that are dead after `hawk_rtx_evalcall` released them (arguments, the return-value
slot) are cleared instead of keeping the stale pointer above the restored `stack_top`, and the
nargs slot of the prologue is a bookkeeping slot from the start (the C pushes a nil there that is
never read as a value).

Model follows /repo as of its `fix:` commits f933b14 (`push_arg_from_vals` pushes values, not
references into the caller's array) and 0cb73a1 (`$0` keeps the last record in END).  Calls made
from a script copy by-reference parameters back to the caller's variable (`copyBack`).  hawk_openstd
enables FLEXMAP, so no assignment is rejected for its type.  Core Lean only.
-/
namespace Hawk.Ctx

/-! ## values and the reference-counted heap -/



inductive Val where
  | nil
  | int (n : Int)
  | zls                  -- the statically allocated empty string (`hawk_val_zls`): not reference counted
  | ref (id : Nat)
  deriving DecidableEq, Repr, Inhabited

inductive Data where
  | str (s : String)
  | map (kv : List (String × String))
  deriving DecidableEq, Repr

structure Cell where
  rc : Nat
  data : Data
  deriving DecidableEq, Repr

structure Heap where
  cells : Nat → Option Cell := fun _ => none
  next : Nat := 0
  fault : Bool := false

namespace Heap

def upd (h : Heap) (id : Nat) (c : Option Cell) : Heap :=
  { h with cells := fun i => if i = id then c else h.cells i }

/-- allocate a value that is already owned once (make + refup) -/
def alloc (h : Heap) (d : Data) : Heap × Val :=
  ({ (h.upd h.next (some ⟨1, d⟩)) with next := h.next + 1 }, .ref h.next)

/-- `hawk_rtx_refupval` -/
def refup (h : Heap) : Val → Heap
  | .ref id =>
    match h.cells id with
    | some c => h.upd id (some { c with rc := c.rc + 1 })
    | none => { h with fault := true }
  | _ => h

/-- `hawk_rtx_refdownval`: frees the cell when the count reaches zero -/
def refdown (h : Heap) : Val → Heap
  | .ref id =>
    match h.cells id with
    | some c =>
      if c.rc = 0 then { h with fault := true }
      else if c.rc = 1 then h.upd id none
      else h.upd id (some { c with rc := c.rc - 1 })
    | none => { h with fault := true }
  | _ => h

def rcOf (h : Heap) : Val → Nat
  | .ref id => match h.cells id with | some c => c.rc | none => 0
  | _ => 0

def data? (h : Heap) : Val → Option Data
  | .ref id => (h.cells id).map (·.data)
  | _ => none

/-- string conversion (`hawk_rtx_valtostr`); FLEXMAP prints a map as `#MAP` -/
def text (h : Heap) : Val → String
  | .nil => ""
  | .zls => ""
  | .int n => toString n
  | .ref id =>
    match h.cells id with
    | some ⟨_, .str s⟩ => s
    | some ⟨_, .map _⟩ => "#MAP"
    | none => "#FREED"

/-- `length(x)` -/
def len (h : Heap) : Val → Nat
  | .ref id =>
    match h.cells id with
    | some ⟨_, .str s⟩ => s.length
    | some ⟨_, .map kv⟩ => kv.length
    | none => 0
  | v => (h.text v).length

end Heap

/-! ## abstract programs -/

inductive Expr where
  | lit (s : String)            -- `"s"`
  | glob (n : Nat)              -- `g<n>`
  | arg (n : Nat)               -- `a<n>`
  | loc (n : Nat)               -- `l<n>`
  | rec0                        -- `$0`
  | nr                          -- `NR`
  | app (e : Expr) (s : String) -- `(e "s")`
  | cat (a b : Expr)            -- `(a "-" b)`
  | mlen (n : Nat)              -- `length(a<n>)`
  deriving Repr, Inhabited

inductive Action where
  | setg (n : Nat) (e : Expr)
  | setl (n : Nat) (e : Expr)
  | seta (n : Nat) (e : Expr)
  | print (e : Expr)                       -- to the console
  | printf (k : Nat) (e : Expr)            -- `print e > (DIR "/f<k>")`
  | closef (k : Nat)                       -- `close(DIR "/f<k>")`
  | getline                                -- `getline` from the console
  | fail                                   -- a statement that fails at run time (division by zero)
  | exit (e : Option Expr)
  | ret (e : Option Expr)
  | call (dst : Nat) (site : Nat) (args : List Expr)   -- `l<dst> = f(args)`, f = siteName site
  | mapset (n : Nat) (key : String) (e : Expr)         -- `a<n>["key"] = (e "")`
  deriving Repr, Inhabited

structure Fun where
  name : String
  spec : List Bool          -- one flag per parameter: declared by-reference (`&a<i>`)
  nlcls : Nat
  body : List Action
  deriving Repr, Inhabited

def Fun.nargs (f : Fun) : Nat := f.spec.length

structure Block where
  nlcls : Nat
  body : List Action
  deriving Repr, Inhabited

structure Prog where
  ng : Nat := 0                 -- user globals g0..g(ng-1) visible to the model
  hidden : Nat := 0             -- further declared globals (DIR, ZZ of the rendered program)
  funs : List Fun := []
  begin_ : Option Block := none
  end_ : Option Block := none
  siteName : Nat → String := fun _ => ""

/-- number of intrinsic global variables (`hawk->tree.ngbls_base`) -/
def builtinGbls : Nat := 22
/-- `HAWK_MIN_RTX_STACK_LIMIT`, which the harness configures -/
def stackLimit : Nat := 512

/-- slots below the model's stack: intrinsic globals and the hidden ones -/
def Prog.offset (p : Prog) : Nat := builtinGbls + p.hidden

/-- `hawk_htb_search(tree.funs, name)`: the function table is fixed by the program -/
def Prog.lookup (p : Prog) (name : String) : Option Nat :=
  let i := p.funs.findIdx (·.name == name)
  if i < p.funs.length then some i else none

/-! ## error numbers and exit levels (numeric values are not needed, only identity) -/

inductive Err where
  | enoerr | eperm | estack | edivby0 | eargtm | efunnf | eionmnf | enotref | enonscatopos | enoent
  deriving DecidableEq, Repr, Inhabited

def xlNone : Nat := 0
def xlFunction : Nat := 3
def xlGlobal : Nat := 5
def xlAbort : Nat := 6

/-! ## the shared call-site cache -/

abbrev Cache := Nat → Option Nat

def Cache.empty : Cache := fun _ => none
def Cache.set (k : Cache) (site fid : Nat) : Cache := fun s => if s = site then some fid else k s

/-- `eval_fncall_fun`: use `call->u.fun.fun` when set, else search the table and cache the hit -/
def resolve (p : Prog) (k : Cache) (site : Nat) : Cache × Option Nat :=
  match k site with
  | some fid => (k, some fid)
  | none =>
    match p.lookup (p.siteName site) with
    | some fid => (k.set site fid, some fid)
    | none => (k, none)

/-! ## per-context state -/

inductive Slot where
  | raw (n : Nat)
  | val (v : Val)
  deriving DecidableEq, Repr, Inhabited

def Slot.toVal : Slot → Val
  | .val v => v
  | .raw _ => .nil

def Slot.toNat : Slot → Nat
  | .raw n => n
  | .val _ => 0

def maxHandles : Nat := 8

structure Ctx where
  heap : Heap := {}
  ng : Nat := 0
  offset : Nat := builtinGbls
  stack : List Slot := []
  base : Nat := 0
  exitLevel : Nat := 0
  err : Err := .enoerr
  rio : List Nat := []
  files : Nat → Option (List String) := fun _ => none
  console : List String := []
  input : List String := []
  rec0 : Val := .nil
  nr : Nat := 0
  handles : List Val := List.replicate maxHandles .nil
  tmps : List Val := []

namespace Ctx

def slot (c : Ctx) (i : Nat) : Val := (c.stack.getD i (.val .nil)).toVal
def rawAt (c : Ctx) (i : Nat) : Nat := (c.stack.getD i (.raw 0)).toNat
/-- the index designates a value slot of the stack (the parser only produces such references;
    a reference outside the stack or to a frame's bookkeeping slot is ignored by the model) -/
def isVal (c : Ctx) (i : Nat) : Bool :=
  match c.stack[i]? with
  | some (.val _) => true
  | _ => false
def setSlot (c : Ctx) (i : Nat) (v : Val) : Ctx :=
  if c.isVal i then { c with stack := c.stack.set i (.val v) } else c
/-- overwrite a bookkeeping slot (never a value slot) -/
def setRaw (c : Ctx) (i : Nat) (n : Nat) : Ctx :=
  match c.stack[i]? with
  | some (.raw _) => { c with stack := c.stack.set i (.raw n) }
  | _ => c
def push (c : Ctx) (s : Slot) : Ctx := { c with stack := c.stack ++ [s] }

/-- `HAWK_RTX_STACK_NARGS` -/
def nargs (c : Ctx) : Nat := c.rawAt (c.base + 3)
/-- `HAWK_RTX_STACK_ARG(i)` -/
def argIdx (c : Ctx) (i : Nat) : Nat := c.base + 4 + i
/-- `HAWK_RTX_STACK_LCL(j)` -/
def lclIdx (c : Ctx) (j : Nat) : Nat := c.base + 4 + c.nargs + j
/-- `HAWK_RTX_STACK_RETVAL` -/
def retIdx (c : Ctx) : Nat := c.base + 2
/-- `HAWK_RTX_STACK_RETVAL_GBL`: the return-value slot of the frame right above the globals -/
def retGblIdx (c : Ctx) : Nat := c.ng + 2
/-- `HAWK_RTX_STACK_AVAIL` -/
def avail (c : Ctx) : Nat := stackLimit - (c.offset + c.stack.length)

def refup (c : Ctx) (v : Val) : Ctx := { c with heap := c.heap.refup v }
def refdown (c : Ctx) (v : Val) : Ctx := { c with heap := c.heap.refdown v }
def alloc (c : Ctx) (d : Data) : Ctx × Val :=
  let (h, v) := c.heap.alloc d
  ({ c with heap := h }, v)
def setErr (c : Ctx) (e : Err) : Ctx := { c with err := e }

/-- `do_assignment_nonindexed` for a local or a parameter, and the tail of `set_global`:
    `refdown(old); slot = val; refup(val)` -/
def assign (c : Ctx) (i : Nat) (v : Val) : Ctx :=
  if c.isVal i then ((c.refdown (c.slot i)).setSlot i v).refup v else c

/-- `set_global`: nothing happens when the old and the new value are the same object -/
def assignGbl (c : Ctx) (i : Nat) (v : Val) : Ctx :=
  if c.slot i = v then c else c.assign i v

/-- store an owned value into a slot that gives up its old value (`run_return`, `run_exit`) -/
def replaceOwned (c : Ctx) (i : Nat) (v : Val) : Ctx :=
  if c.isVal i then (c.refdown (c.slot i)).setSlot i v else c.refdown v

end Ctx

/-! ## expressions -/

/-- string value of an expression in the current frame -/
def textOf (c : Ctx) : Expr → String
  | .lit s => s
  | .glob n => c.heap.text (c.slot n)
  | .arg n => c.heap.text (c.slot (c.argIdx n))
  | .loc n => c.heap.text (c.slot (c.lclIdx n))
  | .rec0 => c.heap.text c.rec0
  | .nr => toString c.nr
  | .app e s => textOf c e ++ s
  | .cat a b => textOf c a ++ "-" ++ textOf c b
  | .mlen n => toString (c.heap.len (c.slot (c.argIdx n)))

/-- evaluate to an owned value: variables yield the object they hold (reference added),
    computed strings are fresh objects, numbers are not reference counted -/
def evalOwned (c : Ctx) : Expr → Ctx × Val
  | .glob n => let v := c.slot n; (c.refup v, v)
  | .arg n => let v := c.slot (c.argIdx n); (c.refup v, v)
  | .loc n => let v := c.slot (c.lclIdx n); (c.refup v, v)
  | .rec0 => (c.refup c.rec0, c.rec0)
  | .nr => (c, .int c.nr)
  | .mlen n => (c, .int (c.heap.len (c.slot (c.argIdx n))))
  | e => c.alloc (.str (textOf c e))

/-! ## actions that do not call -/

/-- the map cell a value designates, if any -/
def mapCellOf (c : Ctx) : Val → Option (Nat × Nat × List (String × String))
  | .ref id =>
    match c.heap.cells id with
    | some ⟨rc, .map kv⟩ => some (id, rc, kv)
    | _ => none
  | _ => none

def mapUpsert (kv : List (String × String)) (k v : String) : List (String × String) :=
  if kv.any (·.1 == k) then kv.map (fun p => if p.1 == k then (k, v) else p) else kv ++ [(k, v)]

/-- `eval_assignment`: evaluate (owned), assign, drop the evaluation's reference -/
def doAssign (c : Ctx) (i : Nat) (e : Expr) (gbl : Bool) : Ctx :=
  let (c1, v) := evalOwned c e
  let c2 := if gbl then c1.assignGbl i v else c1.assign i v
  c2.refdown v

/-- one statement other than a call: `(true, c')` = completed, `(false, c')` = failed (-1) -/
def stepSimple (c : Ctx) : Action → Bool × Ctx
  | .setg n e => (true, doAssign c n e true)
  | .setl n e => (true, doAssign c (c.lclIdx n) e false)
  | .seta n e => (true, doAssign c (c.argIdx n) e false)
  | .print e =>
    let (c1, v) := evalOwned c e
    (true, { c1 with console := c1.console ++ [c1.heap.text v] }.refdown v)
  | .printf k e =>
    let (c1, v) := evalOwned c e
    -- opening the stream looks its name up in the context's I/O attribute table (std.c get_ioattr); the miss
    -- leaves HAWK_ENOENT in the context's sticky error number (the table belongs to the context since 0a2fd78)
    let c2 : Ctx := if c1.rio.contains k then c1
      else { c1 with rio := k :: c1.rio, files := fun j => if j = k then some [] else c1.files j, err := .enoent }
    let line := c2.heap.text v
    let c3 : Ctx := { c2 with files := fun j => if j = k then some ((c2.files k).getD [] ++ [line]) else c2.files j }
    (true, c3.refdown v)
  | .closef k =>
    if c.rio.contains k then (true, { c with rio := c.rio.erase k })
    else (true, c.setErr .eionmnf)
  | .getline =>
    match c.input with
    | [] => (true, c)
    | r :: rest =>
      let c1 := c.refdown c.rec0
      let (c2, v) := c1.alloc (.str r)
      (true, { c2 with rec0 := v, nr := c2.nr + 1, input := rest })
  | .fail => (false, c.setErr .edivby0)
  | .exit none => (true, { c with exitLevel := xlGlobal })
  | .exit (some e) =>
    let (c1, v) := evalOwned c e
    (true, { (c1.replaceOwned c1.retGblIdx v) with exitLevel := xlGlobal })
  | .ret none => (true, { c with exitLevel := xlFunction })
  | .ret (some e) =>
    let (c1, v) := evalOwned c e
    (true, { (c1.replaceOwned c1.retIdx v) with exitLevel := xlFunction })
  | .mapset n key e =>
    let i := c.argIdx n
    let txt := textOf c e
    match mapCellOf c (c.slot i) with
    | some (id, rc, kv) => (true, { c with heap := c.heap.upd id (some ⟨rc, .map (mapUpsert kv key txt)⟩) })
    | none =>
      -- FLEXMAP: anything that is not a map is replaced by a new map
      if c.isVal i then
        let (c1, m) := (c.refdown (c.slot i)).alloc (.map [(key, txt)])
        (true, c1.setSlot i m)
      else (true, c)
  | .call _ _ _ => (true, c)   -- handled by `runBody`

/-! ## frames (`hawk_rtx_evalcall`) -/

/-- push the frame prologue: previous base, previous top, return value (nil), and the slot that
    will hold nargs (the C pushes a nil there which is never read as a value) -/
def pushPrologue (c : Ctx) : Ctx :=
  (((c.push (.raw c.base)).push (.raw c.stack.length)).push (.val .nil)).push (.raw 0)

/-- `push_arg_from_nde` for a user function: evaluate each argument in the caller's frame, push, refup -/
def pushArgsFromExprs (c : Ctx) : List Expr → Ctx
  | [] => c
  | e :: es =>
    let (c1, v) := evalOwned c e
    pushArgsFromExprs (c1.push (.val v)) es

/-- `push_arg_from_vals` (patched): push each value, refup -/
def pushArgsFromVals (c : Ctx) : List Val → Ctx
  | [] => c
  | v :: vs => pushArgsFromVals ((c.push (.val v)).refup v) vs

def pushNils (c : Ctx) : Nat → Ctx
  | 0 => c
  | n + 1 => pushNils (c.push (.val .nil)) n

/-- enter the frame whose prologue starts at `savedTop` with `n` argument slots -/
def enterFrame (c : Ctx) (savedTop n : Nat) : Ctx :=
  ({ c with base := savedTop }).setRaw (savedTop + 3) n

/-- refdown the topmost `n` value slots and pop them (locals at block exit) -/
def popVals (c : Ctx) : Nat → Ctx
  | 0 => c
  | n + 1 =>
    let i := c.stack.length - 1
    popVals ({ (c.refdown (c.slot i)) with stack := c.stack.take i }) n

/-- refdown the argument slots of the current frame; the C leaves the dead pointers in the
    slots (they are above the restored stack top), the model clears them -/
def refdownArgs (c : Ctx) (nargs : Nat) : Nat → Ctx
  | 0 => c
  | k + 1 =>
    let i := c.argIdx (nargs - (k + 1))
    refdownArgs ((c.refdown (c.slot i)).setSlot i .nil) nargs k

/-- leave the current frame: `stack_top = stack[base+1]; stack_base = stack[base+0]`,
    and `EXIT_FUNCTION` is consumed -/
def popFrame (c : Ctx) : Ctx :=
  let top := c.rawAt (c.base + 1)
  let b := c.rawAt (c.base + 0)
  { c with stack := c.stack.take top, base := b,
           exitLevel := if c.exitLevel = xlFunction then xlNone else c.exitLevel }

/-- the part of `hawk_rtx_evalcall` after the body has run with result `ok`:
    returns the context, the result (none = HAWK_NULL) and the value captured by
    `capture_retval_on_exit` (only when `api`). -/
def leaveFrame (c : Ctx) (ok : Bool) (api : Bool) : Ctx × Option Val × Option Val :=
  let n := c.nargs
  let c1 := refdownArgs c n n
  let v := c1.slot c1.retIdx
  if ok then
    -- refdown_nofree + the caller's refup: the slot's reference becomes the result's
    (popFrame (c1.setSlot c1.retIdx .nil), some v, none)
  else
    let (c2, cap) :=
      if api ∧ c1.err = .enoerr then (c1.refup v, some v) else (c1, none)
    let c3 := (c2.refdown v).setSlot c2.retIdx .nil
    (popFrame c3, none, cap)

/-! ## running a body -/

def Prog.funOf (p : Prog) (fid? : Option Nat) : Option Fun := fid?.bind (p.funs[·]?)

/-- stack slots a call needs: prologue + max(actual, formal) arguments -/
def stackReq (f : Fun) (nactual : Nat) : Nat := 4 + max nactual f.nargs

/-- the frame set-up of `hawk_rtx_evalcall` for an awk-level call -/
def enterCall (c : Ctx) (f : Fun) (args : List Expr) : Ctx :=
  let c1 := pushArgsFromExprs (pushPrologue c) args
  enterFrame (pushNils c1 (f.nargs - args.length)) c.stack.length f.nargs

/-- `hawk_rtx_setrec(rtx, 0, str)`: `$0` is replaced by a new string value (the static empty
    string when the text is empty) -/
def setRec0 (c : Ctx) (txt : String) : Ctx :=
  let c1 := c.refdown c.rec0
  if txt.isEmpty then { c1 with rec0 := .zls }
  else
    let (c2, v) := c1.alloc (.str txt)
    { c2 with rec0 := v }

/-- copy the final value `av` of a by-reference parameter back to the variable the caller passed
    (`get_reference` evaluated against the previous stack base + `hawk_rtx_setrefval`), executed
    while the callee's frame is still current.  `(false, _)`: the copy was rejected (n = -1). -/
def copyBackOne (c : Ctx) (e : Expr) (av : Val) : Bool × Ctx :=
  let pb := c.rawAt c.base
  match e with
  | .glob g => (true, c.assignGbl g av)                            -- HAWK_VAL_REF_GBL: hawk_rtx_setgbl
  | .arg j => (true, c.assignGbl (pb + 4 + j) av)                  -- `if (*rref != val) { refdown; store; refup }`
  | .loc j => (true, c.assignGbl (pb + 4 + c.rawAt (pb + 3) + j) av)
  | .rec0 =>
    -- HAWK_NDE_POS: the position expression is evaluated first; after `exit` that evaluation
    -- is abandoned with the error number cleared and nothing is copied
    if xlGlobal ≤ c.exitLevel then (true, c.setErr .enoerr)
    else if c.rec0 = av then (true, c)     -- the parameter still holds the very value of `$0`: no write-back (2aed04c)
    else
      match c.heap.data? av with
      | some (.map _) => (false, c.setErr .enonscatopos)           -- a map cannot go into a positional
      | _ => (true, setRec0 c (c.heap.text av))
  | .nr => (true, c)                                               -- not generated (special global)
  | _ => (true, c.setErr .enotref)                                 -- not referenceable: nothing copied, error number left behind

/-- the copy-back loop of `hawk_rtx_evalcall` over the actual arguments; stops copying at the first rejection -/
def copyBack (c : Ctx) : List Bool → List Expr → Nat → Bool × Ctx
  | b :: bs, e :: es, i =>
    if b then
      match copyBackOne c e (c.slot (c.argIdx i)) with
      | (true, c1) => copyBack c1 bs es (i + 1)
      | (false, c1) => (false, c1)
    else copyBack c bs es (i + 1)
  | _, _, _ => (true, c)

/-- what follows the body of an awk-level call: pop the locals (`nl` of them were pushed), copy the
    by-reference parameters back when the body completed, leave the frame, then
    `eval_expression0`'s exit check and the assignment `l<dst> = result`.
    `(false, c')`: the calling statement failed. -/
def afterCall (c3 : Ctx) (ok : Bool) (nl : Nat) (dst : Nat) (spec : List Bool) (args : List Expr) : Bool × Ctx :=
  let (ok1, c3a) := if ok then copyBack (popVals c3 nl) spec args 0 else (false, popVals c3 nl)
  let (c4, r, _) := leaveFrame c3a ok1 false
  match r with
  | none => (false, c4)
  | some v =>
    if xlGlobal ≤ c4.exitLevel then
      -- the value is dropped, the error number cleared, HAWK_NULL returned
      (false, (c4.refdown v).setErr .enoerr)
    else
      (true, (c4.assign (c4.lclIdx dst) v).refdown v)

/-- `run_block0` + `eval_fncall_fun` + `hawk_rtx_evalcall`, as one recursive function.
    `avail` is the free stack space (`HAWK_RTX_STACK_AVAIL`); it is what bounds the recursion
    in the C code too (HAWK_ESTACK), and `Props/C09` proves it always equals `Ctx.avail`.
    Returns (completed?, context, cache). -/
def runBody (p : Prog) (avail : Nat) (c : Ctx) (k : Cache) : List Action → Bool × Ctx × Cache
  | [] => (true, c, k)
  | a :: rest =>
    if c.exitLevel ≠ xlNone then (true, c, k)   -- `while (p && rtx->exit_level == EXIT_NONE)`
    else
      match a with
      | .call dst site args =>
        let (k1, fid?) := resolve p k site
        match p.funOf fid? with
        | none => (false, c.setErr .efunnf, k1)
        | some f =>
          if f.nargs < args.length then (false, c.setErr .eargtm, k1)
          else if _h : avail < stackReq f args.length then (false, c.setErr .estack, k1)
          else
            let c2 := enterCall c f args
            -- run_block0: room for the locals?
            if 0 < f.nlcls ∧ avail - stackReq f args.length < f.nlcls then
              match afterCall (c2.setErr .estack) false 0 dst f.spec args with
              | (false, c4) => (false, c4, k1)
              | (true, c5) => runBody p avail c5 k1 rest
            else
              let (ok, c3, k2) := runBody p (avail - stackReq f args.length - f.nlcls) (pushNils c2 f.nlcls) k1 f.body
              match afterCall c3 ok f.nlcls dst f.spec args with
              | (false, c4) => (false, c4, k2)
              | (true, c5) => runBody p avail c5 k2 rest
      | a =>
        match stepSimple c a with
        | (true, c1) => runBody p avail c1 k rest
        | (false, c1) => (false, c1, k)
termination_by body => (avail, body.length)
decreasing_by
  all_goals simp_wf
  · apply Prod.Lex.right; simp
  · apply Prod.Lex.left; unfold stackReq at *; omega
  · apply Prod.Lex.right; simp
  · apply Prod.Lex.right; simp

/-- `run_block` for a block with `nl` locals in the current frame -/
def runBlock (p : Prog) (c : Ctx) (k : Cache) (nl : Nat) (body : List Action) : Bool × Ctx × Cache :=
  if 0 < nl ∧ c.avail < nl then (false, c.setErr .estack, k)
  else
    let (ok, c1, k1) := runBody p (c.avail - nl) (pushNils c nl) k body
    (ok, popVals c1 nl, k1)

/-! ## API operations on one context -/

/-- `hawk_rtx_callfun` (after `find_fun`): result value (none = HAWK_NULL) -/
def callFun (p : Prog) (c : Ctx) (k : Cache) (f : Fun) (args : List Val) : Ctx × Cache × Option Val :=
  if xlGlobal ≤ c.exitLevel then (c.setErr .eperm, k, none)
  else if f.nargs < args.length then (c.setErr .eargtm, k, none)
  else
    if c.avail < stackReq f args.length then (c.setErr .estack, k, none)
    else
      let savedTop := c.stack.length
      let c1 := pushArgsFromVals (pushPrologue c) args
      let c2 := enterFrame (pushNils c1 (f.nargs - args.length)) savedTop f.nargs
      let (ok, c3, k1) := runBlock p c2 k f.nlcls f.body
      let (c4, r, cap) := leaveFrame c3 ok true
      match r with
      | some v => (c4, k1, some v)
      | none => (c4, k1, cap)

/-- `hawk_rtx_callwithbcstr`: find the function by name first -/
def callByName (p : Prog) (c : Ctx) (k : Cache) (name : String) (args : List Val) : Ctx × Cache × Option Val :=
  match (p.lookup name).bind (p.funs[·]?) with
  | none => (c.setErr .efunnf, k, none)
  | some f => callFun p c k f args

/-- `run_pblocks` without pattern-action blocks: read records until the end of input.  Each
    record read replaces `$0` (the intermediate ones are made and released again); the read that
    hits the end of input leaves the record alone, so `$0` keeps the last record in the END block
    (commit 0cb73a1).  The exit level is reset at the head of every iteration. -/
def consumeInput (c : Ctx) : Ctx :=
  match c.input.getLast? with
  | none => { c with exitLevel := xlNone }
  | some r =>
    let c1 := c.refdown c.rec0
    let (c2, v) := c1.alloc (.str r)
    { c2 with rec0 := v, nr := c2.nr + c.input.length, input := [], exitLevel := xlNone }

/-- the BEGIN block of `run_bpae_loop` -/
def runBegin (p : Prog) (c1 : Ctx) (k : Cache) : Bool × Ctx × Cache :=
  match p.begin_ with
  | some b =>
    if c1.exitLevel < xlGlobal then runBlock p { c1 with exitLevel := xlNone } k b.nlcls b.body
    else (true, c1, k)
  | none => (true, c1, k)

/-- the END block of `run_bpae_loop`: runs unless the run failed or was aborted -/
def runEnd (p : Prog) (ok1 : Bool) (c3 : Ctx) (k1 : Cache) : Bool × Ctx × Cache :=
  match p.end_ with
  | some b =>
    if ok1 ∧ c3.exitLevel < xlAbort then runBlock p { c3 with exitLevel := xlNone } k1 b.nlcls b.body
    else (ok1, c3, k1)
  | none => (ok1, c3, k1)

/-- the end of `hawk_rtx_loop`: the global return value goes to the caller (or is released on
    failure), the frame is left, the exit level reset -/
def finishLoop (c4 : Ctx) (ok2 : Bool) : Ctx × Option Val :=
  let v := c4.slot c4.retIdx
  let (c5, r) :=
    if ok2 then (c4.setSlot c4.retIdx .nil, some v)
    else ((c4.refdown v).setSlot c4.retIdx .nil, none)
  ({ (popFrame c5) with exitLevel := xlNone }, r)

/-- `hawk_rtx_loop` -/
def loop (p : Prog) (c0 : Ctx) (k : Cache) : Ctx × Cache × Option Val :=
  let c : Ctx := { c0 with exitLevel := xlNone }
  if c.avail < 4 then (c.setErr .estack, k, none)
  else
    let c1 := enterFrame (pushPrologue c) c.stack.length 0
    -- BEGIN; a failure with no error number is the unwinding of `exit`
    let (ok1, c2, k1) := runBegin p c1 k
    let ok1 := ok1 || c2.err == .enoerr
    -- pattern-action blocks: none in the model, but the input is read when there is an END block
    let c3 := if ok1 ∧ p.end_.isSome ∧ c2.exitLevel < xlGlobal then consumeInput c2 else c2
    let (ok2, c4, k2) := runEnd p ok1 c3 k1
    let ok2 := ok2 || c4.err == .enoerr
    let (c5, r) := finishLoop c4 ok2
    (c5, k2, r)

/-! ## arguments supplied by the embedding application -/

inductive Arg where
  | nil
  | tmp (s : String)     -- a string made for this call and dropped after it
  | hnd (k : Nat)        -- a value the application holds in handle `k`
  deriving Repr, Inhabited, DecidableEq

/-- build the argument array: temporaries are created owned and remembered in `tmps` -/
def mkArgs (c : Ctx) : List Arg → Ctx × List Val
  | [] => (c, [])
  | .nil :: as => let (c1, vs) := mkArgs c as; (c1, .nil :: vs)
  | .hnd k :: as => let v := c.handles.getD k .nil; let (c1, vs) := mkArgs c as; (c1, v :: vs)
  | .tmp s :: as =>
    let (c0, v) := c.alloc (.str s)
    let (c1, vs) := mkArgs { c0 with tmps := v :: c0.tmps } as
    (c1, v :: vs)

/-- drop the call temporaries -/
def dropTmps (c : Ctx) : List Val → Ctx
  | [] => { c with tmps := [] }
  | v :: vs => dropTmps (c.refdown v) vs

/-! ## observations -/

def showVal (h : Heap) : Val → String
  | .nil => "nil"
  | .zls => "s:"
  | .int n => "i:" ++ toString n
  | .ref id =>
    match h.cells id with
    | some ⟨_, .str s⟩ => "s:" ++ s
    | some ⟨_, .map kv⟩ =>
      "m:" ++ ",".intercalate ((kv.map fun p => p.1 ++ "=" ++ p.2).toArray.qsort (· < ·)).toList
    | none => "FREED"

/-- everything the harness prints after an operation on a context -/
structure Obs where
  tag : String := ""
  ret : String := ""
  rc : Nat := 0
  args : List (String × Nat) := []
  err : Err := .enoerr
  xl : Nat := 0
  top : Nat := 0
  base : Nat := 0
  rio : List Nat := []
  nr : Nat := 0
  con : List String := []
  f0 : Option (List String) := none
  f1 : Option (List String) := none
  fault : Bool := false
  failed : Bool := false     -- the API function returned HAWK_NULL
  deriving DecidableEq, Repr, Inhabited

/-- internal state that every observation carries -/
def Ctx.snap (c : Ctx) (o : Obs) : Obs :=
  { o with err := c.err, xl := c.exitLevel, top := c.stack.length - c.ng, base := c.base, rio := c.rio,
           nr := c.nr, fault := c.heap.fault }

def Ctx.snapIO (c : Ctx) (conBefore : Nat) (o : Obs) : Obs :=
  { c.snap o with con := c.console.drop conBefore, f0 := c.files 0, f1 := c.files 1 }

/-! ## operations -/

inductive Op where
  | call (fname : String) (args : List Arg)
  | calls (fname : String) (texts : List String)   -- `hawk_rtx_callwith*strarr`: the API makes the argument values
  | loop
  | exec
  | setgbl (n : Nat) (a : Arg)
  | getgbl (n : Nat)
  | halt
  | mkstr (k : Nat) (s : String)
  | mkmap (k : Nat)
  | drop (k : Nat)
  | showh (k : Nat)
  deriving Repr, Inhabited

/-- a fresh context (`hawk_rtx_open` + the standard console of `hawk_rtx_openstd`);
    context `cid` reads the records `c<cid>r1 .. c<cid>r3` -/
def Ctx.fresh (p : Prog) (cid : Nat) : Ctx :=
  { ng := p.ng, offset := p.offset, stack := List.replicate p.ng (.val .nil),
    input := [1, 2, 3].map fun j => "c" ++ toString cid ++ "r" ++ toString j }

def setHandle (c : Ctx) (k : Nat) (v : Val) : Ctx :=
  { (c.refdown (c.handles.getD k .nil)) with handles := c.handles.set k v }

/-- one API operation on an open context -/
def stepCtx (p : Prog) (k : Cache) (c : Ctx) : Op → Ctx × Cache × Obs
  | .call fname args =>
    let n0 := c.console.length
    let (c1, vs) := mkArgs c args
    let (c2, k1, r) := callByName p c1 k fname vs
    let o : Obs := { tag := "call", failed := r.isNone,
                     ret := match r with | some v => showVal c2.heap v | none => "NULL",
                     rc := match r with | some v => c2.heap.rcOf v | none => 0,
                     args := vs.map fun v => (showVal c2.heap v, c2.heap.rcOf v) }
    -- the caller drops the result once, then its temporaries
    let c3 := match r with | some v => c2.refdown v | none => c2
    let c4 := dropTmps c3 c3.tmps
    (c4, k1, c4.snapIO n0 o)
  | .calls fname texts =>
    -- `hawk_rtx_callwithbcstrarr` and its three siblings: string values are made for the call (referenced
    -- once each) and released by the API itself before it returns; the caller only gets the result
    let n0 := c.console.length
    let (c1, vs) := mkArgs c (texts.map Arg.tmp)
    let (c2, k1, r) := callByName p c1 k fname vs
    let c2a := dropTmps c2 c2.tmps
    let o : Obs := { tag := "calls", failed := r.isNone,
                     ret := match r with | some v => showVal c2a.heap v | none => "NULL",
                     rc := match r with | some v => c2a.heap.rcOf v | none => 0 }
    let c3 := match r with | some v => c2a.refdown v | none => c2a
    (c3, k1, c3.snapIO n0 o)
  | .loop =>
    let n0 := c.console.length
    let (c2, k1, r) := loop p c k
    let o : Obs := { tag := "loop", failed := r.isNone,
                     ret := match r with | some v => showVal c2.heap v | none => "NULL",
                     rc := match r with | some v => c2.heap.rcOf v | none => 0 }
    let c3 := match r with | some v => c2.refdown v | none => c2
    (c3, k1, c3.snapIO n0 o)
  | .exec =>
    let n0 := c.console.length
    let (c2, k1, r) := loop p c k
    let o : Obs := { tag := "exec", failed := r.isNone,
                     ret := match r with | some v => showVal c2.heap v | none => "NULL",
                     rc := match r with | some v => c2.heap.rcOf v | none => 0 }
    let c3 := match r with | some v => c2.refdown v | none => c2
    (c3, k1, c3.snapIO n0 o)
  | .setgbl n a =>
    if c.ng ≤ n then (c, k, { tag := "setgbl-nogbl" })
    else
      let (c1, vs) := mkArgs c [a]
      let v := vs.headD .nil
      let c2 := c1.assignGbl n v
      let c3 := dropTmps c2 c2.tmps
      let g := c3.slot n
      (c3, k, c3.snap { tag := "setgbl", args := [(showVal c3.heap g, c3.heap.rcOf g)] })
  | .getgbl n =>
    if c.ng ≤ n then (c, k, { tag := "getgbl-nogbl" })
    else
      let g := c.slot n
      (c, k, c.snap { tag := "getgbl", args := [(showVal c.heap g, c.heap.rcOf g)] })
  | .halt =>
    let c1 : Ctx := { c with exitLevel := xlAbort }
    (c1, k, c1.snap { tag := "halt" })
  | .mkstr h s =>
    if maxHandles ≤ h then (c, k, { tag := "bad-op" })
    else
      let (c1, v) := c.alloc (.str s)
      (setHandle c1 h v, k, { tag := "mkstr" })
  | .mkmap h =>
    if maxHandles ≤ h then (c, k, { tag := "bad-op" })
    else
      let (c1, v) := c.alloc (.map [])
      (setHandle c1 h v, k, { tag := "mkmap" })
  | .drop h =>
    if maxHandles ≤ h then (c, k, { tag := "bad-op" })
    else (setHandle c h .nil, k, { tag := "drop" })
  | .showh h =>
    if maxHandles ≤ h then (c, k, { tag := "bad-op" })
    else
      let v := c.handles.getD h .nil
      (c, k, if v = .nil then { tag := "show-none" }
             else { tag := "show", args := [(showVal c.heap v, c.heap.rcOf v)] })

/-- refdown every value of a list -/
def dropVals (c : Ctx) : List Val → Ctx
  | [] => c
  | v :: vs => dropVals (c.refdown v) vs

/-- `hawk_rtx_close` preceded by the application dropping what it still holds: every reference
    the context has is released (`refdown_globals(rtx, 1)` pops the globals, `hawk_rtx_clrrec`) -/
def releaseAll (c : Ctx) : Ctx :=
  let c1 := dropVals { c with handles := [] } c.handles
  let c2 := popVals c1 c1.stack.length
  { (c2.refdown c2.rec0) with rec0 := .nil }

/-! ## the interpreter and its contexts -/

structure Interp where
  prog : Prog := {}
  cache : Cache := Cache.empty

/-- `hawk_clear`: the parse tree (and with it every call node and its cached pointer), the function
    table and the user globals are gone -/
def Interp.clear (_ : Interp) : Interp := {}

/-- `hawk_parse`: clears first, then installs the new tree; call nodes start with an empty cache -/
def Interp.parse (i : Interp) (p : Prog) : Interp := { i.clear with prog := p }

structure World where
  interp : Interp := {}
  ctxs : Nat → Option Ctx := fun _ => none

inductive WOp where
  | open (cid : Nat)
  | close (cid : Nat)
  | op (cid : Nat) (o : Op)
  deriving Repr, Inhabited

def World.setCtx (w : World) (cid : Nat) (c : Option Ctx) : World :=
  { w with ctxs := fun i => if i = cid then c else w.ctxs i }

/-- one API call on the world; the observation is tagged with the context it belongs to -/
def World.step (w : World) : WOp → World × Nat × Obs
  | .open cid =>
    match w.ctxs cid with
    | some _ => (w, cid, { tag := "open-already" })
    | none =>
      let c := Ctx.fresh w.interp.prog cid
      (w.setCtx cid (some c), cid, c.snap { tag := "open" })
  | .close cid =>
    match w.ctxs cid with
    | none => (w, cid, { tag := "closed" })
    | some c =>
      let c1 := releaseAll c
      (w.setCtx cid none, cid, { tag := "close", fault := c1.heap.fault })
  | .op cid o =>
    match w.ctxs cid with
    | none => (w, cid, { tag := "closed" })
    | some c =>
      let (c1, k1, ob) := stepCtx w.interp.prog w.interp.cache c o
      ({ (w.setCtx cid (some c1)) with interp := { w.interp with cache := k1 } }, cid, ob)

/-- run a history, collecting the observations -/
def World.run (w : World) : List WOp → World × List (Nat × Obs)
  | [] => (w, [])
  | o :: os =>
    let (w1, cid, ob) := w.step o
    let (w2, obs) := w1.run os
    (w2, (cid, ob) :: obs)

def WOp.cid : WOp → Nat
  | .open c => c
  | .close c => c
  | .op c _ => c

end Hawk.Ctx
