/-
  Model of lib/arr.c (hawk_arr_t): the slot table, size/tally/capa bookkeeping,
  the capacity computation of hawk_arr_insert with its retry loop, and the
  allocator as an oracle (a list of answers consumed one per allocation request).

  State: `slots` is slot[0 .. size) (cells at or beyond `size` are never read by
  the C code before being overwritten: hawk_arr_insert null-fills the gap).
  `size`, `tally`, `capa` are stored separately *as in the C struct* so that
  `size = slots.length` and `tally = #occupied` are theorems, not definitions.

  Events record the style callbacks (freeer/keeper) in call order.
-/
namespace Hawk.Arr

inductive Ev where
  | freed (v : Nat)
  | kept (v : Nat)
deriving Repr, DecidableEq

inductive Err where
  | enomem | einval | ebuffull
deriving Repr, DecidableEq

structure Arr where
  slots : List (Option Nat)
  size : Nat
  tally : Nat
  capa : Nat
deriving Repr, DecidableEq

/-- allocator oracle: answers for successive allocation requests; exhausted = success -/
abbrev Oracle := List Bool

def Oracle.next : Oracle → Bool × Oracle
  | [] => (true, [])
  | b :: r => (b, r)

def empty : Arr := { slots := [], size := 0, tally := 0, capa := 0 }

/-- HAWK_ALIGN_POW2(x, 64) -/
def align64 (x : Nat) : Nat := ((x + 63) / 64) * 64

/-- `capa = arr->capa; do { capa *= 2; } while (capa <= bound);`
    (only ever entered with arr->capa > 0; for c = 0 the C loop would not end, the
    model stops so that the function is total and `dbl_gt` needs `0 < c`.) -/
def dblLoop (c bound : Nat) : Nat :=
  if h : 2 * c ≤ bound ∧ 0 < c then dblLoop (2 * c) bound else 2 * c
termination_by bound - c
decreasing_by omega

/-- the capacity hawk_arr_insert asks for first (default sizer) -/
def wantCapa (a : Arr) (pos : Nat) : Nat :=
  if a.capa = 0 then align64 (pos + 1)
  else dblLoop a.capa (if pos ≥ a.size then pos else a.size)

def minCapa (a : Arr) (pos : Nat) : Nat :=
  if pos ≥ a.size then pos + 1 else a.size + 1

/-- largest capacity whose slot table (8-byte pointers) has a size in bytes that fits a 64-bit `hawk_oow_t`:
    `HAWK_TYPE_MAX(hawk_oow_t) / HAWK_SIZEOF(*arr->slot)`.  hawk_arr_setcapa refuses anything larger without asking
    the allocator; hawk_arr_insert refuses a position at or beyond it before computing a capacity. -/
def maxCapa : Nat := (2 ^ 64 - 1) / 8

/-- the allocation request inside hawk_arr_setcapa(capa), capa > 0: refused outright when the byte size would wrap,
    otherwise the allocator (oracle) answers -/
def setcapaAsk (capa : Nat) (o : Oracle) : Bool × Oracle :=
  if capa > maxCapa then (false, o) else o.next

/-- the `do { if (setcapa(capa)) break; if (capa <= mincapa) fail; capa = mincapa + (capa - mincapa) / 2; } while (1)` loop
    (the excess over the minimum is halved on each refusal, so the number of requests is logarithmic in the gap).
    Returns the capacity obtained (none = gave up) and the remaining oracle. -/
def retryCapa (capa mincapa : Nat) (o : Oracle) : Option Nat × Oracle :=
  match setcapaAsk capa o with
  | (true, o') => (some capa, o')
  | (false, o') =>
    if h : capa ≤ mincapa then (none, o') else retryCapa (mincapa + (capa - mincapa) / 2) mincapa o'
termination_by capa - mincapa
decreasing_by omega

/-- slot table after a successful insert (gap null-filled, tail shifted) -/
def insSlots (s : List (Option Nat)) (pos : Nat) (v : Nat) : List (Option Nat) :=
  if pos ≥ s.length then s ++ List.replicate (pos - s.length) none ++ [some v]
  else s.take pos ++ [some v] ++ s.drop pos

structure Res where
  arr : Arr
  ret : Except Err Nat
  evs : List Ev
  orc : Oracle

def insert (a : Arr) (pos v : Nat) (o : Oracle) : Res :=
  -- a position no table can hold is refused before anything else
  if pos ≥ maxCapa then ⟨a, .error .einval, [], o⟩ else
  -- alloc_slot first
  match o.next with
  | (false, o1) => ⟨a, .error .enomem, [], o1⟩
  | (true, o1) =>
    let place (a' : Arr) (o' : Oracle) : Res :=
      ⟨{ a' with slots := insSlots a'.slots pos v,
                 size := if pos > a'.size then pos + 1 else a'.size + 1,
                 tally := a'.tally + 1 }, .ok pos, [], o'⟩
    if pos ≥ a.capa ∨ a.size ≥ a.capa then
      match retryCapa (wantCapa a pos) (minCapa a pos) o1 with
      | (none, o2) => ⟨a, .error .enomem, [], o2⟩   -- the caller keeps the data on failure (SIMPLE copier)
      | (some c, o2) =>
        let a' := { a with capa := c }
        if pos ≥ a'.capa ∨ a'.size ≥ a'.capa then ⟨a', .error .ebuffull, [], o2⟩
        else place a' o2
    else place a o1

def update (a : Arr) (pos v : Nat) (o : Oracle) : Res :=
  if pos ≥ a.size then ⟨a, .error .einval, [], o⟩
  else
    match a.slots.getD pos none with
    | none =>
      match o.next with
      | (false, o1) => ⟨a, .error .enomem, [], o1⟩
      | (true, o1) => ⟨{ a with slots := a.slots.set pos (some v), tally := a.tally + 1 }, .ok pos, [], o1⟩
    | some c =>
      if c = v then ⟨a, .ok pos, [.kept v], o⟩
      else
        match o.next with
        | (false, o1) => ⟨a, .error .enomem, [], o1⟩
        | (true, o1) => ⟨{ a with slots := a.slots.set pos (some v) }, .ok pos, [.freed c], o1⟩

def upsert (a : Arr) (pos v : Nat) (o : Oracle) : Res :=
  if pos < a.size then update a pos v o else insert a pos v o

def freedOf (l : List (Option Nat)) : List Ev :=
  l.filterMap (fun x => x.map Ev.freed)

def occupied (l : List (Option Nat)) : Nat := (l.filter Option.isSome).length

/-- hawk_arr_delete: returns the number of cells removed -/
def delete (a : Arr) (index count : Nat) : Arr × Nat × List Ev :=
  if index ≥ a.size then (a, 0, [])
  else
    let count := if count > a.size - index then a.size - index else count
    if count = 0 then (a, 0, [])
    else
      let gone := (a.slots.drop index).take count
      ({ a with slots := a.slots.take index ++ a.slots.drop (index + count),
                size := a.size - count,
                tally := a.tally - occupied gone }, count, freedOf gone)

/-- hawk_arr_uplete: frees cells in place, no compaction -/
def uplete (a : Arr) (index count : Nat) : Arr × Nat × List Ev :=
  if index ≥ a.size then (a, 0, [])
  else
    let count := if count > a.size - index then a.size - index else count
    let gone := (a.slots.drop index).take count
    ({ a with slots := a.slots.take index ++ List.replicate count none ++ a.slots.drop (index + count),
              tally := a.tally - occupied gone }, count, freedOf gone)

/-- hawk_arr_pushstack: insert at `size` -/
def pushstack (a : Arr) (v : Nat) (o : Oracle) : Res := insert a a.size v o

/-- hawk_arr_popstack (asserts size > 0; the harness only calls it then): delete the last slot -/
def popstack (a : Arr) : Arr × Nat × List Ev :=
  if a.size > 0 then delete a (a.size - 1) 1 else (a, 0, [])

def clear (a : Arr) : Arr × List Ev :=
  ({ a with slots := [], size := 0, tally := 0 }, freedOf a.slots)

/-- hawk_arr_setcapa: true = returned arr, false = returned NULL (realloc refused) -/
def setcapa (a : Arr) (capa : Nat) (o : Oracle) : Arr × Bool × List Ev × Oracle :=
  if capa = a.capa then (a, true, [], o)
  else
    let (a1, _, ev1) := if capa < a.size then delete a capa (a.size - capa) else (a, 0, [])
    if capa > 0 then
      match setcapaAsk capa o with
      | (false, o1) => (a1, false, ev1, o1)
      | (true, o1) => ({ a1 with capa := capa }, true, ev1, o1)
    else
      let (a2, ev2) := clear a1
      ({ a2 with capa := 0 }, true, ev1 ++ ev2, o)

/-! ### the abstract view: a list of optional values -/
def abs (a : Arr) : List (Option Nat) := a.slots

/-- value last stored at index i (none = empty or beyond size) -/
def read (a : Arr) (i : Nat) : Option Nat := (a.slots.getD i none)

/-- well-formedness of the bookkeeping -/
structure WF (a : Arr) : Prop where
  size_eq : a.size = a.slots.length
  tally_eq : a.tally = occupied a.slots
  size_le_capa : a.size ≤ a.capa

/-! ### binary max-heap on a dense array (sift_up / sift_down / pushheap / deleteheap / updateheap) -/

def hparent (i : Nat) : Nat := (i - 1) / 2

/-- comparator used by the harness: integer order, as an `int` in {-1,0,1} -/
def cmp (a b : Nat) : Int := if a > b then 1 else if a < b then -1 else 0

/-- inner `while (1)` of sift_up: the hole is at `index` (> 0), `tmp` is the value being lifted -/
def siftUpLoop (tmp : Nat) (l : List Nat) (index : Nat) : List Nat × Nat :=
  if h : index = 0 then (l.set index tmp, index) else
  let parent := hparent index
  let l1 := l.set index (l.getD parent 0)
  if parent = 0 then (l1.set parent tmp, parent)
  else if cmp tmp (l1.getD (hparent parent) 0) ≤ 0 then (l1.set parent tmp, parent)
  else siftUpLoop tmp l1 parent
termination_by index
decreasing_by unfold hparent; omega

def siftUp (l : List Nat) (index : Nat) : List Nat × Nat :=
  if index > 0 then
    if cmp (l.getD index 0) (l.getD (hparent index) 0) > 0 then siftUpLoop (l.getD index 0) l index
    else (l, index)
  else (l, index)

/-- child selection of sift_down: the greater child (right only if strictly greater) -/
def pickChild (l : List Nat) (index : Nat) : Nat :=
  if 2 * index + 2 < l.length then
    (if cmp (l.getD (2 * index + 2) 0) (l.getD (2 * index + 1) 0) > 0 then 2 * index + 2 else 2 * index + 1)
  else 2 * index + 1

theorem lt_pickChild (l : List Nat) (index : Nat) : index < pickChild l index := by
  unfold pickChild; split <;> (try split) <;> omega

/-- `do { … } while (index < base)` of sift_down with the hole at `index` (< base) -/
def siftDownLoop (tmp : Nat) (l : List Nat) (index : Nat) : List Nat × Nat :=
  let child := pickChild l index
  if cmp tmp (l.getD child 0) > 0 then (l.set index tmp, index)
  else
    let l1 := l.set index (l.getD child 0)
    if child < l.length / 2 then siftDownLoop tmp l1 child
    else (l1.set child tmp, child)
termination_by l.length - index
decreasing_by
  simp only [List.length_set]
  have := lt_pickChild l index
  omega

def siftDown (l : List Nat) (index : Nat) : List Nat × Nat :=
  if index < l.length / 2 then siftDownLoop (l.getD index 0) l index else (l, index)

def pushheap (l : List Nat) (v : Nat) : List Nat :=
  (siftUp (l ++ [v]) l.length).1

/-- hawk_arr_deleteheap (requires index < size); returns the new dense array and the freed value -/
def deleteheap (l : List Nat) (index : Nat) : List Nat × Option Nat :=
  if h : index < l.length then
    let tmp := l[index]
    let n := l.length - 1
    if n > 0 ∧ index ≠ n then
      let l1 := (l.set index (l.getD n 0)).take n
      let c := cmp (l1.getD index 0) tmp
      if c > 0 then ((siftUp l1 index).1, some tmp)
      else if c < 0 then ((siftDown l1 index).1, some tmp)
      else (l1, some tmp)
    else (l.take n, some tmp)
  else (l, none)

def updateheap (l : List Nat) (index v : Nat) : List Nat × Option Nat :=
  if h : index < l.length then
    let tmp := l[index]
    let c := cmp v tmp
    if c ≠ 0 then
      let l1 := l.set index v
      if c > 0 then ((siftUp l1 index).1, some tmp) else ((siftDown l1 index).1, some tmp)
    else (l, none)
  else (l, none)

/-- max-heap order: every non-root element is ≤ its parent -/
def HeapOrd (l : List Nat) : Prop := ∀ i, 0 < i → i < l.length → l.getD i 0 ≤ l.getD (hparent i) 0

instance (l : List Nat) : Decidable (HeapOrd l) := by
  unfold HeapOrd
  have : (∀ i, 0 < i → i < l.length → l.getD i 0 ≤ l.getD (hparent i) 0) ↔
         (∀ i ∈ List.range l.length, 0 < i → l.getD i 0 ≤ l.getD (hparent i) 0) := by
    constructor
    · intro h i hi hp; exact h i hp (List.mem_range.mp hi)
    · intro h i hp hl; exact h i (List.mem_range.mpr hl) hp
  rw [this]; infer_instance

/-! ### the same heap with position back-pointers (`heap_pos_offset != HAWK_ARR_NIL`)

An item is `(key, pos)`: `pos` is the field inside the caller's datum that `HEAP_UPDATE_POS(arr, index)` overwrites
with `index` after every slot store.  `stamp l i x` is exactly `arr->slot[i] = x; HEAP_UPDATE_POS (arr, i);`.
The functions below are arr.c's again with that macro at each of its seven sites; `HeapPosLemmas` proves that their
keys evolve exactly like the key-only model above and that every item's `pos` equals the slot it sits in. -/

abbrev Item := Nat × Nat

def stamp (l : List Item) (i : Nat) (x : Item) : List Item := l.set i (x.1, i)

def keys (l : List Item) : List Nat := l.map (·.1)

def siftUpLoopP (tmp : Item) (l : List Item) (index : Nat) : List Item × Nat :=
  if h : index = 0 then (stamp l index tmp, index) else
  let parent := hparent index
  let l1 := stamp l index (l.getD parent (0, 0))
  if parent = 0 then (stamp l1 parent tmp, parent)
  else if cmp tmp.1 (l1.getD (hparent parent) (0, 0)).1 ≤ 0 then (stamp l1 parent tmp, parent)
  else siftUpLoopP tmp l1 parent
termination_by index
decreasing_by unfold hparent; omega

def siftUpP (l : List Item) (index : Nat) : List Item × Nat :=
  if index > 0 then
    if cmp (l.getD index (0, 0)).1 (l.getD (hparent index) (0, 0)).1 > 0 then siftUpLoopP (l.getD index (0, 0)) l index
    else (l, index)
  else (l, index)

def pickChildP (l : List Item) (index : Nat) : Nat :=
  if 2 * index + 2 < l.length then
    (if cmp (l.getD (2 * index + 2) (0, 0)).1 (l.getD (2 * index + 1) (0, 0)).1 > 0 then 2 * index + 2 else 2 * index + 1)
  else 2 * index + 1

theorem lt_pickChildP (l : List Item) (index : Nat) : index < pickChildP l index := by
  unfold pickChildP; split <;> (try split) <;> omega

def siftDownLoopP (tmp : Item) (l : List Item) (index : Nat) : List Item × Nat :=
  let child := pickChildP l index
  if cmp tmp.1 (l.getD child (0, 0)).1 > 0 then (stamp l index tmp, index)
  else
    let l1 := stamp l index (l.getD child (0, 0))
    if child < l.length / 2 then siftDownLoopP tmp l1 child
    else (stamp l1 child tmp, child)
termination_by l.length - index
decreasing_by
  simp only [stamp, List.length_set]
  have := lt_pickChildP l index
  omega

def siftDownP (l : List Item) (index : Nat) : List Item × Nat :=
  if index < l.length / 2 then siftDownLoopP (l.getD index (0, 0)) l index else (l, index)

/-- hawk_arr_pushheap: insert at the back, HEAP_UPDATE_POS there, sift up (the caller's `pos` field is overwritten) -/
def pushheapP (l : List Item) (k : Nat) : List Item :=
  (siftUpP (l ++ [(k, l.length)]) l.length).1

def deleteheapP (l : List Item) (index : Nat) : List Item × Option Nat :=
  if h : index < l.length then
    let tmp := l[index]
    let n := l.length - 1
    if n > 0 ∧ index ≠ n then
      let l1 := (stamp l index (l.getD n (0, 0))).take n
      let c := cmp (l1.getD index (0, 0)).1 tmp.1
      if c > 0 then ((siftUpP l1 index).1, some tmp.1)
      else if c < 0 then ((siftDownP l1 index).1, some tmp.1)
      else (l1, some tmp.1)
    else (l.take n, some tmp.1)
  else (l, none)

def updateheapP (l : List Item) (index k : Nat) : List Item × Option Nat :=
  if h : index < l.length then
    let tmp := l[index]
    let c := cmp k tmp.1
    if c ≠ 0 then
      let l1 := stamp l index (k, 0)
      if c > 0 then ((siftUpP l1 index).1, some tmp.1) else ((siftDownP l1 index).1, some tmp.1)
    else (l, none)
  else (l, none)

/-- every item knows the slot it is in -/
def PosOk (l : List Item) : Prop := ∀ i (h : i < l.length), (l[i]).2 = i

instance (l : List Item) : Decidable (PosOk l) := by
  unfold PosOk
  have : (∀ i (h : i < l.length), (l[i]).2 = i) ↔ (∀ i ∈ List.range l.length, (l.getD i (0, 0)).2 = i) := by
    constructor
    · intro h i hi
      have hl := List.mem_range.mp hi
      simp [List.getD_eq_getElem?_getD, hl, h i hl]
    · intro h i hl
      have := h i (List.mem_range.mpr hl)
      simpa [List.getD_eq_getElem?_getD, hl] using this
  rw [this]; infer_instance

end Hawk.Arr
